/-
C12 model: the patch engine of crates/rip-workspace (src/patch.rs parser and hunk
application, src/lib.rs `Workspace::apply_patch` with its undo list and
`revert_paths`). Text is UTF-8 bytes throughout; the file system is a pair of
total functions (files, directories) so that theorems quantify over every
workspace state.
-/
import Rip.Model.Utf8
namespace Rip.Patch
open Rip.Proto

abbrev Comp := List UInt8
abbrev Path := List Comp

/-! ### file system -/

structure FS where
  file : Path → Option Bytes
  dir : Path → Bool

def FS.exists (fs : FS) (p : Path) : Bool := (fs.file p).isSome || fs.dir p

def FS.setFile (fs : FS) (p : Path) (v : Option Bytes) : FS :=
  { fs with file := fun q => if q = p then v else fs.file q }

/-- all non-empty proper-or-equal prefixes of `p`, shortest first, plus the root -/
def prefixes (p : Path) : List Path := (List.range (p.length + 1)).map (fun n => p.take n)

/-- `fs::create_dir_all(p)`: fails iff `p` or one of its ancestors is a file. -/
def FS.createDirAll (fs : FS) (p : Path) : Option FS :=
  if (prefixes p).any (fun q => (fs.file q).isSome) then none
  else some { fs with dir := fun q => fs.dir q || (prefixes p).contains q }

/-- `fs::write(p, bytes)`: the parent must be a directory and `p` must not be one. -/
def FS.write (fs : FS) (p : Path) (b : Bytes) : Option FS :=
  if p = [] then none
  else if fs.dir p then none
  else if !fs.dir p.dropLast then none
  else some (fs.setFile p (some b))

def FS.removeFile (fs : FS) (p : Path) : Option FS :=
  if (fs.file p).isSome then some (fs.setFile p none) else none

/-- `fs::rename(a, b)` for a file `a` and an absent `b`. -/
def FS.rename (fs : FS) (a b : Path) : Option FS :=
  match fs.file a with
  | none => none
  | some bytes =>
    if b = [] then none
    else if fs.exists b then none
    else if !fs.dir b.dropLast then none
    else some ((fs.setFile a none).setFile b (some bytes))

/-- `remove_empty_dirs(p)` of the repaired `revert_paths`: succeeds iff no file lives below `p`;
the model keeps the candidate universe implicit, so the effect is "no directory at or below `p`"
provided no file has `p` as a prefix. `below` is supplied by the caller (files are finitely many). -/
def FS.clearDirs (fs : FS) (p : Path) (hasFileBelow : Bool) : FS :=
  if hasFileBelow then fs
  else { fs with dir := fun q => fs.dir q && !(p.isPrefixOf q) }

/-! ### hunks (patch.rs `apply_hunks_to_text`) -/

structure Hunk where
  before : List Bytes
  after : List Bytes
  deriving Repr, DecidableEq

def splitOnNl (s : Bytes) : List Bytes :=
  let rec go (s : Bytes) (cur : Bytes) : List Bytes :=
    match s with
    | [] => [cur.reverse]
    | b :: r => if b = 10 then cur.reverse :: go r [] else go r (b :: cur)
  go s []

def stripCr (l : Bytes) : Bytes :=
  match l.getLast? with
  | some 13 => l.dropLast
  | _ => l

def hasCrLf : Bytes → Bool
  | 13 :: 10 :: _ => true
  | _ :: r => hasCrLf r
  | [] => false

/-- `split_lines`: lines without their terminators, and whether the text ended with `\n`. -/
def splitLines (text : Bytes) : List Bytes × Bool :=
  let trailing := text.getLast? == some 10
  let lines := (splitOnNl text).map stripCr
  (if trailing then lines.dropLast else lines, trailing)

def intercalate (sep : Bytes) : List Bytes → Bytes
  | [] => []
  | [x] => x
  | x :: xs => x ++ sep ++ intercalate sep xs

/-- `join_lines` -/
def joinLines (lines : List Bytes) (trailing : Bool) (le : Bytes) : Bytes :=
  if lines.isEmpty then []
  else
    let out := intercalate le lines
    if trailing then out ++ le else out

/-- `find_subslice_from` for a non-empty needle: least `idx ≥ start` with a match. -/
def findFrom (hay needle : List Bytes) (start : Nat) : Option Nat :=
  if needle.length > hay.length then none
  else
    ((List.range (hay.length - needle.length + 1)).filter
      (fun idx => start ≤ idx && (hay.drop idx).take needle.length == needle)).head?

def applyHunksLines (lines : List Bytes) (cursor : Nat) : List Hunk → Option (List Bytes)
  | [] => some lines
  | h :: hs =>
    if h.before.isEmpty then
      let l := lines ++ h.after
      applyHunksLines l l.length hs
    else
      match findFrom lines h.before cursor with
      | none => none
      | some pos =>
        let l := lines.take pos ++ h.after ++ lines.drop (pos + h.before.length)
        applyHunksLines l (pos + h.after.length) hs

def applyHunks (original : Bytes) (hunks : List Hunk) : Option Bytes :=
  let le : Bytes := if hasCrLf original then [13, 10] else [10]
  let (lines, trailing) := splitLines original
  match applyHunksLines lines 0 hunks with
  | none => none
  | some l => some (joinLines l trailing le)

/-! ### resolved operations and the engine -/

/-- A path as the engine sees it after `safe_join`: normal components, plus whether the spelling
forces "must be a directory" (trailing `/` or `/.`). -/
structure RPath where
  comps : Path
  mustDir : Bool
  raw : Bytes          -- the spelling, as reported in `changed_files`
  deriving Repr, DecidableEq

inductive Op
  | add (p : RPath) (content : Bytes)
  | delete (p : RPath)
  | update (p : RPath) (movedTo : Option RPath) (hunks : List Hunk)
  deriving Repr

inductive Err
  | parse (what : String)
  | alreadyExists | notFound | moveTargetExists | notUtf8 | hunkMismatch | io
  deriving Repr, DecidableEq

abbrev Undo := List (Path × Option Bytes)

/-- `record_undo`: first sighting of a path records its current content; reading a directory fails. -/
def recordUndo (fs : FS) (undo : Undo) (p : Path) : Option Undo :=
  if undo.any (fun e => e.1 = p) then some undo
  else if fs.exists p then
    match fs.file p with
    | some b => some (undo ++ [(p, some b)])
    | none => none                      -- exists but is a directory: `fs::read` fails
  else some (undo ++ [(p, none)])

structure St where
  fs : FS
  undo : Undo
  changed : List Bytes

def applyOp (s : St) : Op → Except Err St
  | .add p content =>
    if p.mustDir then
      if s.fs.dir p.comps then .error .alreadyExists
      else .error .io
    else if s.fs.exists p.comps then .error .alreadyExists
    else
      match recordUndo s.fs s.undo p.comps with
      | none => .error .io
      | some undo =>
        match s.fs.createDirAll p.comps.dropLast with
        | none => .error .io
        | some fs1 =>
          match fs1.write p.comps content with
          | none => .error .io
          | some fs2 => .ok { fs := fs2, undo := undo, changed := s.changed ++ [p.raw] }
  | .delete p =>
    if p.mustDir then
      if s.fs.dir p.comps then .error .io else .error .notFound
    else if !s.fs.exists p.comps then .error .notFound
    else
      match recordUndo s.fs s.undo p.comps with
      | none => .error .io
      | some undo =>
        match s.fs.removeFile p.comps with
        | none => .error .io
        | some fs1 => .ok { fs := fs1, undo := undo, changed := s.changed ++ [p.raw] }
  | .update p movedTo hunks =>
    if p.mustDir then
      if s.fs.dir p.comps then .error .io else .error .notFound
    else if !s.fs.exists p.comps then .error .notFound
    else
      match recordUndo s.fs s.undo p.comps with
      | none => .error .io
      | some undo =>
        match s.fs.file p.comps with
        | none => .error .io
        | some bytes =>
          if !Rip.Utf8.isValid bytes then .error .notUtf8 else
          match applyHunks bytes hunks with
          | none => .error .hunkMismatch
          | some updated =>
            match s.fs.write p.comps updated with
            | none => .error .io
            | some fs1 =>
              let s1 : St := { fs := fs1, undo := undo, changed := s.changed ++ [p.raw] }
              match movedTo with
              | none => .ok s1
              | some t =>
                if t.mustDir then
                  if fs1.dir t.comps then .error .moveTargetExists else .error .io
                else if fs1.exists t.comps then .error .moveTargetExists
                else
                  match recordUndo fs1 undo t.comps with
                  | none => .error .io
                  | some undo2 =>
                    match fs1.createDirAll t.comps.dropLast with
                    | none => .error .io
                    | some fs2 =>
                      match fs2.rename p.comps t.comps with
                      | none => .error .io
                      | some fs3 => .ok { fs := fs3, undo := undo2, changed := s1.changed ++ [t.raw] }

/-- The engine mutates the file system while it goes; an op that fails midway leaves its partial
effects (e.g. created directories, an updated-but-not-moved file) for the revert to clean up.
`applyOpFs` returns the file system and undo list as they are at the failure point. -/
def applyOpPartial (s : St) : Op → St
  | .add p _ =>
    if p.mustDir then
      if s.fs.dir p.comps then s
      else
        -- exists() is false; record_undo pushes (p, None) unless seen; create_dir_all(parent) may succeed
        match s.fs.createDirAll p.comps.dropLast with
        | none => s
        | some fs1 => { s with fs := fs1 }
    else if s.fs.exists p.comps then s
    else
      match recordUndo s.fs s.undo p.comps with
      | none => s
      | some undo =>
        match s.fs.createDirAll p.comps.dropLast with
        | none => { s with undo := undo }
        | some fs1 => { s with fs := fs1, undo := undo }
  | .delete p =>
    if p.mustDir then s
    else if !s.fs.exists p.comps then s
    else
      match recordUndo s.fs s.undo p.comps with
      | none => s
      | some undo => { s with undo := undo }
  | .update p movedTo hunks =>
    if p.mustDir then s
    else if !s.fs.exists p.comps then s
    else
      match recordUndo s.fs s.undo p.comps with
      | none => s
      | some undo =>
        match s.fs.file p.comps with
        | none => { s with undo := undo }
        | some bytes =>
          if !Rip.Utf8.isValid bytes then { s with undo := undo } else
          match applyHunks bytes hunks with
          | none => { s with undo := undo }
          | some updated =>
            match s.fs.write p.comps updated with
            | none => { s with undo := undo }
            | some fs1 =>
              match movedTo with
              | none => { s with fs := fs1, undo := undo }
              | some t =>
                if t.mustDir then
                  if fs1.dir t.comps then { s with fs := fs1, undo := undo }
                  else
                    match fs1.createDirAll t.comps.dropLast with
                    | none => { s with fs := fs1, undo := undo }
                    | some fs2 => { s with fs := fs2, undo := undo }
                else if fs1.exists t.comps then { s with fs := fs1, undo := undo }
                else
                  match recordUndo fs1 undo t.comps with
                  | none => { s with fs := fs1, undo := undo }
                  | some undo2 =>
                    match fs1.createDirAll t.comps.dropLast with
                    | none => { s with fs := fs1, undo := undo2 }
                    | some fs2 => { s with fs := fs2, undo := undo2 }

/-- Revert one undo entry (`revert_paths`, after the C12 repair: a recorded file whose path has
meanwhile become a directory gets the patch-created empty directories removed first).
`fileBelow p` tells whether some file currently lives strictly below `p`. -/
def revertEntry (fileBelow : FS → Path → Bool) (fs : FS) (e : Path × Option Bytes) : FS :=
  match e.2 with
  | some bytes =>
    let fs0 := if fs.dir e.1 then fs.clearDirs e.1 (fileBelow fs e.1) else fs
    let fs1 := match fs0.createDirAll e.1.dropLast with
      | some f => f
      | none => fs0
    match fs1.write e.1 bytes with
    | some f => f
    | none => fs1
  | none =>
    match fs.removeFile e.1 with
    | some f => f
    | none => fs

def revert (fileBelow : FS → Path → Bool) (fs : FS) (undo : Undo) : FS :=
  undo.reverse.foldl (revertEntry fileBelow) fs

def applyOps (s : St) : List Op → Except (Err × St) St
  | [] => .ok s
  | op :: ops =>
    match applyOp s op with
    | .ok s1 => applyOps s1 ops
    | .error e => .error (e, applyOpPartial s op)

/-- `changed_files.sort(); dedup()` on byte strings. -/
def insertSorted (x : Bytes) : List Bytes → List Bytes
  | [] => [x]
  | y :: ys => if x < y then x :: y :: ys else if x = y then y :: ys else y :: insertSorted x ys

def sortDedup (xs : List Bytes) : List Bytes := xs.foldr insertSorted []

/-- `Workspace::apply_patch` on already-parsed operations. -/
def applyPatchOps (fileBelow : FS → Path → Bool) (fs : FS) (ops : List Op) : Except Err (List Bytes) × FS :=
  match applyOps { fs := fs, undo := [], changed := [] } ops with
  | .ok s => (.ok (sortDedup s.changed), s.fs)
  | .error (e, s) => (.error e, revert fileBelow s.fs s.undo)

end Rip.Patch
