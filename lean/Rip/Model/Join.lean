/-
C06 model: the join between history and live delivery of an event stream.
Producer: for each frame k = 0,1,…,n-1 it runs a fixed micro-program over the effects
`lock` (the lock the subscriber's snapshot also takes), `pub` (broadcast send), `rec` (make the
frame part of what a snapshot returns), `unlock`. Subscriber: `subscribe`, then `snapshot`
(blocked while the producer holds the lock), then delivers `history ++ live.filter (seq > last
history)` — exactly what the three SSE handlers of ripd/src/server.rs do.
-/
namespace Rip.Join

inductive Micro | lock | unlock | pub | record
  deriving Repr, DecidableEq

inductive Who | producer | subscriber
  deriving Repr, DecidableEq

structure S where
  frame : Nat                -- index of the frame the producer is working on
  pos : Nat                  -- position inside the micro-program
  held : Bool                -- producer holds the lock
  published : List Nat       -- frames sent on the channel so far (in order)
  recorded : List Nat        -- frames a snapshot would return (in order)
  spc : Nat                  -- subscriber: 0 before subscribe, 1 before snapshot, 2 done
  subAt : Nat                -- how many frames had been published when the subscriber subscribed
  history : List Nat
  deriving Repr, DecidableEq

def init : S :=
  { frame := 0, pos := 0, held := false, published := [], recorded := [], spc := 0, subAt := 0, history := [] }

def step (prog : List Micro) (n : Nat) (s : S) : Who → S
  | .producer =>
    if s.frame ≥ n then s else
    match prog[s.pos]? with
    | none => { s with frame := s.frame + 1, pos := 0 }          -- unreachable for well-formed programs
    | some m =>
      let s1 : S := match m with
        | .lock => { s with held := true }
        | .unlock => { s with held := false }
        | .pub => { s with published := s.published ++ [s.frame] }
        | .record => { s with recorded := s.recorded ++ [s.frame] }
      if s.pos + 1 ≥ prog.length then { s1 with frame := s.frame + 1, pos := 0 } else { s1 with pos := s.pos + 1 }
  | .subscriber =>
    match s.spc with
    | 0 => { s with spc := 1, subAt := s.published.length }
    | 1 => if s.held then s else { s with spc := 2, history := s.recorded }
    | _ => s

def run (prog : List Micro) (n : Nat) (sched : List Who) : S := sched.foldl (step prog n) init

/-- what the subscriber delivers once the producer has finished -/
def output (s : S) : List Nat :=
  let live := s.published.drop s.subAt
  match s.history.getLast? with
  | none => s.history ++ live
  | some last => s.history ++ live.filter (fun k => k > last)

def complete (n : Nat) (s : S) : Bool := s.frame ≥ n && s.spc == 2

/-- the three join-safe shapes -/
def recThenPub : List Micro := [.record, .pub]
def lockedPubRec : List Micro := [.lock, .pub, .record, .unlock]
def lockedRecPub : List Micro := [.lock, .record, .pub, .unlock]
/-- the unsafe shape the session and task emitters had: publish, then lock+record -/
def pubThenLockedRec : List Micro := [.pub, .lock, .record, .unlock]

def safeShapes : List (List Micro) := [recThenPub, lockedPubRec, lockedRecPub]

end Rip.Join
