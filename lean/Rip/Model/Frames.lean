/-
C20 model: rip-tui `FrameStore` and the `TuiState::update` fold, at the level of
the fields the fold reads. Mirrors crates/rip-tui/src/frame_store.rs and
crates/rip-tui/src/state.rs. Strings are UTF-8 byte lists.
-/
import Rip.Model.Proto
namespace Rip.Frames
open Rip.Proto

def u64Max : Nat := 18446744073709551615

/-- `u64::saturating_add(1)` -/
def satSucc (n : Nat) : Nat := if n < u64Max then n + 1 else n

inductive TaskStatus | queued | running | exited | cancelled | failed
  deriving DecidableEq, Repr

inductive TStream | stdout | stderr | pty
  deriving DecidableEq, Repr

/-- The part of `EventKind` that `TuiState::update` distinguishes. -/
inductive Kind
  | sessionStarted (input : Bytes) (blank : Bool)
  | outputTextDelta (delta : Bytes)
  | sessionEnded
  | toolStarted (id : Bytes)
  | toolStdout (id : Bytes) (chunk : Bytes)
  | toolStderr (id : Bytes) (chunk : Bytes)
  | toolEnded (id : Bytes) (exit : Int)
  | toolFailed (id : Bytes)
  | taskSpawned (id : Bytes)
  | taskStatus (id : Bytes) (st : TaskStatus)
  | taskDelta (id : Bytes) (stream : TStream) (chunk : Bytes)
  | providerEvent (isOpenResponses : Bool) (isError : Bool)
  | checkpointFailed
  | reqStarted | respHeaders | respFirstByte
  | other
  deriving Repr, DecidableEq

structure Frame where
  seq : Nat
  ts : Nat
  session : Bytes
  tag : Nat            -- identity of the frame (position in the input)
  kind : Kind
  deriving Repr, DecidableEq

/-! ### FrameStore -/

structure FrameStore where
  base : Nat
  frames : List Frame   -- oldest first
  cap : Nat             -- `max_frames.max(1)`
  deriving Repr

def FrameStore.new (maxFrames : Nat) : FrameStore :=
  { base := 0, frames := [], cap := max maxFrames 1 }

def FrameStore.push (s : FrameStore) (f : Frame) : FrameStore :=
  let base := if s.frames.isEmpty then f.seq else s.base
  if s.frames.length ≥ s.cap then
    { s with base := satSucc base, frames := s.frames.tail ++ [f] }
  else
    { s with base := base, frames := s.frames ++ [f] }

/-- `index_of_seq` as in the source: position `seq - base_seq` if in range. -/
def FrameStore.indexOfSeqRaw (s : FrameStore) (q : Nat) : Option Nat :=
  if s.frames.length = 0 then none
  else if q < s.base then none
  else if q - s.base ≥ s.frames.length then none
  else some (q - s.base)

/-- `index_of_seq` with the check that the frame found carries the requested seq
(the code after the C20 repair). -/
def FrameStore.indexOfSeq (s : FrameStore) (q : Nat) : Option Nat :=
  match s.indexOfSeqRaw q with
  | none => none
  | some i =>
    match s.frames[i]? with
    | some f => if f.seq = q then some i else none
    | none => none

def FrameStore.getBySeq (s : FrameStore) (q : Nat) : Option Frame :=
  match s.indexOfSeq q with
  | none => none
  | some i => s.frames[i]?

/-- The lookup as the unrepaired code had it (kept for the counterexample). -/
def FrameStore.getBySeqRaw (s : FrameStore) (q : Nat) : Option Frame :=
  match s.indexOfSeqRaw q with
  | none => none
  | some i => s.frames[i]?

/-! ### bounded text buffers (`push_output`, `push_preview`) -/

def isCont (b : UInt8) : Bool := b &&& 0xC0 == 0x80

/-- `str::is_char_boundary(i)` for `0 < i`; on a byte list. -/
def isBoundary (s : Bytes) (i : Nat) : Bool :=
  match s[i]? with
  | none => i == s.length
  | some b => !isCont b

/-- the `while start < len && !is_char_boundary(start) { start += 1 }` loop -/
def advance (s : Bytes) (start : Nat) (fuel : Nat) : Nat :=
  match fuel with
  | 0 => start
  | fuel + 1 =>
    if start < s.length ∧ !isBoundary s start then advance s (start + 1) fuel else start

/-- `push_preview` / the core of `push_output`: returns new buffer and whether it truncated. -/
def pushBounded (target chunk : Bytes) (maxLen : Nat) : Bytes × Bool :=
  if chunk.isEmpty then (target, false) else
  let t := target ++ chunk
  if t.length ≤ maxLen then (t, false) else
  let keep := maxLen / 2
  let start := advance t (t.length - keep) t.length
  (t.drop start, true)

/-! ### TuiState -/

inductive ToolStatus | running | ended (exit : Int) | failed
  deriving Repr

structure Tool where
  id : Bytes
  startedSeq : Nat
  status : ToolStatus
  out : Bytes
  err : Bytes
  deriving Repr

structure Task where
  id : Bytes
  status : TaskStatus
  out : Bytes
  err : Bytes
  pty : Bytes
  deriving Repr

structure Tui where
  frames : FrameStore
  selected : Option Nat
  autoFollow : Bool
  session : Option Bytes
  startMs : Option Nat
  firstOutMs : Option Nat
  endMs : Option Nat
  reqMs : Option Nat
  hdrMs : Option Nat
  fbMs : Option Nat
  fpeMs : Option Nat
  output : Bytes
  truncated : Bool
  tools : List Tool      -- association list, insertion order; keys unique
  tasks : List Task
  lastErr : Option Nat
  lastMs : Option Nat
  maxOut : Nat
  maxPrev : Nat
  deriving Repr

def Tui.new (maxFrames maxOut maxPrev : Nat) : Tui :=
  { frames := FrameStore.new maxFrames, selected := none, autoFollow := true, session := none,
    startMs := none, firstOutMs := none, endMs := none, reqMs := none, hdrMs := none,
    fbMs := none, fpeMs := none, output := [], truncated := false, tools := [], tasks := [],
    lastErr := none, lastMs := none, maxOut := max maxOut 1, maxPrev := maxPrev }

def orSet (o : Option Nat) (v : Nat) : Option Nat :=
  match o with
  | some x => some x
  | none => some v

def Tui.pushOutput (t : Tui) (delta : Bytes) : Tui :=
  let (o, tr) := pushBounded t.output delta t.maxOut
  { t with output := o, truncated := t.truncated || tr }

def isError : Kind → Bool
  | .toolFailed _ => true
  | .checkpointFailed => true
  | .taskStatus _ .failed => true
  | .providerEvent _ e => e
  | _ => false

def updTool (ts : List Tool) (id : Bytes) (f : Tool → Tool) : List Tool :=
  ts.map (fun t => if t.id = id then f t else t)

def insTool (ts : List Tool) (n : Tool) : List Tool :=
  if ts.any (fun t => t.id = n.id) then ts.map (fun t => if t.id = n.id then n else t)
  else ts ++ [n]

def updTask (ts : List Task) (id : Bytes) (f : Task → Task) : List Task :=
  ts.map (fun t => if t.id = id then f t else t)

def insTask (ts : List Task) (n : Task) : List Task :=
  if ts.any (fun t => t.id = n.id) then ts.map (fun t => if t.id = n.id then n else t)
  else ts ++ [n]

def isTerminal : TaskStatus → Bool
  | .exited | .cancelled | .failed => true
  | _ => false

def Tui.ingest (t : Tui) (f : Frame) : Tui :=
  match f.kind with
  | .toolStarted id =>
    { t with tools := insTool t.tools { id := id, startedSeq := f.seq, status := .running, out := [], err := [] } }
  | .toolStdout id c =>
    { t with tools := updTool t.tools id (fun x => { x with out := (pushBounded x.out c t.maxPrev).1 }) }
  | .toolStderr id c =>
    { t with tools := updTool t.tools id (fun x => { x with err := (pushBounded x.err c t.maxPrev).1 }) }
  | .toolEnded id e =>
    { t with tools := updTool t.tools id (fun x => { x with status := .ended e }) }
  | .toolFailed id =>
    { t with tools := updTool t.tools id (fun x => { x with status := .failed }) }
  | .taskSpawned id =>
    { t with tasks := insTask t.tasks { id := id, status := .queued, out := [], err := [], pty := [] } }
  | .taskStatus id st =>
    if t.tasks.any (fun x => x.id = id) then
      { t with tasks := updTask t.tasks id (fun x => { x with status := st }) }
    else
      { t with tasks := t.tasks ++ [{ id := id, status := st, out := [], err := [], pty := [] }] }
  | .taskDelta id s c =>
    { t with tasks := updTask t.tasks id (fun x =>
        match s with
        | .stdout => { x with out := (pushBounded x.out c t.maxPrev).1 }
        | .stderr => { x with err := (pushBounded x.err c t.maxPrev).1 }
        | .pty => { x with pty := (pushBounded x.pty c t.maxPrev).1 }) }
  | _ => t

/-- header of `update`: session id, last event time, last error seq -/
def Tui.head (t : Tui) (f : Frame) : Tui :=
  let t := if t.session.isNone then { t with session := some f.session } else t
  let t := { t with lastMs := some f.ts }
  if isError f.kind then { t with lastErr := some f.seq } else t

/-- the first `match` of `update`: timing marks and the output buffer -/
def Tui.marks (t : Tui) (f : Frame) : Tui :=
  match f.kind with
  | .sessionStarted input blank =>
    let t := { t with startMs := orSet t.startMs f.ts }
    if blank then t else
      ((t.pushOutput "You: ".toUTF8.toList).pushOutput input).pushOutput "\n\n".toUTF8.toList
  | .taskSpawned _ => { t with startMs := orSet t.startMs f.ts }
  | .reqStarted => { t with reqMs := orSet t.reqMs f.ts }
  | .respHeaders => { t with hdrMs := orSet t.hdrMs f.ts }
  | .respFirstByte => { t with fbMs := orSet t.fbMs f.ts }
  | .outputTextDelta d => ({ t with firstOutMs := orSet t.firstOutMs f.ts }).pushOutput d
  | .sessionEnded => { t with endMs := orSet t.endMs f.ts }
  | .taskStatus _ st => if isTerminal st then { t with endMs := orSet t.endMs f.ts } else t
  | .providerEvent true _ => { t with fpeMs := orSet t.fpeMs f.ts }
  | _ => t

/-- the tail of `update`: store the frame, follow the selection -/
def Tui.store (t : Tui) (f : Frame) : Tui :=
  if t.autoFollow || t.selected.isNone then
    { t with frames := t.frames.push f, selected := some f.seq }
  else { t with frames := t.frames.push f }

def Tui.update (t : Tui) (f : Frame) : Tui :=
  (((t.head f).marks f).ingest f).store f

def Tui.run (t : Tui) (fs : List Frame) : Tui := fs.foldl Tui.update t

/-- `truncate` of summary.rs on a char list (char-indexed API). -/
def truncateChars (s : List Char) (maxLen : Nat) : List Char :=
  if s.length ≤ maxLen then s else s.take maxLen ++ ['…']

end Rip.Frames
