import Rip.Model.Lineage
import Rip.Model.Proto
namespace Rip.Driver.C10
open Rip.Proto Rip.Lineage

def pKind : P K := do
  let t ← tok
  match t with
  | "created" => pure .created
  | "message" => pure .message
  | "rs" => do let m ← nat; pure (.runSpawned m)
  | "re" => do let m ← nat; pure (.runEnded m)
  | "other" => pure .other
  | _ => failure

def pFrame : P F := do
  let s ← nat; let i ← nat; let q ← nat; let k ← pKind
  pure { stream := s, id := i, seq := q, kind := k }

def pSel : P Sel := do
  let t ← tok
  match t with
  | "none" => pure .none
  | "seq" => do let q ← nat; pure (.fromSeq q)
  | "msg" => do let m ← nat; pure (.fromMsg m)
  | "both" => do let q ← nat; let m ← nat; pure (.both q m)
  | _ => failure

def showErr : CutErr → String
  | .conflicting => "conflicting" | .noSuchThread => "no-such-thread" | .outOfRange => "out-of-range"
  | .notFound => "not-found" | .noSummary => "no-summary" | .artifactMissing => "artifact-missing"

/-- `c10 <n> frame* <branch|handoff> <parent> <sel> <markdown> <artifact|_> <k> existingArtifact*`
child stream / fresh ids are 1000000.. (the harness canonicalises the real ones to the same) -/
def handle (rest : String) : String :=
  match runP (do
      let fs ← listOf pFrame
      let op ← tok
      let parent ← nat
      let sel ← pSel
      let md ← bool
      let art ← optNat
      let ex ← listOf nat
      pure (fs, op, parent, sel, md, art, ex)) rest with
  | none => "bad-case"
  | some (fs, op, parent, sel, md, art, ex) =>
    let child := 1000000
    if op == "branch" then
      match branch fs parent child 1000001 1000002 sel with
      | .error e => "err " ++ showErr e
      | .ok (log, q, m) =>
        s!"ok cut={q} msg={showOptNat m} parent_frames={(streamOf log parent).length} child_frames={(streamOf log child).length}"
    else
      match handoff fs (fun a => ex.contains a) parent child 1000001 1000002 1000003 sel md art with
      | .error e => "err " ++ showErr e
      | .ok (log, q, m, a) =>
        s!"ok cut={q} msg={showOptNat m} parent_frames={(streamOf log parent).length} child_frames={(streamOf log child).length} artifact={showOptNat a}"

end Rip.Driver.C10
