import Rip.Model.Sse
namespace Rip.Driver.C15
open Rip.Proto Rip.Sse

structure Case where
  seqStart : Nat
  table : List (Bytes × Option Bytes)
  chunks : List Bytes

def pCase : P Case := do
  let s ← nat
  let t ← listOf (do let r ← bytes; let d ← optBytes; pure (r, d))
  let cs ← listOf bytes
  pure { seqStart := s, table := t, chunks := cs }

def showFrame : FrameOut → String
  | .provider seq ev raw done => s!"P {seq} {showOptBytes ev} {hexEncode raw} {showBool done}"
  | .textDelta seq d => s!"T {seq} {hexEncode d}"

def observe (c : Case) : String :=
  let deltaOf : Bytes → Option Bytes := fun raw =>
    match c.table.find? (fun e => e.1 = raw) with
    | some e => e.2
    | none => none
  let p := feed deltaOf c.seqStart c.chunks
  s!"{p.seq} {showBool p.done} {p.out.length} " ++ String.intercalate " " (p.out.map showFrame)

def handle (rest : String) : String :=
  match runP pCase rest with
  | some c => observe c
  | none => "bad-case"

/-- decoder only (string level): `c15d <nchunks> chunk*` with valid UTF-8 chunks -/
def handleDec (rest : String) : String :=
  match runP (listOf bytes) rest with
  | none => "bad-case"
  | some cs =>
    let (d, evs) := cs.foldl (fun (acc : Dec × List Parsed) c =>
      let (d, e) := acc.1.push c; (d, acc.2 ++ e)) (Dec.init, [])
    let (_, e2) := d.finish
    let all := evs ++ e2
    s!"{all.length} " ++ String.intercalate " " (all.map (fun p => s!"{showOptBytes p.event} {hexEncode p.raw}"))

/-- UTF-8 validation only: `c15u <bytes>` -/
def handleUtf8 (rest : String) : String :=
  match runP bytes rest with
  | none => "bad-case"
  | some b =>
    match Rip.Utf8.validate b with
    | none => "valid"
    | some (v, e) => s!"err {v} {showOptNat e}"

end Rip.Driver.C15
