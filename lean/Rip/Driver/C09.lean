import Rip.Model.Compaction
import Rip.Model.Proto
namespace Rip.Driver.C09
open Rip.Proto Rip.Compaction

def pKind : P K := do
  let t ← tok
  match t with
  | "message" => pure .message
  | "ckpt" => do let q ← nat; pure (.ckpt q)
  | "js" => do let j ← nat; pure (.jobSpawned j)
  | "je" => do let j ← nat; pure (.jobEnded j)
  | "decided" => pure .decided
  | "other" => pure .other
  | _ => failure

def pFrame : P F := do
  let i ← nat; let q ← nat; let k ← pKind
  pure { id := i, seq := q, kind := k }

def showCut (c : Cut) : String :=
  s!"{c.ordinal}:{c.toSeq}:{c.msgId}:{showBool c.already}:{showOptNat c.latestCkpt}"

def showPlanned (c : Cut) : String := s!"{c.ordinal}:{c.toSeq}:{c.msgId}"

def showF (f : F) : String :=
  match f.kind with
  | .message => s!"message@{f.seq}" | .ckpt q => s!"ckpt({q})@{f.seq}" | .jobSpawned _ => s!"job_spawned@{f.seq}"
  | .jobEnded _ => s!"job_ended@{f.seq}" | .decided => s!"decided@{f.seq}" | .other => s!"other@{f.seq}"

def join (xs : List String) : String := String.intercalate "," xs

/-- `c09 <n> frame* <op> …` -/
def handle (rest : String) : String :=
  match runP (do
      let fs ← listOf pFrame
      let op ← tok
      let a ← optNat; let b ← optNat; let x ← bool; let y ← bool; let z ← bool
      pure (fs, op, a, b, x, y, z)) rest with
  | none => "bad-case"
  | some (T, op, a, b, x, y, z) =>
    let stride := a.getD 10000
    if stride = 0 then "err invalid_stride" else
    if T.isEmpty then "err thread_not_found" else
    let fresh : Nat → Nat := fun i => 5000000 + i
    match op with
    | "cuts" =>
      let cs := cutPoints T stride (b.getD 1)
      s!"count={(messages T).length} cuts=[{join (cs.map showCut)}]"
    | "auto" =>
      let (st, p, fs) := auto T fresh 777 stride (b.getD 1) x
      let s := match st with | .noop => "noop" | .completed => "completed"
      s!"{s} count={(messages T).length} planned=[{join (p.map showPlanned)}] appended=[{join (fs.map showF)}]"
    | "sched" =>
      let (d, p, fs) := schedule T fresh 777 stride (b.getD 1) x y z
      let s := match d with
        | .noop => "noop" | .dryRun => "dry_run" | .skippedInflight => "skipped_inflight"
        | .scheduled => "scheduled" | .completed => "completed"
      s!"{s} count={(messages T).length} planned=[{join (p.map showPlanned)}] appended=[{join (fs.map showF)}]"
    | _ => "bad-op"

end Rip.Driver.C09
