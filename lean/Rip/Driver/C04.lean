import Rip.Model.Cache
import Rip.Model.Proto
namespace Rip.Driver.C04
open Rip.Proto Rip.Cache

def pFrame : P F := do
  let s ← nat; let t ← tok
  match t with
  | "c" => do let k ← nat; pure ⟨s, .cursor k⟩
  | "d" => pure ⟨s, .decision⟩
  | "o" => pure ⟨s, .other⟩
  | _ => failure

def insertSorted (x : Nat) : List Nat → List Nat
  | [] => [x]
  | y :: ys => if x ≤ y then x :: y :: ys else y :: insertSorted x ys

/-- `c04 <limit> <n> frame*` → the truth answers of cursor status and selection status -/
def handle (rest : String) : String :=
  match runP (do let l ← nat; let fs ← listOf pFrame; pure (l, fs)) rest with
  | none => "bad-case"
  | some (l, fs) =>
    let c := cursorTruth fs
    let seqs := (c.cursors.map (·.2)).foldl (fun acc x => insertSorted x acc) []
    s!"active={showOptNat c.active} cursors=[{",".intercalate (seqs.map toString)}] decisions=[{",".intercalate ((selectionTruth fs l).map toString)}]"

end Rip.Driver.C04
