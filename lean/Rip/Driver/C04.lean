import Rip.Model.Cache
import Rip.Model.SeekIndex
import Rip.Model.Proto
namespace Rip.Driver.C04
open Rip.Proto Rip.Cache

def pFrame : P F := do
  let s ← nat; let t ← tok
  match t with
  | "c" => do let k ← nat; pure ⟨s, .cursor k⟩
  | "d" => pure ⟨s, .decision⟩
  | "o" => pure ⟨s, .other⟩
  | _ => failure

def insertSorted (x : Nat) : List Nat → List Nat
  | [] => [x]
  | y :: ys => if x ≤ y then x :: y :: ys else y :: insertSorted x ys

/-- `c04 <limit> <n> frame*` → the truth answers of cursor status and selection status -/
def handle (rest : String) : String :=
  match runP (do let l ← nat; let fs ← listOf pFrame; pure (l, fs)) rest with
  | none => "bad-case"
  | some (l, fs) =>
    let c := cursorTruth fs
    let seqs := (c.cursors.map (·.2)).foldl (fun acc x => insertSorted x acc) []
    s!"active={showOptNat c.active} cursors=[{",".intercalate (seqs.map toString)}] decisions=[{",".intercalate ((selectionTruth fs l).map toString)}]"

/-! `c04s <checkUse> <stride> <budget> <fromSeq> <limit> <hasFile> <n> (seq off)* <m> (seq msg keep len)*`
→ what `window_recent_messages_v1_from_seq` answers over that sidecar and that seek-index file -/
namespace Seek
open Rip.SeekIndex

def pEntry : P Entry := do let s ← nat; let o ← nat; pure ⟨s, o⟩
def pLine : P Line := do let s ← nat; let m ← bool; let k ← bool; let l ← nat; pure ⟨s, m, k, l⟩

def handle (rest : String) : String :=
  match runP (do
      let cu ← bool; let stride ← nat; let budget ← nat; let f ← nat; let l ← nat
      let has ← bool; let es ← listOf pEntry; let ls ← listOf pLine
      pure (cu, stride, budget, f, l, has, es, ls)) rest with
  | none => "bad-case"
  | some (cu, stride, budget, f, l, has, es, ls) =>
    match window cu stride budget ls (if has then some es else none) f l with
    | none => "err"
    | some r => s!"ok [{",".intercalate (r.map toString)}]"

end Seek

end Rip.Driver.C04
