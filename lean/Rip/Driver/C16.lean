import Rip.Model.ToolLoop
import Rip.Model.Proto
import Rip.Gen.Consts
namespace Rip.Driver.C16
open Rip.Proto Rip.ToolLoop

def pText : P Text := listOf nat

def pOptText : P (Option Text) := do
  let t ← tok
  if t = "_" then pure none else if t = "T" then do let x ← pText; pure (some x) else failure

def pEv : P PEv := do
  let t ← tok
  match t with
  | "I" => do
    let d ← bool; let idx ← nat; let isFn ← bool
    let iid ← optNat; let cid ← optNat; let nm ← optNat; let a ← pOptText
    pure (.item d idx isFn iid cid nm a)
  | "D" => do let iid ← optNat; let idx ← nat; let x ← pText; pure (.argsDelta iid idx x)
  | "F" => do let iid ← optNat; let idx ← nat; let x ← pText; pure (.argsDone iid idx x)
  | "O" => pure .other
  | _ => failure

def pTc : P ToolChoice := do
  let t ← tok
  match t with
  | "a" => pure .auto
  | "r" => pure .required
  | "n" => pure .noneChoice
  | "f" => do let n ← optNat; pure (.function n)
  | "t" => do
    let m ← bool
    let ts ← listOf (do let f ← bool; let n ← optNat; pure (f, n))
    pure (.allowedTools m ts)
  | "o" => pure .other
  | _ => failure

def showText (t : Text) : String := ".".intercalate (t.map toString)

def showCall (c : Call) : String := s!"{c.outputIndex}:{c.callId}:{c.itemId}:{c.name}:{showText c.args}"

/-- `c16c <n> ev*` → the drained calls -/
def handleC (rest : String) : String :=
  match runP (listOf pEv) rest with
  | none => "bad-case"
  | some evs => " ".intercalate ("calls" :: (collect evs).map showCall)

/-- `c16a <tc> <name>` -/
def handleA (rest : String) : String :=
  match runP (do let tc ← pTc; let n ← nat; pure (tc, n)) rest with
  | none => "bad-case"
  | some (tc, n) => showBool (tc.enforcement.allows n)

def showItem : Item → String
  | .user => "u" | .followupMsg => "m" | .fcall c => s!"c{c}" | .foutput c => s!"o{c}"

def showPairs (l : List (Str × Str)) : String := ",".intercalate (l.map (fun p => s!"{p.1}:{p.2}"))

def showRound (r : Round) : String :=
  s!"{showBool r.request.hasPrev} [{",".intercalate (r.request.input.map showItem)}] exec=[{",".intercalate (r.executed.map (fun p => toString p.2))}] rej=[{showPairs r.rejected}]"

/-- which requests pass the schema gate (an oracle of the model, observed on the real validator):
0 none, 1 all, 2 all whose items carry non-empty call ids and whose echoed function_call items
(stateless history) carry a non-empty name — `noName` lists the call ids of calls without a name -/
def validOf (mode : Nat) (noName : List Str) (r : Request) : Bool :=
  match mode with
  | 0 => false
  | 1 => true
  | _ => r.input.all (fun i => match i with
      | .fcall c => c != 0 && !noName.contains c
      | .foutput c => c != 0
      | _ => true)

def pResp : P Response := do
  let ok ← bool; let hasId ← bool; let evs ← listOf pEv
  pure { streamOk := ok, hasResponseId := hasId, events := evs }

/-- `c16l <stateless> <followupMsg> <validMode> <tc> <n> resp*` -/
def handleL (rest : String) : String :=
  match runP (do
      let st ← bool; let msg ← bool; let vm ← nat; let tc ← pTc; let rs ← listOf pResp
      pure (st, msg, vm, tc, rs)) rest with
  | none => "bad-case"
  | some (st, msg, vm, tc, rs) =>
    let noName := ((rs.map (fun r => collect r.events)).flatten.filter (fun c => c.name == 0)).map (·.callId)
    let out := agentLoop { stateless := st, followupMsg := msg, enf := tc.enforcement, valid := validOf vm noName,
                           maxCalls := Rip.Gen.Consts.provider_openresponses_DEFAULT_MAX_TOOL_CALLS } rs
    s!"reason={out.reason} " ++ " | ".intercalate (out.rounds.map showRound)

end Rip.Driver.C16
