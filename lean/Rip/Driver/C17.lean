import Rip.Model.Capture
import Rip.Model.TaskLTS
namespace Rip.Driver.C17
open Rip.Proto Rip.Capture

def showRange (r : Range) : String :=
  s!"{r.offset} {r.bytes} {r.total} {r.storedLen} {showBool r.truncated}"

/-- `c17w <cap> <n> chunk*` -/
def handleW (rest : String) : String :=
  match runP (do let c ← nat; let cs ← listOf bytes; pure (c, cs)) rest with
  | none => "bad-case"
  | some (cap, cs) =>
    let (w, rs) := (LogW.init cap).feed cs
    s!"{hexEncode w.stored} {w.total} {showBool w.truncated} | " ++ String.intercalate " ; " (rs.map showRange)

/-- `c17r <file> <off> <max>` -/
def handleR (rest : String) : String :=
  match runP (do let f ← bytes; let o ← nat; let m ← nat; pure (f, o, m)) rest with
  | none => "bad-case"
  | some (f, o, m) =>
    let p := readRange f o m
    s!"{hexEncode p.raw} {p.total} {showBool p.truncated}"

/-- `c17c <maxPrev> <artMax> <n> chunk*` -/
def handleC (rest : String) : String :=
  match runP (do let a ← nat; let b ← nat; let cs ← listOf bytes; pure (a, b, cs)) rest with
  | none => "bad-case"
  | some (maxPrev, artMax, cs) =>
    let r := (Cap.run maxPrev artMax cs).finish maxPrev
    let art := match r.artifact with
      | none => "_"
      | some (s, t) => s!"{hexEncode s}:{showBool t}"
    s!"{hexEncode r.preview} {r.total} {showBool r.truncated} {art}"

/-- `c17t <bytes> <max>` -/
def handleT (rest : String) : String :=
  match runP (do let b ← bytes; let m ← nat; pure (b, m)) rest with
  | none => "bad-case"
  | some (b, m) =>
    let (k, t) := truncateUtf8 b m
    s!"{hexEncode k} {showBool t}"

/-- `c17l <n> label*`: does the lifecycle automaton accept the recorded label sequence? -/
def handleL (rest : String) : String :=
  let pLabel : P Rip.TaskLTS.Label := do
    let t ← tok
    match t with
    | "spawned" => pure .spawned | "status:running" => pure .running | "delta" => pure .delta
    | "cancel_requested" => pure .cancelReq | "cancelled" => pure .cancelled
    | "status:exited" => pure .stExited | "status:cancelled" => pure .stCancelled
    | "status:failed" => pure .stFailed
    | _ => failure
  match runP (listOf pLabel) rest with
  | none => "bad-case"
  | some ls => if Rip.TaskLTS.lifecycleOK ls then "accept" else "reject"

end Rip.Driver.C17
