import Rip.Model.StoreLTS
import Rip.Model.Proto
namespace Rip.Driver.C01
open Rip.Proto Rip.StoreLTS

def pOp : P Op := do
  let t ← tok
  match t with
  | "a" => do let s ← nat; pure (.append s)
  | "c" => do let s ← nat; pure (.create s)
  | _ => failure

def pAct : P Act := do
  let t ← tok
  if t == "R" then pure .restart else
  match t.toNat? with
  | some i => pure (.step i)
  | none => failure

/-- `c01 <nwriters> (<nops> op*)* <k> act*` → the log as `stream:seq` list, validity, lock holder -/
def handle (rest : String) : String :=
  match runP (do let ps ← listOf (listOf pOp); let acts ← listOf pAct; pure (ps, acts)) rest with
  | none => "bad-case"
  | some (progs, acts) =>
    -- stream 0 is the default thread, which exists before the run
    let s := run true (fun σ => σ == 0) progs acts
    let log := String.intercalate "," (s.log.map (fun e => s!"{e.1}:{e.2}"))
    s!"log=[{log}] valid={showBool (validLog s.log)} done={showBool (s.ws.all (fun w => w.prog.isEmpty))}"

end Rip.Driver.C01
