import Rip.Model.Context
import Rip.Model.Proto
namespace Rip.Driver.C08
open Rip.Proto Rip.Context

def pFrame : P F := do
  let s ← nat; let i ← nat; let t ← tok
  match t with
  | "m" => do let c ← nat; pure ⟨s, i, .message c⟩
  | "r" => do let m ← nat; let x ← nat; pure ⟨s, i, .runEnded m x⟩
  | "k" => do let c ← nat; let ts ← nat; let cum ← bool; let a ← nat; pure ⟨s, i, .checkpoint c ts cum a⟩
  | "o" => pure ⟨s, i, .other⟩
  | _ => failure

def showItem : Item → String
  | .summaryRef a t => s!"s:{a}:{t}"
  | .user c s i => s!"u:{c}:{s}:{i}"
  | .assistant t => s!"a:{t}"

def showStrategy : Strategy → String
  | .recent => "recent" | .summaries => "summaries" | .hierarchical => "hierarchical"

def showCause : Cause → String
  | .noCheckpoint => "no_compaction_checkpoint" | .noSupportedCheckpoint => "no_supported_compaction_checkpoint"
  | .unsupportedKind => "unsupported_compaction_summary_kind" | .checkpoint => "compaction_checkpoint"
  | .checkpointHierarchy => "compaction_checkpoint_hierarchy"

def pPair : P (Nat × Nat) := do let a ← nat; let b ← nat; pure (a, b)

/-- `c08 <strictCut> <anchor> <n> frame* <k> (session text)*` -/
def handle (rest : String) : String :=
  match runP (do
      let st ← bool; let anchor ← nat; let fs ← listOf pFrame; let rp ← listOf pPair
      pure (st, anchor, fs, rp)) rest with
  | none => "bad-case"
  | some (st, anchor, fs, rp) =>
    let reply := fun s => ((rp.find? (fun p => p.1 == s)).map (·.2)).getD 0
    match compile st fs anchor reply with
    | none => "none"
    | some c =>
      s!"from={c.fromSeq} strat={showStrategy c.strategy} cause={showCause c.cause} reset={showBool c.reset} sel=[{",".intercalate (c.selected.map toString)}] items=[{",".intercalate (c.items.map showItem)}]"

end Rip.Driver.C08
