import Rip.Model.Secrets
import Rip.Model.Proto
namespace Rip.Driver.C19
open Rip.Proto Rip.Secrets

def pEp : P (Option Endpoint) := do
  let t ← tok
  if t = "_" then pure none else if t = "E" then do
    let i ← nat; let a ← bool; let b ← bool
    pure (some { id := i, openai := a, openrouter := b })
  else failure

def pKey : P (Option KeySrc) := do
  let t ← tok
  match t with
  | "_" => pure none
  | "I" => do let v ← nat; pure (some (.inline v))
  | "N" => do let n ← nat; pure (some (.env n))
  | _ => failure

def pRoute : P (Option (Nat × Nat)) := do
  let t ← tok
  if t = "_" then pure none else if t = "R" then do let p ← nat; let m ← nat; pure (some (p, m)) else failure

def pPair : P (Nat × Nat) := do let a ← nat; let b ← nat; pure (a, b)

def pProvider : P (Nat × PProvider) := do
  let pid ← nat; let ep ← pEp; let k ← pKey; let hs ← listOf pPair
  pure (pid, { endpoint := ep, apiKey := k, headers := hs })

def pLayer : P Layer := do
  let ps ← listOf pProvider; let pr ← pRoute; let m ← pRoute
  pure { providers := ps, primary := pr, model := m }

def pEnv : P Env := do
  let ep ← pEp; let m ← optNat; let rk ← optNat; let ok ← optNat; let ork ← optNat; let nm ← listOf pPair
  pure { endpoint := ep, model := m, ripKey := rk, openaiKey := ok, openrouterKey := ork, named := nm }

def showSrc : Option Source → String
  | none => "_" | some .inline => "inline" | some (.envNamed n) => s!"env:{n}" | some .envRip => "env:rip"
  | some .envOpenAI => "env:openai" | some .envOpenRouter => "env:openrouter"

/-- `c19 <n> layer* env <override ep> <override model>` (layers already in merge order, base first;
provider lists and header lists in each layer sorted by id — the harness writes JSON objects, whose
parsed key order is sorted) -/
def handle (rest : String) : String :=
  match runP (do
      let ls ← listOf pLayer; let env ← pEnv; let oe ← pEp; let om ← optNat
      pure (ls, env, ({ endpoint := oe, model := om } : Override))) rest with
  | none => "bad-case"
  | some (ls, env, ov) =>
    match resolve (mergeAll ls) env ov with
    | none => "none"
    | some r =>
      let d := doctor r
      let w := wire r
      s!"pid={showOptNat d.providerId} ep={d.endpoint} model={showOptNat d.model} has={showBool d.hasApiKey} src={showSrc d.source} hdrs=[{",".intercalate (d.headerNames.map toString)}] key={showOptNat w.1} wire=[{",".intercalate (w.2.map (fun h => s!"{h.1}:{h.2}"))}]"

end Rip.Driver.C19
