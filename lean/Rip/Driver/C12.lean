import Rip.Model.PatchParse
namespace Rip.Driver.C12
open Rip.Proto Rip.Patch

def pathOfBytes (b : Bytes) : Path := (splitSlash b).filter (fun s => !s.isEmpty)

def showPath (p : Path) : String := hexEncode (intercalate [47] p)

structure Case where
  dirs : List Path
  files : List (Path × Bytes)
  patch : Bytes

def pCase : P Case := do
  let ds ← listOf bytes
  let fs ← listOf (do let p ← bytes; let c ← bytes; pure (pathOfBytes p, c))
  let patch ← bytes
  pure { dirs := ds.map pathOfBytes, files := fs, patch := patch }

def mkFS (c : Case) : FS :=
  { file := fun q => (c.files.find? (fun e => e.1 = q)).map (·.2),
    dir := fun q => q = [] || c.dirs.contains q }

def opPaths : Op → List Path
  | .add p _ => [p.comps]
  | .delete p => [p.comps]
  | .update p m _ => p.comps :: (match m with | some t => [t.comps] | none => [])

def dedup (xs : List Path) : List Path := xs.foldl (fun acc x => if acc.contains x then acc else acc ++ [x]) []

def pathLt (a b : Path) : Bool := intercalate [47] a < intercalate [47] b

def sortPaths (xs : List Path) : List Path :=
  xs.foldr (fun x acc =>
    let rec ins (x : Path) : List Path → List Path
      | [] => [x]
      | y :: ys => if pathLt x y then x :: y :: ys else y :: ins x ys
    ins x acc) []

def showErr : Err → String
  | .parse w => "parse:" ++ w
  | .alreadyExists => "exists" | .notFound => "notfound" | .moveTargetExists => "move-target-exists"
  | .notUtf8 => "not-utf8" | .hunkMismatch => "hunk" | .io => "io"

def observe (c : Case) : String :=
  let fs0 := mkFS c
  match parsePatch c.patch with
  | .error e => "err " ++ showErr e ++ " | unchanged"
  | .ok ops =>
    let base := c.dirs ++ c.files.map (·.1) ++ (ops.map opPaths).flatten
    let univ := sortPaths (dedup ((base.map prefixes).flatten))
    let fileBelow : FS → Path → Bool := fun fs p =>
      univ.any (fun q => p.isPrefixOf q && q != p && (fs.file q).isSome)
    let (res, fs1) := applyPatchOps fileBelow fs0 ops
    let head := match res with
      | .ok changed => "ok " ++ toString changed.length ++ " " ++ String.intercalate " " (changed.map hexEncode)
      | .error e => "err " ++ showErr e
    let files := univ.filterMap (fun q => (fs1.file q).map (fun b => showPath q ++ " " ++ hexEncode b))
    let dirs := (univ.filter (fun q => q != [] && fs1.dir q)).map showPath
    head ++ " | " ++ toString files.length ++ " " ++ String.intercalate " " files
      ++ " | " ++ toString dirs.length ++ " " ++ String.intercalate " " dirs

def handle (rest : String) : String :=
  match runP pCase rest with
  | some c => observe c
  | none => "bad-case"

end Rip.Driver.C12
