import Rip.Model.Paths
namespace Rip.Driver.C13
open Rip.Proto Rip.Patch Rip.Paths

def showComp : Component → String
  | .rootDir => "root"
  | .curDir => "cur"
  | .parentDir => "parent"
  | .normal c => "n:" ++ hexEncode c

def showRefusal : Refusal → String
  | .absolute => "absolute" | .parent => "parent" | .outside => "outside"

/-- `c13 <rootRaw> <raw>` -/
def handle (rest : String) : String :=
  match runP (do let r ← bytes; let x ← bytes; pure (r, x)) rest with
  | none => "bad-case"
  | some (rootRaw, raw) =>
    let cs := components raw
    let r := match resolve raw with
      | .ok _ => "ok"
      | .error e => showRefusal e
    let t := match toRelative rootRaw raw with
      | .ok rel => "ok " ++ toString rel.length ++ (rel.foldl (fun acc c => acc ++ " " ++ showComp c) "")
      | .error e => showRefusal e
    s!"A {showBool (isAbsolute raw)} | C {cs.length}" ++ (cs.foldl (fun acc c => acc ++ " " ++ showComp c) "")
      ++ s!" | R {r} | T {t}"

end Rip.Driver.C13
