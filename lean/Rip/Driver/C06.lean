import Rip.Model.Join
import Rip.Model.Proto
import Rip.Gen.EffectOrder
namespace Rip.Driver.C06
open Rip.Proto Rip.Join

/-- the join-relevant shape of a generated effect order; `viaLog` = history is replayed from the
store (thread streams: `replay_events` answers from the per-thread sidecar whenever it is valid, so a
frame is in the history once the CACHE append has happened — the later of log and cache), otherwise
from the recorded-frames buffer (sessions, tasks) -/
def shapeOf (viaLog : Bool) (o : List Rip.Gen.Eff) : List Micro :=
  o.filterMap (fun e => match e with
    | .publish => some .pub
    | .record => if viaLog then none else some .record
    | .cacheAppend => if viaLog then some .record else none
    | .lock 1 => if viaLog then none else some .lock
    | .unlock 1 => if viaLog then none else some .unlock
    | _ => none)

def microsOfPoint (p : String) : List Micro :=
  match p with
  | "emit.publish" => [.pub]
  | "emit.lock" => [.lock]
  | "emit.record" => [.record, .unlock]
  | "store.cache_append" => [.record]
  | "store.publish" => [.pub]
  | _ => []

def showMicro : Micro → String
  | .lock => "lock" | .unlock => "unlock" | .pub => "pub" | .record => "record"

/-- `c06 <genId> <viaLog> <n> <k> act*` with act = `s` | `p:<point name>` -/
def handle (rest : String) : String :=
  match runP (do let g ← nat; let v ← bool; let n ← nat; let acts ← listOf tok; pure (g, v, n, acts)) rest with
  | none => "bad-case"
  | some (g, viaLog, n, acts) =>
    let prog := shapeOf viaLog (Rip.Gen.orderOf g)
    let (s, mismatch) := acts.foldl (fun (acc : S × Bool) a =>
      if a == "s" then (step prog n acc.1 .subscriber, acc.2)
      else
        let ms := microsOfPoint ((a.drop 2).toString)
        ms.foldl (fun (acc2 : S × Bool) m =>
          let ok := acc2.1.frame < n && prog[acc2.1.pos]? == some m
          (step prog n acc2.1 .producer, acc2.2 || !ok)) acc) (init, false)
    let out := String.intercalate "," ((output s).map toString)
    s!"complete={showBool (complete n s)} out=[{out}] trace_matches_generated_order={showBool (!mismatch)} shape=" ++
      String.intercalate "," (prog.map showMicro) ++ s!" safe={showBool (safeShapes.contains prog)}"

end Rip.Driver.C06
