import Rip.Model.Frames
namespace Rip.Driver.C20
open Rip.Proto Rip.Frames

def pStatus : P TaskStatus := do
  let t ← tok
  match t with
  | "queued" => pure .queued
  | "running" => pure .running
  | "exited" => pure .exited
  | "cancelled" => pure .cancelled
  | "failed" => pure .failed
  | _ => failure

def pStream : P TStream := do
  let t ← tok
  match t with
  | "stdout" => pure .stdout
  | "stderr" => pure .stderr
  | "pty" => pure .pty
  | _ => failure

def pInt : P Int := do
  let t ← tok
  match t.toInt? with
  | some n => pure n
  | none => failure

def pKind : P Kind := do
  let t ← tok
  match t with
  | "session_started" => do let i ← bytes; let b ← bool; pure (.sessionStarted i b)
  | "output_text_delta" => do let d ← bytes; pure (.outputTextDelta d)
  | "session_ended" => pure .sessionEnded
  | "tool_started" => do let i ← bytes; pure (.toolStarted i)
  | "tool_stdout" => do let i ← bytes; let c ← bytes; pure (.toolStdout i c)
  | "tool_stderr" => do let i ← bytes; let c ← bytes; pure (.toolStderr i c)
  | "tool_ended" => do let i ← bytes; let e ← pInt; pure (.toolEnded i e)
  | "tool_failed" => do let i ← bytes; pure (.toolFailed i)
  | "task_spawned" => do let i ← bytes; pure (.taskSpawned i)
  | "task_status" => do let i ← bytes; let s ← pStatus; pure (.taskStatus i s)
  | "task_delta" => do let i ← bytes; let s ← pStream; let c ← bytes; pure (.taskDelta i s c)
  | "provider_event" => do let a ← bool; let b ← bool; pure (.providerEvent a b)
  | "checkpoint_failed" => pure .checkpointFailed
  | "req_started" => pure .reqStarted
  | "resp_headers" => pure .respHeaders
  | "resp_first_byte" => pure .respFirstByte
  | "other" => pure .other
  | _ => failure

def pFrames : Nat → Nat → P (List Frame)
  | 0, _ => pure []
  | n + 1, tag => do
    let seq ← nat
    let ts ← nat
    let sess ← bytes
    let k ← pKind
    let rest ← pFrames n (tag + 1)
    pure ({ seq := seq, ts := ts, session := sess, tag := tag, kind := k } :: rest)

structure Case where
  maxFrames : Nat
  maxOut : Nat
  maxPrev : Nat
  frames : List Frame
  probes : List Nat

def pCase : P Case := do
  let a ← nat; let b ← nat; let c ← nat
  let n ← nat
  let fs ← pFrames n 0
  let ps ← listOf nat
  pure { maxFrames := a, maxOut := b, maxPrev := c, frames := fs, probes := ps }

def showToolStatus : ToolStatus → String
  | .running => "running"
  | .ended e => s!"ended:{e}"
  | .failed => "failed"

def showTaskStatus : TaskStatus → String
  | .queued => "queued" | .running => "running" | .exited => "exited"
  | .cancelled => "cancelled" | .failed => "failed"

def lt (a b : Bytes) : Bool := a < b

def insertSorted (key : α → Bytes) (x : α) : List α → List α
  | [] => [x]
  | y :: ys => if key x < key y then x :: y :: ys else y :: insertSorted key x ys

def sortBy (key : α → Bytes) (xs : List α) : List α := xs.foldr (insertSorted key) []

def observe (c : Case) : String :=
  let t := (Tui.new c.maxFrames c.maxOut c.maxPrev).run c.frames
  let fs := t.frames
  let head := String.intercalate " " [
    toString fs.frames.length,
    showOptNat (fs.frames.head?.map (·.seq)),
    showOptNat (fs.frames.getLast?.map (·.seq)),
    showOptNat t.selected,
    showOptBytes t.session,
    showOptNat t.startMs, showOptNat t.firstOutMs, showOptNat t.endMs,
    showOptNat t.reqMs, showOptNat t.hdrMs, showOptNat t.fbMs, showOptNat t.fpeMs,
    hexEncode t.output, showBool t.truncated,
    showOptNat t.lastErr, showOptNat t.lastMs]
  let tools := (sortBy (·.id) t.tools).map (fun x =>
    String.intercalate " " [hexEncode x.id, toString x.startedSeq, showToolStatus x.status, hexEncode x.out, hexEncode x.err])
  let tasks := (sortBy (·.id) t.tasks).map (fun (x : Task) =>
    String.intercalate " " [hexEncode x.id, showTaskStatus x.status, hexEncode x.out, hexEncode x.err, hexEncode x.pty])
  let look := c.probes.map (fun q =>
    match fs.getBySeq q with
    | none => "_"
    | some f => toString f.tag)
  head ++ " | " ++ toString tools.length ++ " " ++ String.intercalate " " tools
    ++ " | " ++ toString tasks.length ++ " " ++ String.intercalate " " tasks
    ++ " | " ++ String.intercalate " " look

def handle (rest : String) : String :=
  match runP pCase rest with
  | some c => observe c
  | none => "bad-case"

end Rip.Driver.C20
