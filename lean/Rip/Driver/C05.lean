import Rip.Model.Crash
import Rip.Model.Proto
namespace Rip.Driver.C05
open Rip.Proto Rip.Crash

def pFrame : P Frame := do let b ← bool; let m ← bool; pure { big := b, mr := m }

def showLog (l : List (Option Nat)) : String :=
  ",".intercalate (l.map (fun x => match x with | some n => toString n | none => "x"))

def showDisk (d : Disk) : String :=
  s!"log=[{showLog d.log}] dangling={showOptNat d.dangling} side=[{",".intercalate (d.side.map toString)}] mr=[{",".intercalate (d.mr.map toString)}]"

/-- `c05 <fixE> <fixF> <n> hist* <f> <k> <stage> <m> more*`
stage 0: the disk as the crash leaves it; 1: after reopening the log; 2: after the further appends -/
def handle (rest : String) : String :=
  match runP (do
      let e ← bool; let f ← bool; let hist ← listOf pFrame; let fr ← pFrame; let k ← nat; let st ← nat; let more ← listOf pFrame
      pure (e, f, hist, fr, k, st, more)) rest with
  | none => "bad-case"
  | some (e, f, hist, fr, k, st, more) =>
    let crashed := partialAppend fr hist.length k (appendAll hist 0 empty)
    match st with
    | 0 => showDisk crashed
    | 1 => showDisk (reopen f crashed)
    | _ => showDisk (story e f hist fr k more)

end Rip.Driver.C05
