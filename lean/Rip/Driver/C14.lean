import Rip.Model.Checkpoint
import Rip.Driver.C12
namespace Rip.Driver.C14
open Rip.Proto Rip.Patch Rip.Paths Rip.Checkpoint Rip.Driver.C12

inductive Cmd
  | ck (raws : List Bytes)
  | rw (k : Nat)
  | set (p : Path) (b : Bytes)
  | rm (p : Path)
  | mkdir (p : Path)

def pCmd : P Cmd := do
  let t ← tok
  match t with
  | "ck" => do let rs ← listOf bytes; pure (.ck rs)
  | "rw" => do let k ← nat; pure (.rw k)
  | "set" => do let p ← bytes; let b ← bytes; pure (.set (pathOfBytes p) b)
  | "rm" => do let p ← bytes; pure (.rm (pathOfBytes p))
  | "mkdir" => do let p ← bytes; pure (.mkdir (pathOfBytes p))
  | _ => failure

structure Case where
  rootRaw : Bytes
  dirs : List Path
  files : List (Path × Bytes)
  cmds : List Cmd

def pCase : P Case := do
  let r ← bytes
  let ds ← listOf bytes
  let fs ← listOf (do let p ← bytes; let c ← bytes; pure (pathOfBytes p, c))
  let cs ← listOf pCmd
  pure { rootRaw := r, dirs := ds.map pathOfBytes, files := fs, cmds := cs }

def strictPrefix (p q : Path) : Bool := p.isPrefixOf q && p != q

/-- harness edits (performed with plain std::fs calls on the real side), "force" semantics -/
def forceClear (fs : FS) (p : Path) : FS :=
  { file := fun q => if p.isPrefixOf q || strictPrefix q p then none else fs.file q,
    dir := fun q => if p.isPrefixOf q then false else fs.dir q }

def forceDirs (fs : FS) (p : Path) : FS :=
  { fs with dir := fun q => fs.dir q || (prefixes p).contains q }

def forceSet (fs : FS) (p : Path) (b : Bytes) : FS :=
  let f := forceDirs (forceClear fs p) p.dropLast
  f.setFile p (some b)

def forceMkdir (fs : FS) (p : Path) : FS := forceDirs (forceClear fs p) p

structure St where
  fs : FS
  ckpts : List Ckpt
  out : List String

def showCErr : CErr → String
  | .refused .absolute => "absolute" | .refused .parent => "parent" | .refused .outside => "outside"
  | .io => "io"

def step (rootRaw : Bytes) (s : St) : Cmd → St
  | .ck raws =>
    match create rootRaw s.fs raws with
    | .error e => { s with out := s.out ++ ["ck err " ++ showCErr e] }
    | .ok ck =>
      let desc := ck.map (fun e => showPath e.path ++ (if e.mustDir then "/" else "") ++ ":" ++ (if e.content.isSome then "1" else "0"))
      { s with ckpts := s.ckpts ++ [ck], out := s.out ++ ["ck ok " ++ String.intercalate "," desc] }
  | .rw k =>
    match s.ckpts[k]? with
    | none => { s with out := s.out ++ ["rw missing"] }
    | some ck =>
      let (ok, fs1) := rewind s.fs ck
      { s with fs := fs1, out := s.out ++ [if ok then "rw ok" else "rw err"] }
  | .set p b => { s with fs := forceSet s.fs p b }
  | .rm p => { s with fs := forceClear s.fs p }
  | .mkdir p => { s with fs := forceMkdir s.fs p }

def cmdPaths (rootRaw : Bytes) : Cmd → List Path
  | .ck raws => raws.filterMap (fun r => match toRelative rootRaw r with | .ok rel => some (normals rel) | .error _ => none)
  | .rw _ => []
  | .set p _ => [p]
  | .rm p => [p]
  | .mkdir p => [p]

def observe (c : Case) : String :=
  let fs0 := mkFS { dirs := c.dirs, files := c.files, patch := [] }
  let s := c.cmds.foldl (step c.rootRaw) { fs := fs0, ckpts := [], out := [] }
  let base := c.dirs ++ c.files.map (·.1) ++ (c.cmds.map (cmdPaths c.rootRaw)).flatten
  let univ := sortPaths (dedup ((base.map prefixes).flatten))
  let files := univ.filterMap (fun q => (s.fs.file q).map (fun b => showPath q ++ " " ++ hexEncode b))
  let dirs := (univ.filter (fun q => q != [] && s.fs.dir q)).map showPath
  String.intercalate " ; " s.out ++ " | " ++ toString files.length ++ " " ++ String.intercalate " " files
    ++ " | " ++ toString dirs.length ++ " " ++ String.intercalate " " dirs

def handle (rest : String) : String :=
  match runP pCase rest with
  | some c => observe c
  | none => "bad-case"

end Rip.Driver.C14
