import Rip.Model.Wire
import Rip.Model.Proto
import Rip.Gen.EventSchema
namespace Rip.Driver.C03
open Rip.Proto Rip.Wire

def convField (f : Rip.Gen.Schema.Field) : Field :=
  { name := f.name, aliases := f.aliases, option := f.option, vec := f.vec, skipNone := f.skipNone,
    skipEmpty := f.skipEmpty, default := f.default }

def convStream : Rip.Gen.Schema.Stream → Nat
  | .session => 0 | .task => 1 | .continuity => 2 | .artifact => 3

def genSchema : Schema :=
  { envelope := Rip.Gen.Schema.envelope, readEnvelope := Rip.Gen.Schema.readEnvelope,
    tagField := Rip.Gen.Schema.tagField,
    variants := Rip.Gen.Schema.variants.map (fun v =>
      { tag := v.tag, aliases := v.aliases, fields := v.fields.map convField, stream := convStream v.stream }) }

/-- values are JSON texts -/
def env : Env String :=
  { null := "null", emptyArr := "[]", dflt := "\"\"", tagV := fun i => "#tag:" ++ toString i }

def streamText : Nat → String
  | 0 => "\"session\"" | 1 => "\"task\"" | 2 => "\"continuity\"" | _ => "\"artifact\""

/-- EventWire: id, session_id, stream_kind (from the kind), stream_id (= session_id), timestamp_ms, seq -/
def derive (stream : Nat) (ev : List String) : List String :=
  match ev with
  | [id, sid, ts, seq] => [id, sid, streamText stream, sid, ts, seq]
  | other => other

def bytesToString (b : Bytes) : String := String.fromUTF8! (ByteArray.mk b.toArray)

/-- `c03 <n> (<keyId> <valueHex>)*` → decode then encode -/
def handle (rest : String) : String :=
  match runP (listOf (do let k ← nat; let v ← bytes; pure (k, bytesToString v))) rest with
  | none => "bad-case"
  | some obj =>
    match decode env genSchema derive obj with
    | none => "reject"
    | some f =>
      match encode env genSchema f with
      | none => "reject"
      | some o =>
        let pairs := o.map (fun (k, v) => s!"{k} {hexEncode v.toUTF8.toList}")
        s!"ok variant={f.variant} stream={(genSchema.variants[f.variant]?.map (·.stream)).getD 9} {o.length} " ++ String.intercalate " " pairs

end Rip.Driver.C03
