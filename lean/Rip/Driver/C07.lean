import Rip.Model.RunLife
import Rip.Model.Proto
namespace Rip.Driver.C07
open Rip.Proto Rip.RunLife

def pTool : P Tool := do
  let l ← bool; let b ← bool; let n ← nat
  pure { needsLock := l, barred := b, frames := n }

def pTurn : P Turn := do
  let p ← nat; let ts ← listOf pTool
  pure { providerFrames := p, tools := ts }

def pInput : P Input := do
  let t ← tok
  match t with
  | "p" => pure .prompt
  | "t" => do let x ← pTool; pure (.tool x)
  | "c" => do let n ← nat; pure (.checkpoint n)
  | _ => failure

def showFr : Fr → String
  | .thread .message => "M" | .thread .runSpawned => "R" | .thread .selDecided => "S"
  | .thread .compiled => "C" | .thread .sideFx => "X" | .thread .cursor => "U" | .thread .runEnded => "E"
  | .session .started => "s" | .session .output => "o" | .session .provider => "p"
  | .session .tool => "t" | .session .ended => "e"

/-- `c07 <input> <linked> <provider> <compileOk> <completed> <hasCursor> <n> turn*` → the run's frames in order -/
def handle (rest : String) : String :=
  match runP (do
      let i ← pInput; let l ← bool; let p ← bool; let c ← bool; let d ← bool; let h ← bool
      let ts ← listOf pTurn
      pure ({ input := i, linked := l, provider := p, compileOk := c, turns := ts, completed := d, hasCursor := h } : Run)) rest with
  | none => "bad-case"
  | some r => " ".intercalate ((trace r).map showFr) ++ (if r.linked then s!" ok={lifecycleOk (threadOf (trace r))}" else "")

end Rip.Driver.C07
