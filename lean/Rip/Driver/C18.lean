import Rip.Model.AuthLTS
import Rip.Model.Proto
namespace Rip.Driver.C18
open Rip.Proto Rip.AuthLTS

def pAct : P Act := do
  let t ← tok
  match t.toList with
  | 's' :: r => match (String.ofList r).toNat? with | some i => pure (.step i) | none => failure
  | 'c' :: r => match (String.ofList r).toNat? with | some i => pure (.crash i) | none => failure
  | 'r' :: r => match (String.ofList r).toNat? with | some i => pure (.release i) | none => failure
  | _ => failure

def showPc : Pc → String
  | .acquire => "auth.acquire.create" | .writeRec => "auth.acquire.write" | .holding => "h.holding"
  | .inspect => "h.inspect" | .staleReread _ => "auth.stale.reread" | .staleRename _ => "auth.stale.rename"
  | .staleMeta _ => "auth.stale.meta" | .corruptCheck => "auth.corrupt.check" | .corruptRename => "auth.corrupt.rename"
  | .dropMeta => "auth.drop.meta" | .dropLock => "auth.drop.lock" | .gaveUp => "finished" | .done => "finished"
  | .dead => "dead"

def showState (s : S) : String :=
  let lock := match s.lock with
    | none => "none"
    | some f => match f.record with
      | none => "invalid"
      | some 0 => "dead"
      | some _ => "live"
  let m := match s.metaPid with | none => "none" | some 0 => "dead" | some _ => "live"
  s!"lock={lock} meta={m} holders={holders s} at=" ++ String.intercalate "," (s.pcs.map showPc)

/-- `c18 <atomic> <init> <n> <k> act*` → the state after every act, `;`-separated -/
def handle (rest : String) : String :=
  match runP (do let a ← bool; let i ← tok; let n ← nat; let acts ← listOf pAct; pure (a, i, n, acts)) rest with
  | none => "bad-case"
  | some (atomic, i, n, acts) =>
    let s0 := match i with
      | "none" => initNone n
      | "stale" => initStale n false
      | "stalemeta" => initStale n true
      | _ => initHalfWritten n
    let (_, outs) := acts.foldl (fun (acc : S × List String) a =>
      let s := act atomic acc.1 a
      (s, acc.2 ++ [showState s])) (s0, [showState s0])
    String.intercalate " ; " outs

end Rip.Driver.C18
