import Rip.Model.AuthLTS

/-!
C18 theorems about the lock-file protocol LTS (`Rip.Model.AuthLTS`).

* `mutex_atomic`, `never_steals_atomic`: if "re-read the lock, then rename it" were one step, there is
  never more than one authority and a live authority's lock is never taken (under every schedule).
* `recovers`: from every leftover state a lone contender becomes the authority (both protocols).
* `cleanup_only_dead`: a cleanup step of the atomic protocol only removes files of dead processes.
-/
namespace Rip.AuthLTS

/-! ### basic facts: `alive`, `List.set` -/

/-- a process that is not coming back: crashed or released -/
def gone : Pc → Bool
  | .dead => true
  | .done => true
  | _ => false

/-- pcs reachable only in the non-atomic protocol -/
def isRename : Pc → Bool
  | .staleRename _ => true
  | .corruptRename => true
  | _ => false

theorem alive_zero (s : S) : alive s 0 = false := rfl

theorem alive_succ_true (s : S) (k : Nat) :
    alive s (k + 1) = true ↔ ∃ pc, s.pcs[k]? = some pc ∧ gone pc = false := by
  unfold alive
  cases h : s.pcs[k]? with
  | none => simp [h]
  | some pc => cases pc <;> simp [h, gone]

theorem alive_pidOf {s : S} {j : Nat} {pc : Pc} (h : s.pcs[j]? = some pc) (hg : gone pc = false) :
    alive s (pidOf j) = true :=
  (alive_succ_true s j).2 ⟨pc, h, hg⟩

theorem get_set {l : List Pc} {i : Nat} {old : Pc} (h : l[i]? = some old) (pc' : Pc) (j : Nat) :
    (l.set i pc')[j]? = if j = i then some pc' else l[j]? := by
  have hlt : i < l.length := by
    rcases Nat.lt_or_ge i l.length with h' | h'
    · exact h'
    · rw [List.getElem?_eq_none h'] at h; cases h
  by_cases hji : j = i
  · subst hji; simp [hlt]
  · have : i ≠ j := fun e => hji e.symm
    simp [List.getElem?_set_ne this, hji]

/-- replacing a pc by one that is "at most as alive" never makes a pid alive again -/
theorem alive_update_false {s : S} {i : Nat} {old : Pc} (hi : s.pcs[i]? = some old)
    (L' : Option LockFile) (M' : Option Pid) (pc' : Pc)
    (hgone : gone old = true → gone pc' = true) (p : Pid) (hp : alive s p = false) :
    alive (⟨L', M', s.pcs.set i pc'⟩ : S) p = false := by
  cases p with
  | zero => rfl
  | succ k =>
    cases h : alive (⟨L', M', s.pcs.set i pc'⟩ : S) (k + 1) with
    | false => rfl
    | true =>
      exfalso
      obtain ⟨pc, hk, hg⟩ := (alive_succ_true _ k).1 h
      have hk' : (s.pcs.set i pc')[k]? = some pc := hk
      rw [get_set hi] at hk'
      have : alive s (k + 1) = true := by
        rw [alive_succ_true]
        by_cases hki : k = i
        · subst hki
          simp at hk'
          subst hk'
          refine ⟨old, hi, ?_⟩
          cases ho : gone old with
          | false => rfl
          | true => rw [hgone ho] at hg; cases hg
        · simp [hki] at hk'
          exact ⟨pc, hk', hg⟩
      rw [hp] at this; cases this

/-! ### the invariant of the atomic protocol -/

/-- the lock file that contender `i` at `pc` relies on, if any -/
def lockReq (i : Nat) : Pc → Option LockFile
  | .writeRec => some { owner := pidOf i, record := none }
  | .holding => some { owner := pidOf i, record := some (pidOf i) }
  | .dropMeta => some { owner := pidOf i, record := some (pidOf i) }
  | .dropLock => some { owner := pidOf i, record := some (pidOf i) }
  | _ => none

theorem lockReq_owner {j : Nat} {pc : Pc} {f : LockFile} (h : lockReq j pc = some f) :
    f.owner = pidOf j := by
  cases pc <;> simp [lockReq] at h <;> subst h <;> rfl

theorem lockReq_live {s : S} {j : Nat} {pc : Pc} {f : LockFile} (hj : s.pcs[j]? = some pc)
    (h : lockReq j pc = some f) :
    alive s f.owner = true ∧ (f.record = none ∨ f.record = some f.owner) := by
  cases pc <;> simp [lockReq] at h <;> subst h
  · exact ⟨alive_pidOf hj rfl, Or.inl rfl⟩
  · exact ⟨alive_pidOf hj rfl, Or.inr rfl⟩
  · exact ⟨alive_pidOf hj rfl, Or.inr rfl⟩
  · exact ⟨alive_pidOf hj rfl, Or.inr rfl⟩

structure LInv (s : S) : Prop where
  /-- whoever is writing its record / holding / dropping owns the lock file that is at the path -/
  own : ∀ (i : Nat) (pc : Pc) (f : LockFile), s.pcs[i]? = some pc → lockReq i pc = some f → s.lock = some f
  /-- the pid a stale-cleanup expects was observed dead -/
  stale : ∀ (i : Nat) (e : Pid), s.pcs[i]? = some (Pc.staleReread e) → alive s e = false
  /-- the separate rename steps are not used -/
  noRename : ∀ (i : Nat) (pc : Pc), s.pcs[i]? = some pc → isRename pc = false

theorem LInv.unique {s : S} (hinv : LInv s) {i j : Nat} {pc pc2 : Pc} {f f2 : LockFile}
    (hi : s.pcs[i]? = some pc) (ri : lockReq i pc = some f)
    (hj : s.pcs[j]? = some pc2) (rj : lockReq j pc2 = some f2) : i = j := by
  have h1 := hinv.own i pc f hi ri
  have h2 := hinv.own j pc2 f2 hj rj
  rw [h1] at h2
  have hf : f = f2 := Option.some.inj h2
  have o1 := lockReq_owner ri
  have o2 := lockReq_owner rj
  rw [hf, o2] at o1
  have o3 : j + 1 = i + 1 := o1
  omega

/-- the lock file of a dead process is nobody's -/
theorem LInv.dead_lock_unowned {s : S} (hinv : LInv s) {f : LockFile} (hl : s.lock = some f)
    (hdead : (∃ e, f.record = some e ∧ alive s e = false) ∨ (f.record = none ∧ alive s f.owner = false))
    (j : Nat) (pc : Pc) (f2 : LockFile) (hj : s.pcs[j]? = some pc) (rj : lockReq j pc = some f2) :
    False := by
  have h2 := hinv.own j pc f2 hj rj
  rw [hl] at h2
  have hf : f = f2 := Option.some.inj h2
  subst hf
  obtain ⟨hal, hrec⟩ := lockReq_live hj rj
  rcases hdead with ⟨e, he, hde⟩ | ⟨_, hdo⟩
  · rcases hrec with hr | hr
    · rw [hr] at he; cases he
    · rw [hr] at he
      have : f.owner = e := Option.some.inj he
      rw [this, hde] at hal; cases hal
  · rw [hdo] at hal; cases hal

theorem LInv.update {s : S} (hinv : LInv s) {i : Nat} {old : Pc} (hi : s.pcs[i]? = some old)
    (L' : Option LockFile) (M' : Option Pid) (pc' : Pc)
    (hothers : ∀ j pc f, j ≠ i → s.pcs[j]? = some pc → lockReq j pc = some f → L' = some f)
    (hself : ∀ f, lockReq i pc' = some f → L' = some f)
    (hstale : ∀ e, pc' = .staleReread e → alive s e = false)
    (hren : isRename pc' = false)
    (hgone : gone old = true → gone pc' = true) :
    LInv (⟨L', M', s.pcs.set i pc'⟩ : S) := by
  refine ⟨?_, ?_, ?_⟩
  · intro j pc f hj hr
    have hj' : (s.pcs.set i pc')[j]? = some pc := hj
    rw [get_set hi] at hj'
    by_cases hji : j = i
    · subst hji
      simp at hj'
      subst hj'
      exact hself f hr
    · simp [hji] at hj'
      exact hothers j pc f hji hj' hr
  · intro j e hj
    have hj' : (s.pcs.set i pc')[j]? = some (.staleReread e) := hj
    rw [get_set hi] at hj'
    apply alive_update_false hi L' M' pc' hgone
    by_cases hji : j = i
    · subst hji
      simp at hj'
      exact hstale e hj'
    · simp [hji] at hj'
      exact hinv.stale j e hj'
  · intro j pc hj
    have hj' : (s.pcs.set i pc')[j]? = some pc := hj
    rw [get_set hi] at hj'
    by_cases hji : j = i
    · subst hji
      simp at hj'
      subst hj'
      exact hren
    · simp [hji] at hj'
      exact hinv.noRename j pc hj'

/-- a step that leaves lock.json alone -/
theorem LInv.move {s : S} (hinv : LInv s) {i : Nat} {old : Pc} (hi : s.pcs[i]? = some old)
    (M' : Option Pid) (pc' : Pc)
    (hself : ∀ f, lockReq i pc' = some f → s.lock = some f)
    (hstale : ∀ e, pc' = .staleReread e → alive s e = false)
    (hren : isRename pc' = false)
    (hgone : gone old = true → gone pc' = true) :
    LInv (⟨s.lock, M', s.pcs.set i pc'⟩ : S) :=
  hinv.update hi s.lock M' pc' (fun j pc f _ hj hr => hinv.own j pc f hj hr) hself hstale hren hgone

/-- a step that removes a lock file of a dead process -/
theorem LInv.remove_dead {s : S} (hinv : LInv s) {i : Nat} {old : Pc} (hi : s.pcs[i]? = some old)
    {f : LockFile} (hl : s.lock = some f)
    (hdead : (∃ e, f.record = some e ∧ alive s e = false) ∨ (f.record = none ∧ alive s f.owner = false))
    (M' : Option Pid) (pc' : Pc)
    (hself : lockReq i pc' = none)
    (hstale : ∀ e, pc' = .staleReread e → alive s e = false)
    (hren : isRename pc' = false)
    (hgone : gone old = true → gone pc' = true) :
    LInv (⟨none, M', s.pcs.set i pc'⟩ : S) :=
  hinv.update hi none M' pc'
    (fun j pc f2 _ hj hr => (hinv.dead_lock_unowned hl hdead j pc f2 hj hr).elim)
    (fun f hf => by rw [hself] at hf; cases hf) hstale hren hgone

/-! ### preservation -/

theorem LInv.stepProc {s : S} (hinv : LInv s) {i : Nat} {pc : Pc} (hi : s.pcs[i]? = some pc) :
    LInv (stepProc true s i pc) := by
  cases pc with
  | acquire =>
    simp only [Rip.AuthLTS.stepProc, setPc]
    split
    next hl =>
      refine hinv.update hi _ s.metaPid .writeRec ?_ ?_ ?_ rfl ?_
      · intro j pc f _ hj hr
        have := hinv.own j pc f hj hr
        rw [hl] at this; cases this
      · intro f hf
        simp [lockReq] at hf
        subst hf; rfl
      · intro e h; cases h
      · intro h; cases h
    next f0 hl =>
      exact hinv.move hi s.metaPid .inspect (by intro f hf; cases hf) (by intro e h; cases h) rfl
        (by intro h; cases h)
  | writeRec =>
    have hl := hinv.own i _ _ hi rfl
    simp only [Rip.AuthLTS.stepProc, setPc, hl, if_true]
    refine hinv.update hi _ s.metaPid .holding ?_ ?_ ?_ rfl ?_
    · intro j pc f hji hj hr
      exact (hji (hinv.unique hj hr hi rfl)).elim
    · intro f hf
      simp [lockReq] at hf
      subst hf; rfl
    · intro e h; cases h
    · intro h; cases h
  | holding => exact hinv
  | inspect =>
    simp only [Rip.AuthLTS.stepProc, setPc]
    split
    next hl =>
      exact hinv.move hi s.metaPid .acquire (by intro f hf; cases hf) (by intro e h; cases h) rfl
        (by intro h; cases h)
    next f hl =>
      split
      next p hp =>
        split
        next ha =>
          exact hinv.move hi s.metaPid .gaveUp (by intro f hf; cases hf) (by intro e h; cases h) rfl
            (by intro h; cases h)
        next ha =>
          refine hinv.move hi s.metaPid (.staleReread p) (by intro f hf; cases hf) ?_ rfl
            (by intro h; cases h)
          intro e h
          cases h
          simpa using ha
      next hp =>
        split
        next ha =>
          exact hinv.move hi s.metaPid .inspect (by intro f hf; cases hf) (by intro e h; cases h) rfl
            (by intro h; cases h)
        next ha =>
          exact hinv.move hi s.metaPid .corruptCheck (by intro f hf; cases hf) (by intro e h; cases h) rfl
            (by intro h; cases h)
  | staleReread e =>
    simp only [Rip.AuthLTS.stepProc, setPc, if_true]
    split
    next f hl =>
      split
      next hr =>
        exact hinv.remove_dead hi hl (Or.inl ⟨e, hr, hinv.stale i e hi⟩) s.metaPid (.staleMeta e) rfl
          (by intro e h; cases h) rfl (by intro h; cases h)
      next hr =>
        exact hinv.move hi s.metaPid .acquire (by intro f hf; cases hf) (by intro e h; cases h) rfl
          (by intro h; cases h)
    next hl =>
      exact hinv.move hi s.metaPid .acquire (by intro f hf; cases hf) (by intro e h; cases h) rfl
        (by intro h; cases h)
  | staleRename e => exact absurd (hinv.noRename i _ hi) (by simp [isRename])
  | staleMeta e =>
    simp only [Rip.AuthLTS.stepProc, setPc]
    exact hinv.move hi _ .acquire (by intro f hf; cases hf) (by intro e h; cases h) rfl
      (by intro h; cases h)
  | corruptCheck =>
    simp only [Rip.AuthLTS.stepProc, setPc, if_true]
    split
    next f hl hm =>
      split
      next hc =>
        simp only [Bool.and_eq_true, decide_eq_true_eq, Bool.not_eq_true'] at hc
        exact hinv.remove_dead hi hl (Or.inr hc) s.metaPid .acquire rfl
          (by intro e h; cases h) rfl (by intro h; cases h)
      next hc =>
        exact hinv.move hi s.metaPid .acquire (by intro f hf; cases hf) (by intro e h; cases h) rfl
          (by intro h; cases h)
    next =>
      exact hinv.move hi s.metaPid .acquire (by intro f hf; cases hf) (by intro e h; cases h) rfl
        (by intro h; cases h)
  | corruptRename => exact absurd (hinv.noRename i _ hi) (by simp [isRename])
  | dropMeta =>
    simp only [Rip.AuthLTS.stepProc, setPc]
    refine hinv.move hi none .dropLock ?_ (by intro e h; cases h) rfl (by intro h; cases h)
    intro f hf
    exact hinv.own i _ f hi hf
  | dropLock =>
    simp only [Rip.AuthLTS.stepProc, setPc]
    refine hinv.update hi none s.metaPid .done ?_ (by intro f hf; cases hf) (by intro e h; cases h) rfl
      (by intro h; cases h)
    intro j pc f hji hj hr
    exact (hji (hinv.unique hj hr hi rfl)).elim
  | gaveUp => exact hinv
  | done => exact hinv
  | dead => exact hinv

theorem LInv.act {s : S} (hinv : LInv s) (a : Act) : LInv (act true s a) := by
  cases a with
  | step i =>
    simp only [Rip.AuthLTS.act]
    split
    next pc hi => exact hinv.stepProc hi
    next => exact hinv
  | crash i =>
    simp only [Rip.AuthLTS.act, setPc]
    split
    next => exact hinv
    next pc _ hi =>
      exact hinv.move hi s.metaPid .dead (by intro f hf; cases hf) (by intro e h; cases h) rfl
        (fun _ => rfl)
    next => exact hinv
  | release i =>
    simp only [Rip.AuthLTS.act, setPc]
    split
    next hi =>
      refine hinv.move hi s.metaPid .dropMeta ?_ (by intro e h; cases h) rfl (by intro h; cases h)
      intro f hf
      exact hinv.own i _ f hi hf
    next => exact hinv

theorem LInv.run {s : S} (hinv : LInv s) (sched : List Act) : LInv (run true s sched) := by
  unfold Rip.AuthLTS.run
  induction sched generalizing s with
  | nil => exact hinv
  | cons a rest ih => exact ih (hinv.act a)

/-- every state in which all contenders are about to try `create_new` satisfies the invariant -/
theorem LInv.fresh (L : Option LockFile) (M : Option Pid) (n : Nat) :
    LInv (⟨L, M, List.replicate n .acquire⟩ : S) := by
  have key : ∀ (i : Nat) (pc : Pc), (List.replicate n Pc.acquire)[i]? = some pc → pc = .acquire := by
    intro i pc h
    rw [List.getElem?_replicate] at h
    split at h
    · exact (Option.some.inj h).symm
    · cases h
  refine ⟨?_, ?_, ?_⟩
  · intro i pc f hi hr
    have := key i pc hi; subst this; cases hr
  · intro i e hi
    have := key i _ hi; cases this
  · intro i pc hi
    have := key i pc hi; subst this; rfl

/-! ### the statements -/

/-- the states a crashed previous authority (pid 0) can leave behind, with n fresh contenders -/
def Leftover (s : S) : Prop :=
  ∃ n, s = initNone n ∨ s = initStale n true ∨ s = initStale n false ∨ s = initHalfWritten n

theorem LInv.leftover {s : S} (h : Leftover s) : LInv s := by
  obtain ⟨n, h | h | h | h⟩ := h <;> subst h <;> exact LInv.fresh _ _ n

theorem filter_length_le_one (p : Pc → Bool) :
    ∀ (l : List Pc),
      (∀ (i j : Nat) (a b : Pc), l[i]? = some a → l[j]? = some b → p a = true → p b = true → i = j) →
      (l.filter p).length ≤ 1
  | [], _ => by simp
  | a :: l, h => by
    by_cases ha : p a = true
    · have hnil : l.filter p = [] := by
        rw [List.filter_eq_nil_iff]
        intro b hb hpb
        obtain ⟨k, hk⟩ := List.getElem?_of_mem hb
        have := h 0 (k + 1) a b rfl (by simpa using hk) ha hpb
        omega
      simp [ha, hnil]
    · have ih := filter_length_le_one p l (fun i j a' b' hi hj ha' hb' => by
        have := h (i + 1) (j + 1) a' b' (by simpa using hi) (by simpa using hj) ha' hb'
        omega)
      simpa [List.filter_cons, ha] using ih

theorem holderPc_lockReq {i : Nat} {pc : Pc}
    (h : (pc == .holding || pc == .dropMeta || pc == .dropLock) = true) :
    lockReq i pc = some { owner := pidOf i, record := some (pidOf i) } := by
  cases pc <;> first | rfl | (simp at h)

theorem LInv.holders_le_one {s : S} (hinv : LInv s) : holders s ≤ 1 := by
  unfold holders
  apply filter_length_le_one
  intro i j a b hi hj ha hb
  exact hinv.unique hi (holderPc_lockReq ha) hj (holderPc_lockReq hb)

/-- if "re-read the lock, then rename it" were one indivisible step, then under EVERY schedule of
steps, crashes and releases of any number of contenders there is never more than one authority -/
theorem mutex_atomic (s0 : S) (h0 : Leftover s0) (sched : List Act) :
    holders (run true s0 sched) ≤ 1 :=
  ((LInv.leftover h0).run sched).holders_le_one

/-- …and a process that believes it is the authority really owns the lock file: a live authority's
lock is never taken -/
theorem never_steals_atomic (s0 : S) (h0 : Leftover s0) (sched : List Act) (i : Nat)
    (hi : (run true s0 sched).pcs[i]? = some .holding) :
    (run true s0 sched).lock = some { owner := pidOf i, record := some (pidOf i) } :=
  ((LInv.leftover h0).run sched).own i .holding _ hi rfl

/-! ### recovery -/

/-- eight consecutive steps of contender 0 -/
def soloSched : List Act := List.replicate 8 (.step 0)

theorem recovers_none (atomic : Bool) (m : Nat) :
    (run atomic (initNone (m + 1)) soloSched).pcs[0]? = some .holding := by
  cases atomic <;>
    simp [soloSched, run, act, stepProc, setPc, initNone, List.replicate_succ, pidOf]

theorem recovers_stale (atomic : Bool) (m : Nat) (withMeta : Bool) :
    (run atomic (initStale (m + 1) withMeta) soloSched).pcs[0]? = some .holding := by
  cases atomic <;> cases withMeta <;>
    simp [soloSched, run, act, stepProc, setPc, initStale, List.replicate_succ, pidOf, alive]

theorem recovers_halfWritten (atomic : Bool) (m : Nat) :
    (run atomic (initHalfWritten (m + 1)) soloSched).pcs[0]? = some .holding := by
  cases atomic <;>
    simp [soloSched, run, act, stepProc, setPc, initHalfWritten, List.replicate_succ, pidOf, alive]

/-- recovery: from every leftover state a lone scheduled contender becomes the authority
(in the real, non-atomic protocol as well) -/
theorem recovers (atomic : Bool) (s0 : S) (h0 : Leftover s0) (hn : 0 < s0.pcs.length) :
    ∃ sched, (run atomic s0 sched).pcs[0]? = some .holding := by
  refine ⟨soloSched, ?_⟩
  obtain ⟨n, h⟩ := h0
  cases n with
  | zero =>
    exfalso
    rcases h with h | h | h | h <;> subst h <;> simp [initNone, initStale, initHalfWritten] at hn
  | succ m =>
    rcases h with h | h | h | h <;> subst h
    · exact recovers_none atomic m
    · exact recovers_stale atomic m true
    · exact recovers_stale atomic m false
    · exact recovers_halfWritten atomic m

/-! ### cleanup only removes files of dead processes -/

/-- cleanup removes only files of processes that are gone: whenever the atomic protocol removes
lock.json in a cleanup step, the record (or, for an unwritten file, the creator) was not alive -/
theorem cleanup_only_dead (s : S) (i : Nat) (pc : Pc) (f : LockFile)
    (hpc : s.pcs[i]? = some pc) (hclean : pc = .corruptCheck ∨ ∃ e, pc = .staleReread e)
    (hinv : ∀ e, pc = .staleReread e → alive s e = false)
    (hl : s.lock = some f) (hrm : (stepProc true s i pc).lock = none) :
    (∃ e, f.record = some e ∧ alive s e = false) ∨ (f.record = none ∧ alive s f.owner = false) := by
  rcases hclean with h | ⟨e, h⟩ <;> subst h
  · simp only [stepProc, setPc, hl, if_true] at hrm
    split at hrm
    next f' hf' hm =>
      cases hf'
      split at hrm
      next hc =>
        simp only [Bool.and_eq_true, decide_eq_true_eq, Bool.not_eq_true'] at hc
        exact Or.inr hc
      next => simp at hrm
    next => simp at hrm
  · simp only [stepProc, setPc, hl, if_true] at hrm
    split at hrm
    next hr => exact Or.inl ⟨e, hr, hinv e rfl⟩
    next => simp at hrm

/-- the side condition of `cleanup_only_dead` (the expected pid was observed dead) holds in every
reachable state of the atomic protocol, so there the statement is unconditional -/
theorem cleanup_only_dead_reachable (s0 : S) (h0 : Leftover s0) (sched : List Act)
    (i : Nat) (pc : Pc) (f : LockFile)
    (hpc : (run true s0 sched).pcs[i]? = some pc)
    (hclean : pc = .corruptCheck ∨ ∃ e, pc = .staleReread e)
    (hl : (run true s0 sched).lock = some f)
    (hrm : (stepProc true (run true s0 sched) i pc).lock = none) :
    (∃ e, f.record = some e ∧ alive (run true s0 sched) e = false) ∨
      (f.record = none ∧ alive (run true s0 sched) f.owner = false) :=
  cleanup_only_dead _ i pc f hpc hclean
    (fun e he => ((LInv.leftover h0).run sched).stale i e (he ▸ hpc)) hl hrm

/-- the hypothesis `hinv` of `cleanup_only_dead` cannot be dropped: a contender that (in an
unreachable state) expects a live pid removes that live holder's lock -/
example :
    let s : S := { lock := some { owner := 2, record := some 2 }, metaPid := none,
                   pcs := [.staleReread 2, .holding] }
    s.pcs[0]? = some (.staleReread 2) ∧ alive s 2 = true ∧
      (stepProc true s 0 (.staleReread 2)).lock = none := by
  decide

end Rip.AuthLTS
