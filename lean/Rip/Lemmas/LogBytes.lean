import Rip.Model.LogBytes
namespace Rip.LogBytes
open Rip.Proto

theorem appendLine_prefix (log line : Bytes) : log <+: appendLine log line := by
  unfold appendLine
  rw [List.append_assoc]
  exact List.prefix_append _ _

theorem appendAll_prefix (log : Bytes) (ls : List Bytes) : log <+: appendAll log ls := by
  induction ls generalizing log with
  | nil => exact List.prefix_refl _
  | cons l ls ih =>
    exact List.IsPrefix.trans (appendLine_prefix log l) (ih (appendLine log l))

theorem appendLine_whole (log line : Bytes) : WholeLines (appendLine log line) := by
  right
  unfold appendLine
  simp

theorem appendAll_whole (log : Bytes) (ls : List Bytes) (h : WholeLines log) : WholeLines (appendAll log ls) := by
  induction ls generalizing log with
  | nil => exact h
  | cons l ls ih => exact ih _ (appendLine_whole log l)

theorem go_append (a : Bytes) (b : Bytes) (cur : Bytes) (ha : ∀ x ∈ a, x ≠ 10) :
    linesOf.go (a ++ 10 :: b) cur = (cur.reverse ++ a) :: linesOf.go b [] := by
  induction a generalizing cur with
  | nil => simp [linesOf.go]
  | cons x xs ih =>
    have hx : x ≠ 10 := ha x (by simp)
    simp only [List.cons_append, linesOf.go, hx, ↓reduceIte]
    rw [ih (x :: cur) (fun y hy => ha y (by simp [hy]))]
    simp

theorem go_whole_append (log : Bytes) (rest : Bytes) (cur : Bytes) (h : log = [] ∨ log.getLast? = some 10) :
    linesOf.go (log ++ rest) cur = (if log = [] then linesOf.go rest cur else linesOf.go log cur ++ linesOf.go rest []) := by
  induction log generalizing cur with
  | nil => simp
  | cons x xs ih =>
    simp only [List.cons_append, List.cons_ne_nil, ↓reduceIte]
    rcases h with h | h
    · cases h
    · by_cases hxs : xs = []
      · subst hxs
        simp at h
        subst h
        simp [linesOf.go]
      · have hl : xs.getLast? = some 10 := by
          cases xs with
          | nil => exact absurd rfl hxs
          | cons y ys => simpa [List.getLast?_cons_cons] using h
        by_cases hx : x = 10
        · subst hx
          simp only [linesOf.go, ↓reduceIte]
          rw [ih [] (Or.inr hl)]
          simp [hxs]
        · simp only [linesOf.go, hx, ↓reduceIte]
          rw [ih (x :: cur) (Or.inr hl)]
          simp [hxs]

theorem go_noNl (frag cur : Bytes) (h : ∀ x ∈ frag, x ≠ 10) : linesOf.go frag cur = [] := by
  induction frag generalizing cur with
  | nil => simp [linesOf.go]
  | cons x xs ih =>
    have hx : x ≠ 10 := h x (by simp)
    simp only [linesOf.go, hx, ↓reduceIte]
    exact ih (x :: cur) (fun y hy => h y (by simp [hy]))

/-- **A frame whose append is in flight is invisible to a reader**: whatever prefix of its body (no
newline yet) is already in the file behind a log of whole lines, the lines a reader gets are those
of the log before the append began. -/
theorem linesOf_inflight (log frag : Bytes) (hw : WholeLines log) (hf : NoNl frag) :
    linesOf (log ++ frag) = linesOf log := by
  unfold linesOf
  rw [go_whole_append log frag [] hw]
  by_cases hl : log = []
  · subst hl; simp [go_noNl frag [] hf, linesOf.go]
  · simp [hl, go_noNl frag [] hf]

end Rip.LogBytes
