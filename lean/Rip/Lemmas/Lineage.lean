import Rip.Model.Lineage
/-!
C10 lemmas: cut resolution of branch / handoff (`resolveCut`), selector errors, and the effect of
`branch` / `handoff` on the log (parent untouched, child prefix, two frames appended, handoff summary
always resolvable).
-/
namespace Rip.Lineage

/-- a thread as the store keeps it: frames numbered 0,1,2,… in order -/
def WellNumbered (T : List F) : Prop := T.map (·.seq) = List.range T.length

/-! ### well-numbered threads -/

theorem wn_getElem? (T : List F) (hw : WellNumbered T) (i : Nat) (f : F) (h : T[i]? = some f) :
    f.seq = i := by
  obtain ⟨hlt, e⟩ := List.getElem?_eq_some_iff.mp h
  have := congrArg (fun l => l[i]?) hw
  simp [hlt] at this
  rw [← e]; exact this

theorem wn_mem_lt (T : List F) (hw : WellNumbered T) (f : F) (hf : f ∈ T) : f.seq < T.length := by
  obtain ⟨i, hi, e⟩ := List.mem_iff_getElem.mp hf
  have : T[i]? = some f := by rw [List.getElem?_eq_getElem hi, e]
  rw [wn_getElem? T hw i f this]; exact hi

theorem wn_headSeq (T : List F) (hw : WellNumbered T) (hne : T ≠ []) : headSeq T = T.length - 1 := by
  have hpos : 0 < T.length := List.length_pos_iff.mpr hne
  have hlt : T.length - 1 < T.length := by omega
  have e : T.getLast? = some (T[T.length - 1]) := by
    rw [List.getLast?_eq_getElem?, List.getElem?_eq_getElem hlt]
  unfold headSeq
  rw [e]
  exact wn_getElem? T hw _ _ (List.getElem?_eq_getElem hlt)

/-- in a well-numbered thread everything before `f` has a smaller seq -/
theorem wn_pre_lt (pre post : List F) (f : F) (hw : WellNumbered (pre ++ f :: post)) :
    ∀ g ∈ pre, g.seq < f.seq := by
  intro g hg
  obtain ⟨i, hi, e⟩ := List.mem_iff_getElem.mp hg
  have h1 : (pre ++ f :: post)[i]? = some g := by
    rw [List.getElem?_append_left hi, List.getElem?_eq_getElem hi, e]
  have h2 : (pre ++ f :: post)[pre.length]? = some f := by
    rw [List.getElem?_append_right (Nat.le_refl _)]; simp
  rw [wn_getElem? _ hw _ _ h1, wn_getElem? _ hw _ _ h2]; exact hi

/-! ### last element satisfying a predicate -/

theorem split_last (p : F → Bool) (L : List F) (h : ∃ f ∈ L, p f = true) :
    ∃ pre fm post, L = pre ++ fm :: post ∧ p fm = true ∧ ∀ g ∈ post, p g = false := by
  induction L with
  | nil => obtain ⟨f, hf, _⟩ := h; cases hf
  | cons a rest ih =>
    by_cases hr : ∃ f ∈ rest, p f = true
    · obtain ⟨pre, fm, post, e, hp, hpost⟩ := ih hr
      exact ⟨a :: pre, fm, post, by rw [e]; rfl, hp, hpost⟩
    · obtain ⟨f, hf, hpf⟩ := h
      rcases List.mem_cons.mp hf with rfl | hf'
      · refine ⟨[], f, rest, rfl, hpf, ?_⟩
        intro g hg
        cases hpg : p g with
        | false => rfl
        | true => exact absurd ⟨g, hg, hpg⟩ hr
      · exact absurd ⟨f, hf', hpf⟩ hr

theorem find_rev_split (p : F → Bool) (T : List F) (f : F) (h : T.reverse.find? p = some f) :
    p f = true ∧ ∃ pre post, T = pre ++ f :: post ∧ ∀ g ∈ post, p g = false := by
  obtain ⟨hp, as, bs, e, has⟩ := List.find?_eq_some_iff_append.mp h
  refine ⟨hp, bs.reverse, as.reverse, ?_, ?_⟩
  · have := congrArg List.reverse e
    simpa using this
  · intro g hg
    have := has g (List.mem_reverse.mp hg)
    simpa using this

/-! ### `scanMsg` -/

def related (mId : Nat) (f : F) : Bool :=
  match f.kind with
  | .runSpawned mid => mid == mId
  | .runEnded mid => mid == mId
  | _ => false

/-- `f` is a message frame with the requested id -/
def isMatch (mId : Nat) (f : F) : Bool := isMessage f && f.id == mId

theorem related_not_message (mId : Nat) (f : F) (h : related mId f = true) : isMessage f = false := by
  rcases f with ⟨s, i, q, k⟩
  cases k <;> simp_all [related, isMessage]

theorem scan_append (m : Nat) (pre rest : List F) (acc : Option Nat × Option Nat) :
    scanMsg m (pre ++ rest) acc = scanMsg m rest (scanMsg m pre acc) := by
  induction pre generalizing acc with
  | nil => rfl
  | cons f pre ih =>
    obtain ⟨ms, mx⟩ := acc
    rcases f with ⟨s, i, q, k⟩
    cases k <;> simp only [List.cons_append, scanMsg] <;> (try split) <;> exact ih _

theorem scan_match_cons (m : Nat) (fm : F) (post : List F) (acc : Option Nat × Option Nat)
    (h : isMatch m fm = true) : scanMsg m (fm :: post) acc = scanMsg m post (some fm.seq, some fm.seq) := by
  obtain ⟨ms, mx⟩ := acc
  rcases fm with ⟨s, i, q, k⟩
  cases k <;> simp_all [isMatch, isMessage, scanMsg]

/-- without a matching message the first component is unchanged -/
theorem scan_fst_nomatch (m : Nat) (L : List F) (hn : ∀ f ∈ L, isMatch m f = false)
    (acc : Option Nat × Option Nat) : (scanMsg m L acc).1 = acc.1 := by
  induction L generalizing acc with
  | nil => rfl
  | cons f rest ih =>
    obtain ⟨ms, mx⟩ := acc
    have hf := hn f (List.mem_cons_self)
    have hrest : ∀ g ∈ rest, isMatch m g = false := fun g hg => hn g (List.mem_cons_of_mem _ hg)
    rcases f with ⟨s, i, q, k⟩
    cases k <;> simp only [scanMsg] <;> (try split) <;>
      first
        | exact ih hrest _
        | (simp_all [isMatch, isMessage])

/-- without a matching message the second component is the running maximum over related frames -/
theorem scan_nomatch (m : Nat) (L : List F) (hn : ∀ f ∈ L, isMatch m f = false) (ms : Option Nat) (v : Nat) :
    ∃ v', scanMsg m L (ms, some v) = (ms, some v') ∧ v ≤ v' ∧
      (∀ g ∈ L, related m g = true → g.seq ≤ v') ∧
      (v' = v ∨ ∃ g ∈ L, related m g = true ∧ g.seq = v') := by
  induction L generalizing v with
  | nil => exact ⟨v, rfl, Nat.le_refl _, (by intro g hg; cases hg), Or.inl rfl⟩
  | cons f rest ih =>
    have hf := hn f (List.mem_cons_self)
    have hrest : ∀ g ∈ rest, isMatch m g = false := fun g hg => hn g (List.mem_cons_of_mem _ hg)
    by_cases hr : related m f = true
    · -- a related frame: the maximum is updated
      obtain ⟨v', e, hle, hall, hex⟩ := ih hrest (max v f.seq)
      have step : scanMsg m (f :: rest) (ms, some v) = scanMsg m rest (ms, some (max v f.seq)) := by
        rcases f with ⟨s, i, q, k⟩
        cases k <;> simp_all [related, scanMsg]
      refine ⟨v', by rw [step, e], by omega, ?_, ?_⟩
      · intro g hg hrel
        rcases List.mem_cons.mp hg with rfl | hg'
        · omega
        · exact hall g hg' hrel
      · rcases hex with h | ⟨g, hg, hrel, hs⟩
        · by_cases hv : f.seq ≤ v
          · left; omega
          · right; exact ⟨f, List.mem_cons_self, hr, by omega⟩
        · right; exact ⟨g, List.mem_cons_of_mem _ hg, hrel, hs⟩
    · obtain ⟨v', e, hle, hall, hex⟩ := ih hrest v
      have step : scanMsg m (f :: rest) (ms, some v) = scanMsg m rest (ms, some v) := by
        rcases f with ⟨s, i, q, k⟩
        cases k <;> simp_all [related, scanMsg, isMatch, isMessage]
      refine ⟨v', by rw [step, e], hle, ?_, ?_⟩
      · intro g hg hrel
        rcases List.mem_cons.mp hg with rfl | hg'
        · exact absurd hrel hr
        · exact hall g hg' hrel
      · rcases hex with h | ⟨g, hg, hrel, hs⟩
        · left; exact h
        · right; exact ⟨g, List.mem_cons_of_mem _ hg, hrel, hs⟩

/-- the whole scan, described through the LAST matching message -/
theorem scan_spec (m : Nat) (T : List F) (s : Nat) (mx : Option Nat)
    (h : scanMsg m T (none, none) = (some s, mx)) :
    ∃ pre fm post v', T = pre ++ fm :: post ∧ isMatch m fm = true ∧ (∀ g ∈ post, isMatch m g = false) ∧
      s = fm.seq ∧ mx = some v' ∧ fm.seq ≤ v' ∧
      (∀ g ∈ post, related m g = true → g.seq ≤ v') ∧
      (v' = fm.seq ∨ ∃ g ∈ post, related m g = true ∧ g.seq = v') := by
  have hex : ∃ f ∈ T, isMatch m f = true := by
    refine Classical.byContradiction fun hno => ?_
    have hn : ∀ f ∈ T, isMatch m f = false := by
      intro f hf
      cases hm : isMatch m f with
      | false => rfl
      | true => exact absurd ⟨f, hf, hm⟩ hno
    have := scan_fst_nomatch m T hn (none, none)
    rw [h] at this; cases this
  obtain ⟨pre, fm, post, e, hm, hpost⟩ := split_last (isMatch m) T hex
  obtain ⟨v', e', hle, hall, hor⟩ := scan_nomatch m post hpost (some fm.seq) fm.seq
  have : scanMsg m T (none, none) = (some fm.seq, some v') := by
    rw [e, scan_append, scan_match_cons m fm post _ hm, e']
  rw [h] at this
  injection this with h1 h2
  injection h1 with h1
  exact ⟨pre, fm, post, v', e, hm, hpost, h1, h2, hle, hall, hor⟩

/-! ### `lastMessage` -/

theorem lastMessage_some (T : List F) (p : F → Bool) (i : Nat) (h : lastMessage T p = some i) :
    ∃ pre f post, T = pre ++ f :: post ∧ f.id = i ∧ p f = true ∧ isMessage f = true ∧
      ∀ g ∈ post, ¬ (p g = true ∧ isMessage g = true) := by
  unfold lastMessage at h
  obtain ⟨f, hf, hid⟩ := Option.map_eq_some_iff.mp h
  obtain ⟨hp, pre, post, e, hpost⟩ := find_rev_split _ T f hf
  simp only [Bool.and_eq_true] at hp
  refine ⟨pre, f, post, e, hid, hp.1, hp.2, ?_⟩
  intro g hg hc
  have := hpost g hg
  simp [hc.1, hc.2] at this

theorem lastMessage_none (T : List F) (p : F → Bool) (h : lastMessage T p = none) :
    ∀ g ∈ T, isMessage g = true → p g = false := by
  unfold lastMessage at h
  have h' := Option.map_eq_none_iff.mp h
  intro g hg hm
  have := List.find?_eq_none.mp h' g (List.mem_reverse.mpr hg)
  simpa [hm] using this

/-! ### cut resolution -/

theorem resolveCut_ok_ne_nil (T : List F) (sel : Sel) (r : Nat × Option Nat)
    (h : resolveCut T sel = .ok r) : T ≠ [] := by
  rintro rfl
  cases sel <;> simp [resolveCut] at h

theorem resolveCut_fromSeq_ok (T : List F) (q' q : Nat) (m : Option Nat)
    (h : resolveCut T (.fromSeq q') = .ok (q, m)) :
    T ≠ [] ∧ q = q' ∧ q' ≤ headSeq T ∧ m = lastMessage T (fun f => f.seq ≤ q') := by
  have hne := resolveCut_ok_ne_nil T _ _ h
  refine ⟨hne, ?_⟩
  cases T with
  | nil => exact absurd rfl hne
  | cons a T' =>
    simp only [resolveCut, List.isEmpty_cons, Bool.false_eq_true, if_false] at h
    split at h
    · cases h
    · rename_i hle
      injection h with h
      injection h with h1 h2
      exact ⟨h1.symm, by omega, h2.symm⟩

theorem resolveCut_fromMsg_ok (T : List F) (mId q : Nat) (m : Option Nat)
    (h : resolveCut T (.fromMsg mId) = .ok (q, m)) :
    T ≠ [] ∧ m = some mId ∧ ∃ s mx, scanMsg mId T (none, none) = (some s, mx) ∧ q = mx.getD 0 := by
  have hne := resolveCut_ok_ne_nil T _ _ h
  refine ⟨hne, ?_⟩
  cases T with
  | nil => exact absurd rfl hne
  | cons a T' =>
    simp only [resolveCut, List.isEmpty_cons, Bool.false_eq_true, if_false] at h
    split at h
    · cases h
    · rename_i s mx e
      injection h with h
      injection h with h1 h2
      exact ⟨h2.symm, s, mx, e, h1.symm⟩

/-- selector `from_seq q'`: the cut is q' and names the last message at or before it (or none) -/
theorem cut_from_seq (T : List F) (q' q : Nat) (m : Option Nat)
    (h : resolveCut T (.fromSeq q') = .ok (q, m)) :
    q = q' ∧ q' ≤ headSeq T ∧
    (∀ i, m = some i → ∃ f ∈ T, f.id = i ∧ isMessage f = true ∧ f.seq ≤ q) ∧
    (m = none → ∀ g ∈ T, isMessage g = true → ¬ g.seq ≤ q) := by
  obtain ⟨_, rfl, hle, rfl⟩ := resolveCut_fromSeq_ok T q' q m h
  refine ⟨rfl, hle, ?_, ?_⟩
  · intro i hi
    obtain ⟨pre, f, post, e, hid, hp, hm, _⟩ := lastMessage_some T _ i hi
    exact ⟨f, by rw [e]; simp, hid, hm, by simpa using hp⟩
  · intro hn g hg hm
    have := lastMessage_none T _ hn g hg hm
    simpa using this

/-- with well-numbered frames the named message is the LAST one at or before the cut -/
theorem cut_from_seq_last (T : List F) (hw : WellNumbered T) (q' q i : Nat)
    (h : resolveCut T (.fromSeq q') = .ok (q, some i)) :
    ∃ f ∈ T, f.id = i ∧ isMessage f = true ∧ f.seq ≤ q ∧
      ∀ g ∈ T, isMessage g = true → g.seq ≤ q → g.seq ≤ f.seq := by
  obtain ⟨_, rfl, hle, hm⟩ := resolveCut_fromSeq_ok T q' q _ h
  obtain ⟨pre, f, post, e, hid, hp, hmsg, hpost⟩ := lastMessage_some T _ i hm.symm
  subst e
  refine ⟨f, by simp, hid, hmsg, by simpa using hp, ?_⟩
  intro g hg hgm hgq
  rcases List.mem_append.mp hg with hpre | hrest
  · exact Nat.le_of_lt (wn_pre_lt pre post f hw g hpre)
  · rcases List.mem_cons.mp hrest with rfl | hpo
    · exact Nat.le_refl _
    · exact absurd ⟨by simpa using hgq, hgm⟩ (hpost g hpo)

/-- no selector: the cut is the head and names the last message of the thread -/
theorem cut_none (T : List F) (q : Nat) (m : Option Nat) (h : resolveCut T .none = .ok (q, m)) :
    q = headSeq T ∧ m = lastMessage T (fun _ => true) := by
  have hne := resolveCut_ok_ne_nil T _ _ h
  cases T with
  | nil => exact absurd rfl hne
  | cons a T' =>
    simp only [resolveCut, List.isEmpty_cons, Bool.false_eq_true, if_false] at h
    injection h with h
    injection h with h1 h2
    exact ⟨h1.symm, h2.symm⟩

/-- selector `from_message_id mId`: the requested message is named, it is a message of the thread,
and the cut covers it -/
theorem cut_from_msg (T : List F) (mId q : Nat) (m : Option Nat)
    (h : resolveCut T (.fromMsg mId) = .ok (q, m)) :
    m = some mId ∧ (∃ f ∈ T, f.id = mId ∧ isMessage f = true ∧ f.seq ≤ q) := by
  obtain ⟨_, hm, s, mx, hs, rfl⟩ := resolveCut_fromMsg_ok T mId q m h
  obtain ⟨pre, fm, post, v', e, hmatch, _, _, rfl, hle, _, _⟩ := scan_spec mId T s mx hs
  simp only [isMatch, Bool.and_eq_true, beq_iff_eq] at hmatch
  exact ⟨hm, fm, by rw [e]; simp, hmatch.2, hmatch.1, by simpa using hle⟩

/-- the covering property, for the LAST message frame carrying the id (no uniqueness needed) -/
theorem cut_from_msg_covers_last (T : List F) (hw : WellNumbered T) (mId q : Nat) (m : Option Nat)
    (h : resolveCut T (.fromMsg mId) = .ok (q, m)) :
    ∃ fm ∈ T, fm.id = mId ∧ isMessage fm = true ∧ fm.seq ≤ q ∧
      (∀ g ∈ T, isMessage g = true → g.id = mId → g.seq ≤ fm.seq) ∧
      (∀ g ∈ T, related mId g = true → fm.seq ≤ g.seq → g.seq ≤ q) ∧
      (q = fm.seq ∨ ∃ g ∈ T, related mId g = true ∧ g.seq = q) := by
  obtain ⟨_, hm, s, mx, hs, rfl⟩ := resolveCut_fromMsg_ok T mId q m h
  obtain ⟨pre, fm, post, v', e, hmatch, hpost, _, rfl, hle, hall, hor⟩ := scan_spec mId T s mx hs
  subst e
  simp only [isMatch, Bool.and_eq_true, beq_iff_eq] at hmatch
  refine ⟨fm, by simp, hmatch.2, hmatch.1, by simpa using hle, ?_, ?_, ?_⟩
  · intro g hg hgm hgid
    rcases List.mem_append.mp hg with hpre | hrest
    · exact Nat.le_of_lt (wn_pre_lt pre post fm hw g hpre)
    · rcases List.mem_cons.mp hrest with rfl | hpo
      · exact Nat.le_refl _
      · have := hpost g hpo
        simp [isMatch, hgm, hgid] at this
  · intro g hg hrel hge
    show g.seq ≤ v'
    rcases List.mem_append.mp hg with hpre | hrest
    · have := wn_pre_lt pre post fm hw g hpre; omega
    · rcases List.mem_cons.mp hrest with rfl | hpo
      · have := related_not_message mId g hrel
        rw [hmatch.1] at this; cases this
      · exact hall g hpo hrel
  · show v' = fm.seq ∨ ∃ g ∈ pre ++ fm :: post, related mId g = true ∧ g.seq = v'
    rcases hor with h1 | ⟨g, hg, hrel, hs'⟩
    · exact Or.inl h1
    · exact Or.inr ⟨g, by simp [hg], hrel, hs'⟩

/-- …with well-numbered frames and ids that are unique among messages: every related frame after the
message is at or before the cut, and the cut is the seq of the message or of one of them -/
theorem cut_from_msg_covers (T : List F) (hw : WellNumbered T) (mId q : Nat) (m : Option Nat)
    (hu : ∀ f ∈ T, ∀ g ∈ T, isMessage f = true → isMessage g = true → f.id = mId → g.id = mId → f = g)
    (h : resolveCut T (.fromMsg mId) = .ok (q, m)) :
    ∃ fm ∈ T, fm.id = mId ∧ isMessage fm = true ∧ fm.seq ≤ q ∧
      (∀ g ∈ T, related mId g = true → fm.seq ≤ g.seq → g.seq ≤ q) ∧
      (q = fm.seq ∨ ∃ g ∈ T, related mId g = true ∧ g.seq = q) := by
  obtain ⟨fm, hfm, hid, hmsg, hle, _, hall, hor⟩ := cut_from_msg_covers_last T hw mId q m h
  have _ := hu
  exact ⟨fm, hfm, hid, hmsg, hle, hall, hor⟩

/-- the same, stated for EVERY message frame carrying the id (this is where uniqueness is used) -/
theorem cut_from_msg_covers_all (T : List F) (hw : WellNumbered T) (mId q : Nat) (m : Option Nat)
    (hu : ∀ f ∈ T, ∀ g ∈ T, isMessage f = true → isMessage g = true → f.id = mId → g.id = mId → f = g)
    (h : resolveCut T (.fromMsg mId) = .ok (q, m)) :
    ∀ fm ∈ T, fm.id = mId → isMessage fm = true → fm.seq ≤ q ∧
      (∀ g ∈ T, related mId g = true → fm.seq ≤ g.seq → g.seq ≤ q) ∧
      (q = fm.seq ∨ ∃ g ∈ T, related mId g = true ∧ g.seq = q) := by
  obtain ⟨f0, hf0, hid0, hmsg0, hle, _, hall, hor⟩ := cut_from_msg_covers_last T hw mId q m h
  intro fm hfm hid hmsg
  have : fm = f0 := hu fm hfm f0 hf0 hmsg hmsg0 hid hid0
  subst this
  exact ⟨hle, hall, hor⟩

/-- the recorded cut lies within the source thread as it was -/
theorem cut_in_range (T : List F) (hw : WellNumbered T) (sel : Sel) (q : Nat) (m : Option Nat)
    (h : resolveCut T sel = .ok (q, m)) : q ≤ headSeq T := by
  have hne := resolveCut_ok_ne_nil T _ _ h
  cases sel with
  | none => rw [(cut_none T q m h).1]; exact Nat.le_refl _
  | fromSeq q' => obtain ⟨_, rfl, hle, _⟩ := resolveCut_fromSeq_ok T q' q m h; exact hle
  | fromMsg mId =>
    obtain ⟨fm, hfm, _, _, _, _, _, hor⟩ := cut_from_msg_covers_last T hw mId q m h
    rw [wn_headSeq T hw hne]
    rcases hor with h1 | ⟨g, hg, _, h1⟩
    · have := wn_mem_lt T hw fm hfm; omega
    · have := wn_mem_lt T hw g hg; omega
  | both a b => simp [resolveCut] at h

/-! ### selector errors -/

theorem sel_both_rejected (T : List F) (q m : Nat) : resolveCut T (.both q m) = .error .conflicting := rfl

theorem sel_seq_out_of_range (T : List F) (hne : T ≠ []) (q : Nat) (h : headSeq T < q) :
    resolveCut T (.fromSeq q) = .error .outOfRange := by
  cases T with
  | nil => exact absurd rfl hne
  | cons a T' => simp [resolveCut, h]

theorem sel_unknown_message (T : List F) (hne : T ≠ []) (mId : Nat)
    (h : ∀ f ∈ T, isMessage f = true → f.id ≠ mId) : resolveCut T (.fromMsg mId) = .error .notFound := by
  have hn : ∀ f ∈ T, isMatch mId f = false := by
    intro f hf
    cases hm : isMessage f with
    | false => simp [isMatch, hm]
    | true => simp [isMatch, hm, h f hf hm]
  have h1 := scan_fst_nomatch mId T hn (none, none)
  cases T with
  | nil => exact absurd rfl hne
  | cons a T' =>
    simp only [resolveCut, List.isEmpty_cons, Bool.false_eq_true, if_false]
    split
    · rfl
    · rename_i s mx e
      rw [e] at h1; cases h1

theorem unknown_thread (sel : Sel) (h : ∀ q m, sel ≠ .both q m) : resolveCut [] sel = .error .noSuchThread := by
  cases sel with
  | both q m => exact absurd rfl (h q m)
  | _ => rfl

/-! ### `branch` / `handoff` on the log -/

theorem streamOf_append_child_ne (log : Log) (child t : Nat) (a b : F)
    (ha : a.stream = child) (hb : b.stream = child) (ht : t ≠ child) :
    streamOf (log ++ [a, b]) t = streamOf log t := by
  have hc : (child == t) = false := by simp; exact fun e => ht e.symm
  simp [streamOf, List.filter_append, ha, hb, hc]

theorem streamOf_append_child (log : Log) (child : Nat) (a b : F)
    (ha : a.stream = child) (hb : b.stream = child) :
    streamOf (log ++ [a, b]) child = streamOf log child ++ [a, b] := by
  simp [streamOf, List.filter_append, ha, hb]

theorem branch_ok (log log' : Log) (parent child idC idB : Nat) (sel : Sel) (q : Nat) (m : Option Nat)
    (h : branch log parent child idC idB sel = .ok (log', q, m)) :
    resolveCut (streamOf log parent) sel = .ok (q, m) ∧
    log' = log ++ [{ stream := child, id := idC, seq := 0, kind := .created },
                   { stream := child, id := idB, seq := 1, kind := .branched parent q m }] := by
  unfold branch at h
  split at h
  · cases h
  · rename_i q0 m0 e
    injection h with h
    injection h with h1 h2
    injection h2 with h2 h3
    subst h2 h3
    exact ⟨e, h1.symm⟩

/-- branch never touches the parent (or any other existing thread) -/
theorem branch_parent_untouched (log log' : Log) (parent child idC idB : Nat) (sel : Sel) (q : Nat) (m : Option Nat)
    (h : branch log parent child idC idB sel = .ok (log', q, m)) :
    ∀ t, t ≠ child → streamOf log' t = streamOf log t := by
  obtain ⟨_, rfl⟩ := branch_ok _ _ _ _ _ _ _ _ _ h
  intro t ht
  exact streamOf_append_child_ne log child t _ _ rfl rfl ht

/-- the child starts with its creation frame at seq 0 and its lineage record at seq 1 -/
theorem branch_child_prefix (log log' : Log) (parent child idC idB : Nat) (sel : Sel) (q : Nat) (m : Option Nat)
    (hfresh : streamOf log child = [])
    (h : branch log parent child idC idB sel = .ok (log', q, m)) :
    streamOf log' child = [{ stream := child, id := idC, seq := 0, kind := .created },
                           { stream := child, id := idB, seq := 1, kind := .branched parent q m }] ∧
    resolveCut (streamOf log parent) sel = .ok (q, m) := by
  obtain ⟨hr, rfl⟩ := branch_ok _ _ _ _ _ _ _ _ _ h
  refine ⟨?_, hr⟩
  rw [streamOf_append_child log child _ _ rfl rfl, hfresh]; rfl

theorem branch_appends_only (log log' : Log) (parent child idC idB : Nat) (sel : Sel) (q : Nat) (m : Option Nat)
    (h : branch log parent child idC idB sel = .ok (log', q, m)) : ∃ fs, log' = log ++ fs ∧ fs.length = 2 := by
  obtain ⟨_, rfl⟩ := branch_ok _ _ _ _ _ _ _ _ _ h
  exact ⟨_, rfl, rfl⟩

theorem handoff_ok (log log' : Log) (ex : Nat → Bool) (src child idC idH fresh : Nat) (sel : Sel)
    (md : Bool) (art : Option Nat) (q : Nat) (m a : Option Nat)
    (h : handoff log ex src child idC idH fresh sel md art = .ok (log', q, m, a)) :
    resolveCut (streamOf log src) sel = .ok (q, m) ∧
    log' = log ++ [{ stream := child, id := idC, seq := 0, kind := .created },
                   { stream := child, id := idH, seq := 1, kind := .handoff src q m a md }] ∧
    (∃ x, a = some x ∧ (art = some x → ex x = true) ∧ (art = none → x = fresh ∧ md = true)) := by
  unfold handoff at h
  split at h
  · cases h
  · rename_i hsum
    split at h
    · cases h
    · split at h
      · cases h
      · rename_i q0 m0 e
        split at h
        · rename_i a0
          split at h
          · cases h
          · rename_i hex
            injection h with h
            injection h with h1 h2
            injection h2 with h2 h3
            injection h3 with h3 h4
            subst h2 h3 h4
            refine ⟨e, h1.symm, a0, rfl, ?_, ?_⟩
            · intro _; simpa using hex
            · intro hc; cases hc
        · injection h with h
          injection h with h1 h2
          injection h2 with h2 h3
          injection h3 with h3 h4
          subst h2 h3 h4
          refine ⟨e, h1.symm, fresh, rfl, ?_, ?_⟩
          · intro hc; cases hc
          · intro _; exact ⟨rfl, by simpa using hsum⟩

/-- handoff never touches the source (or any other existing thread) -/
theorem handoff_parent_untouched (log log' : Log) (ex : Nat → Bool) (src child idC idH fresh : Nat) (sel : Sel)
    (md : Bool) (art : Option Nat) (q : Nat) (m a : Option Nat)
    (h : handoff log ex src child idC idH fresh sel md art = .ok (log', q, m, a)) :
    ∀ t, t ≠ child → streamOf log' t = streamOf log t := by
  obtain ⟨_, rfl, _⟩ := handoff_ok _ _ _ _ _ _ _ _ _ _ _ _ _ _ h
  intro t ht
  exact streamOf_append_child_ne log child t _ _ rfl rfl ht

theorem handoff_child_prefix (log log' : Log) (ex : Nat → Bool) (src child idC idH fresh : Nat) (sel : Sel)
    (md : Bool) (art : Option Nat) (q : Nat) (m a : Option Nat)
    (hfresh : streamOf log child = [])
    (h : handoff log ex src child idC idH fresh sel md art = .ok (log', q, m, a)) :
    streamOf log' child = [{ stream := child, id := idC, seq := 0, kind := .created },
                           { stream := child, id := idH, seq := 1, kind := .handoff src q m a md }] ∧
    resolveCut (streamOf log src) sel = .ok (q, m) := by
  obtain ⟨hr, rfl, _⟩ := handoff_ok _ _ _ _ _ _ _ _ _ _ _ _ _ _ h
  refine ⟨?_, hr⟩
  rw [streamOf_append_child log child _ _ rfl rfl, hfresh]; rfl

theorem handoff_appends_only (log log' : Log) (ex : Nat → Bool) (src child idC idH fresh : Nat) (sel : Sel)
    (md : Bool) (art : Option Nat) (q : Nat) (m a : Option Nat)
    (h : handoff log ex src child idC idH fresh sel md art = .ok (log', q, m, a)) :
    ∃ fs, log' = log ++ fs ∧ fs.length = 2 := by
  obtain ⟨_, rfl, _⟩ := handoff_ok _ _ _ _ _ _ _ _ _ _ _ _ _ _ h
  exact ⟨_, rfl, rfl⟩

/-- a successful handoff always carries a resolvable summary -/
theorem handoff_summary_resolvable (log log' : Log) (ex : Nat → Bool) (src child idC idH fresh : Nat) (sel : Sel)
    (md : Bool) (art : Option Nat) (q : Nat) (m a : Option Nat)
    (h : handoff log ex src child idC idH fresh sel md art = .ok (log', q, m, a)) :
    (∃ x, a = some x ∧ (art = some x → ex x = true) ∧ (art = none → x = fresh ∧ md = true)) :=
  (handoff_ok _ _ _ _ _ _ _ _ _ _ _ _ _ _ h).2.2

theorem handoff_requires_summary (log : Log) (ex : Nat → Bool) (src child idC idH fresh : Nat) (sel : Sel) :
    handoff log ex src child idC idH fresh sel false none = .error .noSummary := by
  simp [handoff]

/-! ### sharpness: `WellNumbered` is needed for `cut_in_range` (from_message_id takes the maximum of
recorded seqs, `headSeq` reads the last frame) -/

instance (T : List F) : Decidable (WellNumbered T) := by unfold WellNumbered; infer_instance

def cexUnnumbered : List F := [⟨0, 7, 0, .message⟩, ⟨0, 8, 5, .runSpawned 7⟩, ⟨0, 9, 1, .other⟩]

example : resolveCut cexUnnumbered (.fromMsg 7) = .ok (5, some 7) ∧ headSeq cexUnnumbered = 1 ∧
    ¬ WellNumbered cexUnnumbered ∧ ¬ (5 ≤ headSeq cexUnnumbered) :=
  ⟨rfl, rfl, by decide, by decide⟩

/-- non-vacuity on a well-numbered thread: a later run frame moves the cut past the message -/
def exThread : List F :=
  [⟨0, 10, 0, .created⟩, ⟨0, 7, 1, .message⟩, ⟨0, 11, 2, .runSpawned 7⟩,
   ⟨0, 12, 3, .message⟩, ⟨0, 13, 4, .runEnded 7⟩, ⟨0, 14, 5, .other⟩]

example : WellNumbered exThread ∧ resolveCut exThread (.fromMsg 7) = .ok (4, some 7) ∧
    resolveCut exThread (.fromSeq 2) = .ok (2, some 7) ∧ resolveCut exThread .none = .ok (5, some 12) ∧
    resolveCut exThread (.fromSeq 0) = .ok (0, none) ∧
    resolveCut exThread (.fromSeq 6) = .error .outOfRange ∧
    resolveCut exThread (.fromMsg 11) = .error .notFound :=
  ⟨by decide, rfl, rfl, rfl, rfl, rfl, rfl⟩

end Rip.Lineage
