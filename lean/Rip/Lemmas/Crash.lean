import Rip.Model.Crash

/-!
C05: crash safety of the append path with both repairs on (`fixE`: the next seq comes from the
truth log and a disagreeing sidecar is rebuilt; `fixF`: a dangling last line is terminated on open).

Main results: `appendAll_empty`, `crash_safe`, `stale_window`, `partialAppend_extends`,
`partialAppend_all`.
-/
namespace Rip.Crash

/-! ### list facts -/

theorem filterMap_id_map_some (l : List Nat) : (l.map some).filterMap id = l := by
  induction l with
  | nil => rfl
  | cons x xs ih => simp

theorem getLast?_range_succ (b : Nat) : (List.range (b + 1)).getLast? = some b := by
  rw [List.range_succ]; simp

theorem lastSeq_range (b : Nat) : lastSeq ((List.range b).map some) = (List.range b).getLast? := by
  simp [lastSeq]

theorem take_range_add (a j : Nat) : (List.range (a + j)).take a = List.range a := by
  rw [List.range_add]
  exact List.take_left' (by simp)

/-! ### healthy disks -/

/-- a healthy disk holding exactly the frames `0 .. a-1`: nothing dangling, the log and the thread
cache both numbered `0,1,…,a-1` -/
structure Good (a : Nat) (d : Disk) : Prop where
  dangling : d.dangling = none
  log : d.log = (List.range a).map some
  side : d.side = List.range a

theorem good_empty : Good 0 empty := ⟨rfl, rfl, rfl⟩

theorem fullAppend_good {a : Nat} {d : Disk} (f : Frame) (h : Good a d) :
    Good (a + 1) (fullAppend f a d) := by
  obtain ⟨l, dg, s, m⟩ := d
  obtain ⟨h1, h2, h3⟩ := h
  simp only at h1 h2 h3
  subst h1 h2 h3
  constructor <;> simp [fullAppend, List.range_succ]

theorem appendAll_good (fs : List Frame) {a : Nat} {d : Disk} (h : Good a d) :
    Good (a + fs.length) (appendAll fs a d) := by
  induction fs generalizing a d with
  | nil => simpa [appendAll] using h
  | cons f fs ih =>
    have := ih (fullAppend_good f h)
    rw [show a + 1 + fs.length = a + (f :: fs).length by simp; omega] at this
    simpa [appendAll] using this

theorem Good.gapFree {a : Nat} {d : Disk} (h : Good a d) : GapFree d := by
  refine ⟨h.dangling, ?_⟩
  rw [h.log]; simp

theorem Good.log_length {a : Nat} {d : Disk} (h : Good a d) : d.log.length = a := by
  rw [h.log]; simp

/-! ### the messages+runs sidecar -/

theorem fullAppend_mr (f : Frame) (n : Nat) (d : Disk) :
    (fullAppend f n d).mr = d.mr ++ (if f.mr then [n] else []) := by
  unfold fullAppend
  cases d.dangling <;> cases f.mr <;> simp

theorem mrSeqs_cons (f : Frame) (fs : List Frame) :
    mrSeqs (f :: fs) = (if f.mr then [0] else []) ++ (mrSeqs fs).map (· + 1) := by
  unfold mrSeqs
  rw [List.length_cons, List.range_succ_eq_map, List.filter_cons, List.filter_map]
  cases h : f.mr <;> simp [h, Function.comp_def]

theorem appendAll_mr (fs : List Frame) (n : Nat) (d : Disk) :
    (appendAll fs n d).mr = d.mr ++ (mrSeqs fs).map (· + n) := by
  induction fs generalizing n d with
  | nil => simp [appendAll, mrSeqs]
  | cons f fs ih =>
    rw [appendAll, ih, fullAppend_mr, mrSeqs_cons]
    cases f.mr <;> simp [List.map_map, Function.comp_def, Nat.add_assoc, Nat.add_comm 1 n]

/-- the state before the crash -/
theorem appendAll_empty (hist : List Frame) :
    let d := appendAll hist 0 empty
    d.dangling = none ∧ d.log = (List.range hist.length).map some ∧
      d.side = List.range hist.length ∧ d.mr = mrSeqs hist := by
  intro d
  have h : Good (0 + hist.length) d := appendAll_good hist good_empty
  rw [Nat.zero_add] at h
  refine ⟨h.dangling, h.log, h.side, ?_⟩
  show (appendAll hist 0 empty).mr = _
  rw [appendAll_mr]; simp [empty]

theorem good_hist (hist : List Frame) : Good hist.length (appendAll hist 0 empty) := by
  have h := appendAll_empty hist
  exact ⟨h.1, h.2.1, h.2.2.1⟩

/-! ### the crashed disk -/

/-- the disk after a crash at any write boundary is one of five shapes -/
theorem partialAppend_cases (f : Frame) (n k : Nat) (d : Disk) (hd : d.dangling = none) :
    partialAppend f n k d = d ∨
    (f.big = true ∧ partialAppend f n k d = { d with dangling := some n }) ∨
    partialAppend f n k d = { d with log := d.log ++ [some n] } ∨
    partialAppend f n k d = { d with log := d.log ++ [some n], side := d.side ++ [n] } ∨
    (f.mr = true ∧ partialAppend f n k d =
      { d with log := d.log ++ [some n], side := d.side ++ [n], mr := d.mr ++ [n] }) := by
  obtain ⟨l, dg, s, m⟩ := d
  simp only at hd
  subst hd
  obtain ⟨big, mr⟩ := f
  cases big <;> cases mr <;>
    rcases k with _ | _ | _ | _ | _ | _ | _ | _ | _ | _ | k <;>
    simp [partialAppend, effects, applyEff]

/-- k beyond the last effect is a complete append -/
theorem partialAppend_all (f : Frame) (n : Nat) (d : Disk) (hd : d.dangling = none) (k : Nat)
    (hk : (effects f).length ≤ k) : partialAppend f n k d = fullAppend f n d := by
  obtain ⟨l, dg, s, m⟩ := d
  simp only at hd
  subst hd
  unfold partialAppend
  rw [List.take_of_length_le hk]
  obtain ⟨big, mr⟩ := f
  cases big <;> cases mr <;> simp [effects, applyEff, fullAppend]

/-- a crash changes nothing that was acknowledged: for every k the crashed disk extends the
pre-crash disk -/
theorem partialAppend_extends (hist : List Frame) (f : Frame) (k : Nat) :
    let d0 := appendAll hist 0 empty
    let d := partialAppend f hist.length k d0
    d0.log <+: d.log ∧ d0.side <+: d.side ∧ d0.mr <+: d.mr := by
  intro d0 d
  have hd : d0.dangling = none := (good_hist hist).dangling
  rcases partialAppend_cases f hist.length k d0 hd with h | ⟨_, h⟩ | h | h | ⟨_, h⟩ <;>
    (show d0.log <+: (partialAppend f hist.length k d0).log ∧
        d0.side <+: (partialAppend f hist.length k d0).side ∧
        d0.mr <+: (partialAppend f hist.length k d0).mr) <;>
    rw [h] <;> simp

/-! ### restart -/

/-- the interrupted frame is in the log after reopening with `fixF`: the flush happened, or the body
of a large frame reached the file -/
def Reached (f : Frame) (k : Nat) : Prop := 3 ≤ k ∨ (f.big = true ∧ 1 ≤ k)

instance (f : Frame) (k : Nat) : Decidable (Reached f k) := by unfold Reached; infer_instance

/-- the crash fell after the sidecar line and before the messages+runs line of an mr frame -/
def Short (f : Frame) (k : Nat) : Prop := f.mr = true ∧ (k = 4 ∨ k = 5)

instance (f : Frame) (k : Nat) : Decidable (Short f k) := by unfold Short; infer_instance

/-- with `fixF`, the reopened disk after a crash at write boundary `k`, explicitly -/
theorem reopen_partialAppend_eq (f : Frame) (n k : Nat) (d : Disk) (hd : d.dangling = none) :
    reopen true (partialAppend f n k d) =
      if ¬ Reached f k then d
      else if k ≤ 3 then { d with log := d.log ++ [some n] }
      else if f.mr = true ∧ 6 ≤ k then
        { d with log := d.log ++ [some n], side := d.side ++ [n], mr := d.mr ++ [n] }
      else { d with log := d.log ++ [some n], side := d.side ++ [n] } := by
  obtain ⟨l, dg, s, m⟩ := d
  simp only at hd
  subst hd
  obtain ⟨big, mr⟩ := f
  cases big <;> cases mr <;>
    rcases k with _ | _ | _ | _ | _ | _ | _ | _ | _ | _ | k <;>
    simp [Reached, reopen, partialAppend, effects, applyEff]

/-- with `fixF`, reopening the crashed disk gives: nothing dangling; the interrupted frame is in the
log or not; it is in the thread cache only if it is in the log -/
theorem reopen_partialAppend (f : Frame) (n k : Nat) (d : Disk) (hd : d.dangling = none) :
    let o := reopen true (partialAppend f n k d)
    o.dangling = none ∧
    ((o.log = d.log ∧ o.side = d.side) ∨
     (o.log = d.log ++ [some n] ∧ o.side = d.side) ∨
     (o.log = d.log ++ [some n] ∧ o.side = d.side ++ [n])) := by
  intro o
  show (reopen true (partialAppend f n k d)).dangling = none ∧
      (((reopen true (partialAppend f n k d)).log = d.log ∧
          (reopen true (partialAppend f n k d)).side = d.side) ∨
       ((reopen true (partialAppend f n k d)).log = d.log ++ [some n] ∧
          (reopen true (partialAppend f n k d)).side = d.side) ∨
       ((reopen true (partialAppend f n k d)).log = d.log ++ [some n] ∧
          (reopen true (partialAppend f n k d)).side = d.side ++ [n]))
  rw [reopen_partialAppend_eq f n k d hd]
  repeat' split
  all_goals simp [hd]

/-- a reopened disk: nothing dangling, the log is `0 .. b-1`, the thread cache is the log or the log
without its last frame -/
structure Opened (b : Nat) (d : Disk) : Prop where
  dangling : d.dangling = none
  log : d.log = (List.range b).map some
  side : d.side = List.range b ∨ ∃ s, b = s + 1 ∧ d.side = List.range s

/-- the reopened disk after a crash on top of a healthy disk -/
theorem opened_of_good {a : Nat} {d : Disk} (h : Good a d) (f : Frame) (k : Nat) :
    Opened a (reopen true (partialAppend f a k d)) ∨
      Opened (a + 1) (reopen true (partialAppend f a k d)) := by
  obtain ⟨h0, h1 | h1 | h1⟩ := reopen_partialAppend f a k d h.dangling
  · exact .inl ⟨h0, by rw [h1.1, h.log], .inl (by rw [h1.2, h.side])⟩
  · exact .inr ⟨h0, by rw [h1.1, h.log, List.range_succ]; simp,
      .inr ⟨a, rfl, by rw [h1.2, h.side]⟩⟩
  · exact .inr ⟨h0, by rw [h1.1, h.log, List.range_succ]; simp,
      .inl (by rw [h1.2, h.side, List.range_succ])⟩

/-- with `fixE`, when the thread cache agrees with the log the first write after the restart takes
the next seq from the log and touches nothing -/
theorem coldStart_synced {b : Nat} {d : Disk} (isMr : Nat → Bool)
    (hl : d.log = (List.range b).map some) (hs : d.side = List.range b) :
    coldStart true isMr d = (b, d) := by
  cases b with
  | zero => simp [coldStart, hl, lastSeq]
  | succ b =>
    have hl' : lastSeq d.log = some b := by rw [hl, lastSeq_range, getLast?_range_succ]
    have hs' : d.side.getLast? = some b := by rw [hs, getLast?_range_succ]
    simp [coldStart, hl', hs']

/-- with `fixE`, when the thread cache is one frame behind the log the first write after the
restart takes the next seq from the log and rebuilds both caches from the log -/
theorem coldStart_behind {s : Nat} {d : Disk} (isMr : Nat → Bool)
    (hl : d.log = (List.range (s + 1)).map some) (hs : d.side = List.range s) :
    coldStart true isMr d =
      (s + 1, { d with side := List.range (s + 1), mr := (List.range (s + 1)).filter isMr }) := by
  have hl' : lastSeq d.log = some s := by rw [hl, lastSeq_range, getLast?_range_succ]
  have hne : d.side.getLast? ≠ some s := by
    rw [hs]
    cases s with
    | zero => simp
    | succ c => rw [getLast?_range_succ]; simp
  have hf : d.log.filterMap id = List.range (s + 1) := by rw [hl, filterMap_id_map_some]
  simp [coldStart, hl', hne, hf]

/-- with `fixE`, the first write after the restart takes the next seq from the log and leaves a
healthy disk -/
theorem coldStart_opened {b : Nat} {d : Disk} (isMr : Nat → Bool) (h : Opened b d) :
    (coldStart true isMr d).1 = b ∧ Good b (coldStart true isMr d).2 := by
  rcases h.side with hs | ⟨s, rfl, hs⟩
  · rw [coldStart_synced isMr h.log hs]
    exact ⟨rfl, h.dangling, h.log, hs⟩
  · rw [coldStart_behind isMr h.log hs]
    exact ⟨rfl, h.dangling, h.log, rfl⟩

/-! ### the story -/

/-- which frames of `hist ++ [f]` are message / run_ended frames, by seq (what `story` passes to
`coldStart`) -/
def isMrOf (hist : List Frame) (f : Frame) : Nat → Bool :=
  fun i => (((hist ++ [f])[i]?).map (·.mr)).getD false

theorem story_nil (fixE fixF : Bool) (hist : List Frame) (f : Frame) (k : Nat) :
    story fixE fixF hist f k [] =
      reopen fixF (partialAppend f hist.length k (appendAll hist 0 empty)) := rfl

theorem story_cons (fixE fixF : Bool) (hist : List Frame) (f : Frame) (k : Nat) (m : Frame)
    (ms : List Frame) :
    story fixE fixF hist f k (m :: ms) =
      appendAll (m :: ms)
        (coldStart fixE (isMrOf hist f)
          (reopen fixF (partialAppend f hist.length k (appendAll hist 0 empty)))).1
        (coldStart fixE (isMrOf hist f)
          (reopen fixF (partialAppend f hist.length k (appendAll hist 0 empty)))).2 :=
  rfl

/-- the reopened disk of the story -/
theorem story_opened (hist : List Frame) (f : Frame) (k : Nat) :
    Opened hist.length (story true true hist f k []) ∨
      Opened (hist.length + 1) (story true true hist f k []) := by
  rw [story_nil]
  exact opened_of_good (good_hist hist) f k

/-- after at least one further append the disk is healthy again, and holds the history, the
interrupted frame at most once, and the further appends -/
theorem story_good (hist : List Frame) (f : Frame) (k : Nat) (m : Frame) (ms : List Frame) :
    Good (hist.length + (m :: ms).length) (story true true hist f k (m :: ms)) ∨
      Good (hist.length + 1 + (m :: ms).length) (story true true hist f k (m :: ms)) := by
  rw [story_cons]
  rcases opened_of_good (good_hist hist) f k with h | h
  · obtain ⟨hn, hg⟩ := coldStart_opened (isMrOf hist f) h
    rw [hn]
    exact .inl (appendAll_good _ hg)
  · obtain ⟨hn, hg⟩ := coldStart_opened (isMrOf hist f) h
    rw [hn]
    exact .inr (appendAll_good _ hg)

/-- what `crash_safe` says of a disk whose log is `0 .. c-1` -/
theorem crash_safe_of_log {a c extra : Nat} {d : Disk} (hd : d.dangling = none)
    (hlog : d.log = (List.range c).map some) (hac : a ≤ c) (hc : c ≤ a + 1 + extra) :
    GapFree d ∧ a ≤ d.log.length ∧ d.log.take a = (List.range a).map some ∧
      d.log.length ≤ a + 1 + extra := by
  have hlen : d.log.length = c := by rw [hlog]; simp
  refine ⟨⟨hd, by rw [hlen, hlog]⟩, by omega, ?_, by omega⟩
  obtain ⟨j, rfl⟩ := Nat.exists_eq_add_of_le hac
  rw [hlog, ← List.map_take, take_range_add]

/-- **Main theorem** (both repairs on): a crash at any write boundary of any append after any
history leaves a store that restarts gap-free. -/
theorem crash_safe (hist : List Frame) (f : Frame) (k : Nat) (more : List Frame) :
    let d := story true true hist f k more
    GapFree d ∧
    hist.length ≤ d.log.length ∧
    d.log.take hist.length = (List.range hist.length).map some ∧
    d.log.length ≤ hist.length + 1 + more.length ∧
    (more ≠ [] → d.side = List.range d.log.length) := by
  intro d
  cases more with
  | nil =>
    have key : GapFree d ∧ hist.length ≤ d.log.length ∧
        d.log.take hist.length = (List.range hist.length).map some ∧
        d.log.length ≤ hist.length + 1 + 0 := by
      rcases story_opened hist f k with h | h
      · exact crash_safe_of_log h.dangling h.log (Nat.le_refl _) (by omega)
      · exact crash_safe_of_log h.dangling h.log (by omega) (by omega)
    exact ⟨key.1, key.2.1, key.2.2.1, key.2.2.2, fun h => absurd rfl h⟩
  | cons m ms =>
    rcases story_good hist f k m ms with h | h
    · have key := crash_safe_of_log (a := hist.length) (extra := (m :: ms).length)
        h.dangling h.log (by omega) (by omega)
      exact ⟨key.1, key.2.1, key.2.2.1, key.2.2.2, fun _ => by rw [h.log_length]; exact h.side⟩
    · have key := crash_safe_of_log (a := hist.length) (extra := (m :: ms).length)
        h.dangling h.log (by omega) (by omega)
      exact ⟨key.1, key.2.1, key.2.2.1, key.2.2.2, fun _ => by rw [h.log_length]; exact h.side⟩

/-- right after the restart, before any further append, the thread cache is a prefix of the log and
at most one frame behind -/
theorem stale_window (hist : List Frame) (f : Frame) (k : Nat) :
    let d := story true true hist f k []
    d.side <+: d.log.filterMap id ∧ (d.log.filterMap id).length ≤ d.side.length + 1 := by
  intro d
  have aux : ∀ b, Opened b d →
      d.side <+: d.log.filterMap id ∧ (d.log.filterMap id).length ≤ d.side.length + 1 := by
    intro b h
    rw [h.log, filterMap_id_map_some]
    rcases h.side with hs | ⟨s, rfl, hs⟩
    · rw [hs]; exact ⟨List.prefix_refl _, by omega⟩
    · rw [hs, List.range_succ]; exact ⟨List.prefix_append _ _, by simp⟩
  rcases story_opened hist f k with h | h
  · exact aux _ h
  · exact aux _ h

/-! ### the messages+runs sidecar after the restart -/

theorem mrSeqs_nil : mrSeqs [] = [] := rfl

theorem mrSeqs_append (xs ys : List Frame) :
    mrSeqs (xs ++ ys) = mrSeqs xs ++ (mrSeqs ys).map (· + xs.length) := by
  induction xs with
  | nil => simp [mrSeqs_nil]
  | cons x xs ih =>
    rw [List.cons_append, mrSeqs_cons, mrSeqs_cons, ih]
    simp [List.map_map, Function.comp_def, Nat.add_assoc]

theorem mrSeqs_singleton (f : Frame) : mrSeqs [f] = if f.mr then [0] else [] := by
  rw [mrSeqs_cons, mrSeqs_nil]; simp

theorem mrSeqs_snoc (hist : List Frame) (f : Frame) :
    mrSeqs (hist ++ [f]) = mrSeqs hist ++ (if f.mr then [hist.length] else []) := by
  rw [mrSeqs_append, mrSeqs_singleton]; cases f.mr <;> simp

theorem lt_of_mem_mrSeqs {x : Nat} {fs : List Frame} (h : x ∈ mrSeqs fs) : x < fs.length := by
  simp only [mrSeqs, List.mem_filter, List.mem_range] at h
  exact h.1

/-- the rebuild writes what the messages+runs sidecar should hold -/
theorem filter_isMrOf (hist : List Frame) (f : Frame) :
    (List.range (hist.length + 1)).filter (isMrOf hist f) = mrSeqs (hist ++ [f]) := by
  simp only [mrSeqs, List.length_append, List.length_singleton]
  rfl

/-- the frames whose seqs are in the final log, in order -/
def framesInLog (hist : List Frame) (f : Frame) (k : Nat) (more : List Frame) : List Frame :=
  if Reached f k then hist ++ [f] ++ more else hist ++ more

/-- the restarted disk (after the cache reconciliation of the first write), explicitly: the next
seq, a healthy disk, and the messages+runs sidecar -/
theorem restart_cases (hist : List Frame) (f : Frame) (k : Nat) :
    let r := coldStart true (isMrOf hist f)
      (reopen true (partialAppend f hist.length k (appendAll hist 0 empty)))
    (¬ Reached f k ∧ r.1 = hist.length ∧ Good hist.length r.2 ∧ r.2.mr = mrSeqs hist) ∨
    (Reached f k ∧ ¬ Short f k ∧ r.1 = hist.length + 1 ∧ Good (hist.length + 1) r.2 ∧
      r.2.mr = mrSeqs (hist ++ [f])) ∨
    (Reached f k ∧ Short f k ∧ r.1 = hist.length + 1 ∧ Good (hist.length + 1) r.2 ∧
      r.2.mr = mrSeqs hist) := by
  intro r
  have hg := good_hist hist
  have hmr : (appendAll hist 0 empty).mr = mrSeqs hist := (appendAll_empty hist).2.2.2
  have hr : r = coldStart true (isMrOf hist f)
      (reopen true (partialAppend f hist.length k (appendAll hist 0 empty))) := rfl
  rw [reopen_partialAppend_eq f hist.length k _ hg.dangling] at hr
  by_cases h1 : Reached f k
  · rw [if_neg (not_not_intro h1)] at hr
    right
    have hlog1 : (appendAll hist 0 empty).log ++ [some hist.length] =
        (List.range (hist.length + 1)).map some := by
      rw [hg.log, List.range_succ]; simp
    have hside1 : (appendAll hist 0 empty).side ++ [hist.length] = List.range (hist.length + 1) := by
      rw [hg.side, List.range_succ]
    by_cases h2 : k ≤ 3
    · -- the log has the frame, the thread cache does not: rebuild
      rw [if_pos h2, coldStart_behind (isMrOf hist f)
        (d := { appendAll hist 0 empty with
          log := (appendAll hist 0 empty).log ++ [some hist.length] }) hlog1 hg.side] at hr
      left
      refine ⟨h1, fun hs => by unfold Short at hs; omega, ?_⟩
      rw [hr]
      exact ⟨rfl, ⟨hg.dangling, hlog1, rfl⟩, filter_isMrOf hist f⟩
    · rw [if_neg h2] at hr
      by_cases h3 : f.mr = true ∧ 6 ≤ k
      · -- everything of the frame is on disk
        rw [if_pos h3, coldStart_synced (isMrOf hist f)
          (d := { appendAll hist 0 empty with
            log := (appendAll hist 0 empty).log ++ [some hist.length],
            side := (appendAll hist 0 empty).side ++ [hist.length],
            mr := (appendAll hist 0 empty).mr ++ [hist.length] }) hlog1 hside1] at hr
        left
        refine ⟨h1, fun hs => by unfold Short at hs; omega, ?_⟩
        rw [hr]
        refine ⟨rfl, ⟨hg.dangling, hlog1, hside1⟩, ?_⟩
        show (appendAll hist 0 empty).mr ++ [hist.length] = _
        rw [hmr, mrSeqs_snoc, h3.1]; rfl
      · rw [if_neg h3, coldStart_synced (isMrOf hist f)
          (d := { appendAll hist 0 empty with
            log := (appendAll hist 0 empty).log ++ [some hist.length],
            side := (appendAll hist 0 empty).side ++ [hist.length] }) hlog1 hside1] at hr
        by_cases h4 : f.mr = true
        · -- log and thread cache have the frame, the messages+runs sidecar does not
          right
          have h5 : ¬ 6 ≤ k := fun h => h3 ⟨h4, h⟩
          refine ⟨h1, ⟨h4, by omega⟩, ?_⟩
          rw [hr]
          exact ⟨rfl, ⟨hg.dangling, hlog1, hside1⟩, hmr⟩
        · left
          refine ⟨h1, fun hs => h4 hs.1, ?_⟩
          rw [hr]
          refine ⟨rfl, ⟨hg.dangling, hlog1, hside1⟩, ?_⟩
          show (appendAll hist 0 empty).mr = _
          rw [hmr, mrSeqs_snoc]; simp [h4]
  · rw [if_pos h1, coldStart_synced (isMrOf hist f) hg.log hg.side] at hr
    left
    rw [hr]
    exact ⟨h1, rfl, hg, hmr⟩

/-- the messages+runs sidecar after further appends (both repairs on): the log holds exactly
`framesInLog` (the history, the interrupted frame iff it reached the log, the further appends), and
the messages+runs sidecar is what it should be for those frames — except when the crash fell after
the sidecar line and before the messages+runs line of an mr frame (`k = 4` or `k = 5`): then the
thread cache agrees with the log, nothing is rebuilt, and the interrupted frame's seq is missing
from the messages+runs sidecar for ever. -/
theorem mr_reconciled_or_short (hist : List Frame) (f : Frame) (k : Nat) (more : List Frame)
    (hm : more ≠ []) :
    let d := story true true hist f k more
    let frames := framesInLog hist f k more
    d.log = (List.range frames.length).map some ∧
    (¬ Short f k → d.mr = mrSeqs frames) ∧
    (Short f k → d.mr = (mrSeqs frames).filter (· ≠ hist.length) ∧ d.mr ≠ mrSeqs frames) := by
  intro d frames
  cases more with
  | nil => exact absurd rfl hm
  | cons m ms =>
    have hd : d = appendAll (m :: ms)
        (coldStart true (isMrOf hist f)
          (reopen true (partialAppend f hist.length k (appendAll hist 0 empty)))).1
        (coldStart true (isMrOf hist f)
          (reopen true (partialAppend f hist.length k (appendAll hist 0 empty)))).2 :=
      story_cons true true hist f k m ms
    rcases restart_cases hist f k with ⟨hr, hn, hg, hmr⟩ | ⟨hr, hs, hn, hg, hmr⟩ |
        ⟨hr, hs, hn, hg, hmr⟩
    · -- the interrupted frame is not in the log
      have hfr : frames = hist ++ m :: ms := if_neg hr
      have hns : ¬ Short f k := fun hs => hr (by unfold Short at hs; unfold Reached; omega)
      rw [hn] at hd
      refine ⟨?_, fun _ => ?_, fun hs => absurd hs hns⟩
      · rw [hd, (appendAll_good _ hg).log, hfr]
        congr 2
        simp only [List.length_append, List.length_cons]
      · rw [hd, appendAll_mr, hmr, hfr, mrSeqs_append]
    · -- the interrupted frame is in the log and the messages+runs sidecar knows
      have hfr : frames = hist ++ [f] ++ m :: ms := if_pos hr
      rw [hn] at hd
      refine ⟨?_, fun _ => ?_, fun hs' => absurd hs' hs⟩
      · rw [hd, (appendAll_good _ hg).log, hfr]
        congr 2
        simp only [List.length_append, List.length_cons, List.length_nil] <;> omega
      · rw [hd, appendAll_mr, hmr, hfr, mrSeqs_append (hist ++ [f])]; simp
    · -- the interrupted frame is in the log and in the thread cache, not in messages+runs
      have hfr : frames = hist ++ [f] ++ m :: ms := if_pos hr
      rw [hn] at hd
      have hdmr : d.mr = mrSeqs hist ++ (mrSeqs (m :: ms)).map (· + (hist.length + 1)) := by
        rw [hd, appendAll_mr, hmr]
      have hfm : mrSeqs frames =
          mrSeqs hist ++ [hist.length] ++ (mrSeqs (m :: ms)).map (· + (hist.length + 1)) := by
        rw [hfr, mrSeqs_append (hist ++ [f]), mrSeqs_snoc, hs.1]; simp
      have hfilter : d.mr = (mrSeqs frames).filter (· ≠ hist.length) := by
        rw [hfm, hdmr, List.filter_append, List.filter_append]
        have e1 : (mrSeqs hist).filter (· ≠ hist.length) = mrSeqs hist := by
          rw [List.filter_eq_self]
          intro x hx
          have := lt_of_mem_mrSeqs hx
          simp; omega
        have e2 : ((mrSeqs (m :: ms)).map (· + (hist.length + 1))).filter (· ≠ hist.length) =
            (mrSeqs (m :: ms)).map (· + (hist.length + 1)) := by
          rw [List.filter_eq_self]
          intro x hx
          obtain ⟨y, _, rfl⟩ := List.mem_map.1 hx
          simp; omega
        rw [e1, e2]; simp
      refine ⟨?_, fun hs' => absurd hs hs', fun _ => ⟨hfilter, fun heq => ?_⟩⟩
      · rw [hd, (appendAll_good _ hg).log, hfr]
        congr 2
        simp only [List.length_append, List.length_cons, List.length_nil] <;> omega
      · have hmem : hist.length ∈ mrSeqs frames := by rw [hfm]; simp
        rw [← heq, hfilter] at hmem
        simp at hmem

/-- the same, as a disjunction -/
theorem mr_reconciled_or_short' (hist : List Frame) (f : Frame) (k : Nat) (more : List Frame)
    (hm : more ≠ []) :
    let d := story true true hist f k more
    let frames := framesInLog hist f k more
    d.mr = mrSeqs frames ∨
      (f.mr = true ∧ (k = 4 ∨ k = 5) ∧ d.mr = (mrSeqs frames).filter (· ≠ hist.length)) := by
  intro d frames
  obtain ⟨_, h1, h2⟩ := mr_reconciled_or_short hist f k more hm
  by_cases hs : Short f k
  · exact .inr ⟨hs.1, hs.2, (h2 hs).1⟩
  · exact .inl (h1 hs)

end Rip.Crash
