import Rip.Model.Frames
namespace Rip.Frames
open Rip.Proto

theorem push_frames (s : FrameStore) (f : Frame) :
    (s.push f).frames = if s.frames.length ≥ s.cap then s.frames.tail ++ [f] else s.frames ++ [f] := by
  unfold FrameStore.push
  by_cases h : s.frames.length ≥ s.cap <;> simp [h]

theorem push_cap (s : FrameStore) (f : Frame) : (s.push f).cap = s.cap := by
  unfold FrameStore.push
  by_cases h : s.frames.length ≥ s.cap <;> simp [h]

theorem push_len_le (s : FrameStore) (f : Frame) (hc : 1 ≤ s.cap) (h : s.frames.length ≤ s.cap) :
    (s.push f).frames.length ≤ s.cap := by
  rw [push_frames]
  split
  · simp; omega
  · simp; omega

theorem advance_ge (s : Bytes) (start fuel : Nat) : start ≤ advance s start fuel := by
  induction fuel generalizing start with
  | zero => simp [advance]
  | succ n ih =>
    unfold advance
    split
    · exact Nat.le_trans (Nat.le_succ _) (ih _)
    · exact Nat.le_refl _

theorem advance_post (s : Bytes) (start fuel : Nat) (hf : s.length - start ≤ fuel) :
    s.length ≤ advance s start fuel ∨ isBoundary s (advance s start fuel) = true := by
  induction fuel generalizing start with
  | zero => left; simp [advance]; omega
  | succ n ih =>
    unfold advance
    split
    · exact ih _ (by omega)
    · rename_i h
      by_cases h1 : start < s.length
      · right
        cases hb : isBoundary s start with
        | true => rfl
        | false => exact absurd ⟨h1, by simp [hb]⟩ h
      · left; omega

theorem pushBounded_len (target chunk : Bytes) (maxLen : Nat) (h : target.length ≤ maxLen) :
    (pushBounded target chunk maxLen).1.length ≤ maxLen := by
  unfold pushBounded
  split
  · exact h
  · simp only
    split
    · assumption
    · simp only [List.length_drop]
      have := advance_ge (target ++ chunk) ((target ++ chunk).length - maxLen / 2) (target ++ chunk).length
      have : maxLen / 2 ≤ maxLen := Nat.div_le_self _ _
      omega

end Rip.Frames

namespace Rip.Frames
open Rip.Proto

/-- The bounds `TuiState` is configured with, as an invariant of the fold. -/
structure Tui.Inv (t : Tui) : Prop where
  cap_pos : 1 ≤ t.frames.cap
  frames_le : t.frames.frames.length ≤ t.frames.cap
  out_le : t.output.length ≤ t.maxOut
  tools_le : ∀ x ∈ t.tools, x.out.length ≤ t.maxPrev ∧ x.err.length ≤ t.maxPrev
  tasks_le : ∀ x ∈ t.tasks, x.out.length ≤ t.maxPrev ∧ x.err.length ≤ t.maxPrev ∧ x.pty.length ≤ t.maxPrev

theorem Tui.inv_new (a b c : Nat) : (Tui.new a b c).Inv := by
  constructor <;> simp [Tui.new, FrameStore.new] <;> omega

theorem Tui.inv_pushOutput (t : Tui) (d : Bytes) (h : t.Inv) : (t.pushOutput d).Inv := by
  have := pushBounded_len t.output d t.maxOut h.out_le
  constructor
  · exact h.cap_pos
  · exact h.frames_le
  · simpa [Tui.pushOutput] using this
  · exact h.tools_le
  · exact h.tasks_le

theorem Tui.inv_head (t : Tui) (f : Frame) (h : t.Inv) : (t.head f).Inv := by
  unfold Tui.head
  split <;> split <;> exact ⟨h.cap_pos, h.frames_le, h.out_le, h.tools_le, h.tasks_le⟩

theorem Tui.inv_marks (t : Tui) (f : Frame) (h : t.Inv) : (t.marks f).Inv := by
  unfold Tui.marks
  split
  · split
    · exact ⟨h.cap_pos, h.frames_le, h.out_le, h.tools_le, h.tasks_le⟩
    · apply Tui.inv_pushOutput; apply Tui.inv_pushOutput; apply Tui.inv_pushOutput
      exact ⟨h.cap_pos, h.frames_le, h.out_le, h.tools_le, h.tasks_le⟩
  · exact ⟨h.cap_pos, h.frames_le, h.out_le, h.tools_le, h.tasks_le⟩
  · exact ⟨h.cap_pos, h.frames_le, h.out_le, h.tools_le, h.tasks_le⟩
  · exact ⟨h.cap_pos, h.frames_le, h.out_le, h.tools_le, h.tasks_le⟩
  · exact ⟨h.cap_pos, h.frames_le, h.out_le, h.tools_le, h.tasks_le⟩
  · apply Tui.inv_pushOutput
    exact ⟨h.cap_pos, h.frames_le, h.out_le, h.tools_le, h.tasks_le⟩
  · exact ⟨h.cap_pos, h.frames_le, h.out_le, h.tools_le, h.tasks_le⟩
  · split <;> exact ⟨h.cap_pos, h.frames_le, h.out_le, h.tools_le, h.tasks_le⟩
  · exact ⟨h.cap_pos, h.frames_le, h.out_le, h.tools_le, h.tasks_le⟩
  · exact h

theorem mem_updTool {ts : List Tool} {id : Bytes} {g : Tool → Tool} {x : Tool}
    (hx : x ∈ updTool ts id g) : x ∈ ts ∨ ∃ y ∈ ts, x = g y := by
  unfold updTool at hx
  rcases List.mem_map.mp hx with ⟨y, hy, rfl⟩
  split
  · right; exact ⟨y, hy, rfl⟩
  · left; exact hy

theorem mem_insTool {ts : List Tool} {n x : Tool} (hx : x ∈ insTool ts n) : x ∈ ts ∨ x = n := by
  unfold insTool at hx
  split at hx
  · rcases List.mem_map.mp hx with ⟨y, hy, rfl⟩
    split
    · right; rfl
    · left; exact hy
  · rcases List.mem_append.mp hx with h | h
    · left; exact h
    · right; simpa using h

theorem mem_updTask {ts : List Task} {id : Bytes} {g : Task → Task} {x : Task}
    (hx : x ∈ updTask ts id g) : x ∈ ts ∨ ∃ y ∈ ts, x = g y := by
  unfold updTask at hx
  rcases List.mem_map.mp hx with ⟨y, hy, rfl⟩
  split
  · right; exact ⟨y, hy, rfl⟩
  · left; exact hy

theorem mem_insTask {ts : List Task} {n x : Task} (hx : x ∈ insTask ts n) : x ∈ ts ∨ x = n := by
  unfold insTask at hx
  split at hx
  · rcases List.mem_map.mp hx with ⟨y, hy, rfl⟩
    split
    · right; rfl
    · left; exact hy
  · rcases List.mem_append.mp hx with h | h
    · left; exact h
    · right; simpa using h

theorem Tui.inv_ingest (t : Tui) (f : Frame) (h : t.Inv) : (t.ingest f).Inv := by
  unfold Tui.ingest
  split
  · refine ⟨h.cap_pos, h.frames_le, h.out_le, ?_, h.tasks_le⟩
    intro x hx
    rcases mem_insTool hx with hx | rfl
    · exact h.tools_le x hx
    · simp
  · refine ⟨h.cap_pos, h.frames_le, h.out_le, ?_, h.tasks_le⟩
    intro x hx
    rcases mem_updTool hx with hx | ⟨y, hy, rfl⟩
    · exact h.tools_le x hx
    · exact ⟨pushBounded_len _ _ _ (h.tools_le y hy).1, (h.tools_le y hy).2⟩
  · refine ⟨h.cap_pos, h.frames_le, h.out_le, ?_, h.tasks_le⟩
    intro x hx
    rcases mem_updTool hx with hx | ⟨y, hy, rfl⟩
    · exact h.tools_le x hx
    · exact ⟨(h.tools_le y hy).1, pushBounded_len _ _ _ (h.tools_le y hy).2⟩
  · refine ⟨h.cap_pos, h.frames_le, h.out_le, ?_, h.tasks_le⟩
    intro x hx
    rcases mem_updTool hx with hx | ⟨y, hy, rfl⟩
    · exact h.tools_le x hx
    · exact h.tools_le y hy
  · refine ⟨h.cap_pos, h.frames_le, h.out_le, ?_, h.tasks_le⟩
    intro x hx
    rcases mem_updTool hx with hx | ⟨y, hy, rfl⟩
    · exact h.tools_le x hx
    · exact h.tools_le y hy
  · refine ⟨h.cap_pos, h.frames_le, h.out_le, h.tools_le, ?_⟩
    intro x hx
    rcases mem_insTask hx with hx | rfl
    · exact h.tasks_le x hx
    · simp
  · split
    · refine ⟨h.cap_pos, h.frames_le, h.out_le, h.tools_le, ?_⟩
      intro x hx
      rcases mem_updTask hx with hx | ⟨y, hy, rfl⟩
      · exact h.tasks_le x hx
      · exact h.tasks_le y hy
    · refine ⟨h.cap_pos, h.frames_le, h.out_le, h.tools_le, ?_⟩
      intro x hx
      rcases List.mem_append.mp hx with hx | hx
      · exact h.tasks_le x hx
      · simp at hx; subst hx; simp
  · refine ⟨h.cap_pos, h.frames_le, h.out_le, h.tools_le, ?_⟩
    intro x hx
    rcases mem_updTask hx with hx | ⟨y, hy, rfl⟩
    · exact h.tasks_le x hx
    · have hy' := h.tasks_le y hy
      split
      · exact ⟨pushBounded_len _ _ _ hy'.1, hy'.2.1, hy'.2.2⟩
      · exact ⟨hy'.1, pushBounded_len _ _ _ hy'.2.1, hy'.2.2⟩
      · exact ⟨hy'.1, hy'.2.1, pushBounded_len _ _ _ hy'.2.2⟩
  · exact h

theorem Tui.inv_store (t : Tui) (f : Frame) (h : t.Inv) : (t.store f).Inv := by
  have h1 := push_len_le t.frames f h.cap_pos h.frames_le
  have h2 := push_cap t.frames f
  unfold Tui.store
  split
  · exact ⟨by simpa [h2] using h.cap_pos, by simpa [h2] using h1, h.out_le, h.tools_le, h.tasks_le⟩
  · exact ⟨by simpa [h2] using h.cap_pos, by simpa [h2] using h1, h.out_le, h.tools_le, h.tasks_le⟩

theorem Tui.inv_update (t : Tui) (f : Frame) (h : t.Inv) : (t.update f).Inv := by
  unfold Tui.update
  exact Tui.inv_store _ _ (Tui.inv_ingest _ _ (Tui.inv_marks _ _ (Tui.inv_head _ _ h)))

theorem Tui.inv_run (t : Tui) (fs : List Frame) (h : t.Inv) : (t.run fs).Inv := by
  induction fs generalizing t with
  | nil => exact h
  | cons f fs ih => exact ih _ (Tui.inv_update t f h)

/-! the three configured sizes never change -/
structure Tui.SameCfg (a b : Tui) : Prop where
  cap : b.frames.cap = a.frames.cap
  maxOut : b.maxOut = a.maxOut
  maxPrev : b.maxPrev = a.maxPrev

theorem Tui.cfg_update (t : Tui) (f : Frame) : Tui.SameCfg t (t.update f) := by
  have hp : ∀ (t : Tui) d, (t.pushOutput d).frames = t.frames ∧ (t.pushOutput d).maxOut = t.maxOut
      ∧ (t.pushOutput d).maxPrev = t.maxPrev := by intro t d; simp [Tui.pushOutput]
  have h1 : Tui.SameCfg t (t.head f) := by
    unfold Tui.head; split <;> split <;> exact ⟨rfl, rfl, rfl⟩
  have h2 : ∀ t : Tui, Tui.SameCfg t (t.marks f) := by
    intro t; unfold Tui.marks
    split
    · split
      · exact ⟨rfl, rfl, rfl⟩
      · constructor <;> simp [hp]
    all_goals first | exact ⟨rfl, rfl, rfl⟩ | (constructor <;> simp [hp]) | (split <;> exact ⟨rfl, rfl, rfl⟩)
  have h3 : ∀ t : Tui, Tui.SameCfg t (t.ingest f) := by
    intro t; unfold Tui.ingest
    split
    all_goals first | exact ⟨rfl, rfl, rfl⟩ | (split <;> exact ⟨rfl, rfl, rfl⟩)
  have h4 : ∀ t : Tui, Tui.SameCfg t (t.store f) := by
    intro t; unfold Tui.store
    split <;> exact ⟨by simp [push_cap], rfl, rfl⟩
  unfold Tui.update
  have a := h1; have b := h2 (t.head f); have c := h3 ((t.head f).marks f)
  have d := h4 (((t.head f).marks f).ingest f)
  exact ⟨by rw [d.cap, c.cap, b.cap, a.cap], by rw [d.maxOut, c.maxOut, b.maxOut, a.maxOut],
    by rw [d.maxPrev, c.maxPrev, b.maxPrev, a.maxPrev]⟩

theorem Tui.cfg_run (t : Tui) (fs : List Frame) : Tui.SameCfg t (t.run fs) := by
  induction fs generalizing t with
  | nil => exact ⟨rfl, rfl, rfl⟩
  | cons f fs ih =>
    have a := Tui.cfg_update t f
    have b := ih (t.update f)
    exact ⟨by rw [show (t.run (f :: fs)) = (t.update f).run fs from rfl, b.cap, a.cap],
      by rw [show (t.run (f :: fs)) = (t.update f).run fs from rfl, b.maxOut, a.maxOut],
      by rw [show (t.run (f :: fs)) = (t.update f).run fs from rfl, b.maxPrev, a.maxPrev]⟩

end Rip.Frames
