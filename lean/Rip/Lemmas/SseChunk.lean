import Rip.Lemmas.Sse
namespace Rip.Sse
open Rip.Proto Rip.Utf8

/-! ### `step`: monotonicity under appending bytes, and bounds -/

theorem step_ok_append (s t : Bytes) (n : Nat) (h : step s = .ok n) : step (s ++ t) = .ok n := by
  rcases s with _ | ⟨b0, _ | ⟨b1, _ | ⟨b2, _ | ⟨b3, r⟩⟩⟩⟩ <;>
    simp only [step, List.cons_append, List.nil_append] at h ⊢ <;>
    (repeat' split at h) <;> simp_all <;>
    (intro hlt; exact absurd hlt (UInt8.not_lt.mpr ‹_›))

theorem step_invalid_append (s t : Bytes) (e : Nat) (h : step s = .invalid e) :
    step (s ++ t) = .invalid e := by
  rcases s with _ | ⟨b0, _ | ⟨b1, _ | ⟨b2, _ | ⟨b3, r⟩⟩⟩⟩ <;>
    simp only [step, List.cons_append, List.nil_append] at h ⊢ <;>
    (repeat' split at h) <;> simp_all

theorem step_ok_bound (s : Bytes) (n : Nat) (h : step s = .ok n) : 1 ≤ n ∧ n ≤ s.length := by
  rcases s with _ | ⟨b0, _ | ⟨b1, _ | ⟨b2, _ | ⟨b3, r⟩⟩⟩⟩ <;>
    simp only [step] at h <;>
    (repeat' split at h) <;> simp_all <;> omega

theorem step_invalid_bound (s : Bytes) (e : Nat) (h : step s = .invalid e) :
    1 ≤ e ∧ e ≤ s.length := by
  rcases s with _ | ⟨b0, _ | ⟨b1, _ | ⟨b2, _ | ⟨b3, r⟩⟩⟩⟩ <;>
    simp only [step] at h <;>
    (repeat' split at h) <;> simp_all <;> omega


theorem step_nil : step [] = .incomplete := rfl

/-! ### `validateAux`: one unfolding step -/

theorem validateAux_nil (pos fuel : Nat) : validateAux [] pos fuel = none := by
  cases fuel <;> rfl

theorem validateAux_ok {s : Bytes} {n : Nat} (pos f : Nat) (h : step s = .ok n) :
    validateAux s pos (f + 1) = validateAux (s.drop n) (pos + n) f := by
  cases s with
  | nil => simp [step] at h
  | cons x xs => simp only [validateAux, h]

theorem validateAux_invalid {s : Bytes} {e : Nat} (pos f : Nat) (h : step s = .invalid e) :
    validateAux s pos (f + 1) = some (pos, some e) := by
  cases s with
  | nil => simp [step] at h
  | cons x xs => simp only [validateAux, h]

theorem validateAux_incomplete {s : Bytes} (pos f : Nat) (hne : s ≠ []) (h : step s = .incomplete) :
    validateAux s pos (f + 1) = some (pos, none) := by
  cases s with
  | nil => exact absurd rfl hne
  | cons x xs => simp only [validateAux, h]

/-! ### lossy decoding of a carry buffer, as a relation

`Lossy s t l`: scanning `s` scalar by scalar, copying complete scalars, replacing every maximal
invalid sequence by U+FFFD and stopping at an incomplete tail, yields the text `t` and the
leftover (incomplete tail, or `[]`) `l`. -/

inductive Lossy : Bytes → Bytes → Bytes → Prop
  | nil : Lossy [] [] []
  | ok {s t l : Bytes} {n : Nat} :
      step s = .ok n → Lossy (s.drop n) t l → Lossy s (s.take n ++ t) l
  | invalid {s t l : Bytes} {e : Nat} :
      step s = .invalid e → Lossy (s.drop e) t l → Lossy s (fffd ++ t) l
  | incomplete {s : Bytes} : s ≠ [] → step s = .incomplete → Lossy s [] s

theorem lossy_exists_aux : ∀ (n : Nat) (s : Bytes), s.length ≤ n → ∃ t l, Lossy s t l := by
  intro n
  induction n with
  | zero =>
    intro s hs
    have : s = [] := List.eq_nil_of_length_eq_zero (by omega)
    subst this
    exact ⟨[], [], .nil⟩
  | succ n ih =>
    intro s hs
    by_cases hne : s = []
    · subst hne; exact ⟨[], [], .nil⟩
    · cases hst : step s with
      | ok k =>
        have hb := step_ok_bound s k hst
        obtain ⟨t, l, h⟩ := ih (s.drop k) (by rw [List.length_drop]; omega)
        exact ⟨_, _, .ok hst h⟩
      | invalid e =>
        have hb := step_invalid_bound s e hst
        obtain ⟨t, l, h⟩ := ih (s.drop e) (by rw [List.length_drop]; omega)
        exact ⟨_, _, .invalid hst h⟩
      | incomplete => exact ⟨_, _, .incomplete hne hst⟩

theorem lossy_exists (s : Bytes) : ∃ t l, Lossy s t l := lossy_exists_aux s.length s (Nat.le_refl _)

/-- Processing `a` first and then the leftover followed by `b` is processing `a ++ b`. -/
theorem Lossy.append {a t l b t' l' : Bytes} (h : Lossy a t l) (h' : Lossy (l ++ b) t' l') :
    Lossy (a ++ b) (t ++ t') l' := by
  induction h with
  | nil => simpa using h'
  | @ok s t0 l0 n hs _ ih =>
    have hb := step_ok_bound _ _ hs
    have e1 : (s ++ b).drop n = s.drop n ++ b := List.drop_append_of_le_length hb.2
    have e2 : (s ++ b).take n = s.take n := List.take_append_of_le_length hb.2
    have := Lossy.ok (step_ok_append s b n hs) (by rw [e1]; exact ih h')
    rw [e2] at this
    simpa [List.append_assoc] using this
  | @invalid s t0 l0 e hs _ ih =>
    have hb := step_invalid_bound _ _ hs
    have e1 : (s ++ b).drop e = s.drop e ++ b := List.drop_append_of_le_length hb.2
    have := Lossy.invalid (step_invalid_append s b e hs) (by rw [e1]; exact ih h')
    simpa [List.append_assoc] using this
  | incomplete hne hs => simpa using h'

theorem Lossy.of_incomplete {s t l : Bytes} (hs : step s = .incomplete) (h : Lossy s t l) :
    t = [] ∧ l = s := by
  cases h with
  | nil => exact ⟨rfl, rfl⟩
  | ok h1 _ => rw [hs] at h1; cases h1
  | invalid h1 _ => rw [hs] at h1; cases h1
  | incomplete _ _ => exact ⟨rfl, rfl⟩

theorem Lossy.of_invalid {s t l : Bytes} {e : Nat} (hs : step s = .invalid e) (h : Lossy s t l) :
    ∃ t', t = fffd ++ t' ∧ Lossy (s.drop e) t' l := by
  cases h with
  | nil => simp [step] at hs
  | ok h1 _ => rw [hs] at h1; cases h1
  | invalid h1 h2 => rw [hs] at h1; cases h1; exact ⟨_, rfl, h2⟩
  | incomplete _ h1 => rw [hs] at h1; cases h1

/-! ### `validate` in terms of `Lossy` -/

def errStep : Option Nat → Step
  | some e => .invalid e
  | none => .incomplete

theorem validateAux_none {s t l : Bytes} (h : Lossy s t l) :
    ∀ pos fuel, s.length + 1 ≤ fuel → validateAux s pos fuel = none → t = s ∧ l = [] := by
  induction h with
  | nil => intros; exact ⟨rfl, rfl⟩
  | @ok s t0 l0 n hs _ ih =>
    intro pos fuel hf hv
    have hb := step_ok_bound _ _ hs
    obtain ⟨f, rfl⟩ : ∃ f, fuel = f + 1 := ⟨fuel - 1, by omega⟩
    rw [validateAux_ok pos f hs] at hv
    obtain ⟨rfl, rfl⟩ := ih _ f (by rw [List.length_drop]; omega) hv
    exact ⟨List.take_append_drop n s, rfl⟩
  | @invalid s t0 l0 e hs _ ih =>
    intro pos fuel hf hv
    obtain ⟨f, rfl⟩ : ∃ f, fuel = f + 1 := ⟨fuel - 1, by omega⟩
    rw [validateAux_invalid pos f hs] at hv
    cases hv
  | @incomplete s hne hs =>
    intro pos fuel hf hv
    obtain ⟨f, rfl⟩ : ∃ f, fuel = f + 1 := ⟨fuel - 1, by omega⟩
    rw [validateAux_incomplete pos f hne hs] at hv
    cases hv

theorem validateAux_some {s t l : Bytes} (h : Lossy s t l) :
    ∀ pos fuel w err, s.length + 1 ≤ fuel → validateAux s pos fuel = some (w, err) →
      ∃ v t', w = pos + v ∧ t = s.take v ++ t' ∧ Lossy (s.drop v) t' l ∧ s.drop v ≠ [] ∧
        step (s.drop v) = errStep err := by
  induction h with
  | nil => intro pos fuel w err _ hv; rw [validateAux_nil] at hv; cases hv
  | @ok s t0 l0 n hs _ ih =>
    intro pos fuel w err hf hv
    have hb := step_ok_bound _ _ hs
    obtain ⟨f, rfl⟩ : ∃ f, fuel = f + 1 := ⟨fuel - 1, by omega⟩
    rw [validateAux_ok pos f hs] at hv
    obtain ⟨v, t', rfl, rfl, hL, hne, hst⟩ := ih _ f w err (by rw [List.length_drop]; omega) hv
    refine ⟨n + v, t', by omega, ?_, ?_, ?_, ?_⟩
    · rw [List.take_add, List.append_assoc]
    · rw [List.drop_drop] at hL; exact hL
    · rw [List.drop_drop] at hne; exact hne
    · rw [List.drop_drop] at hst; exact hst
  | @invalid s t0 l0 e hs hsub ih =>
    intro pos fuel w err hf hv
    obtain ⟨f, rfl⟩ : ∃ f, fuel = f + 1 := ⟨fuel - 1, by omega⟩
    rw [validateAux_invalid pos f hs] at hv
    cases hv
    have hne : s ≠ [] := by intro h0; rw [h0] at hs; cases hs
    exact ⟨0, fffd ++ t0, rfl, by simp, by simpa using Lossy.invalid hs hsub, by simpa using hne,
      by simpa [errStep] using hs⟩
  | @incomplete s hne hs =>
    intro pos fuel w err hf hv
    obtain ⟨f, rfl⟩ : ∃ f, fuel = f + 1 := ⟨fuel - 1, by omega⟩
    rw [validateAux_incomplete pos f hne hs] at hv
    cases hv
    exact ⟨0, [], rfl, by simp, by simpa using Lossy.incomplete hne hs, by simpa using hne,
      by simpa [errStep] using hs⟩

theorem validate_none {s t l : Bytes} (h : Lossy s t l) (hv : validate s = none) :
    t = s ∧ l = [] :=
  validateAux_none h 0 (s.length + 1) (Nat.le_refl _) hv

theorem validate_some {s t l : Bytes} {v : Nat} {err : Option Nat} (h : Lossy s t l)
    (hv : validate s = some (v, err)) :
    ∃ t', t = s.take v ++ t' ∧ Lossy (s.drop v) t' l ∧ s.drop v ≠ [] ∧
      step (s.drop v) = errStep err := by
  obtain ⟨v', t', hw, rest⟩ := validateAux_some h 0 (s.length + 1) v err (Nat.le_refl _) hv
  have : v' = v := by omega
  subst this
  exact ⟨t', rest⟩

/-! ### `uptoDone`, `mapAll` and concatenation -/

theorem any_uptoDone (xs : List Parsed) : (uptoDone xs).any isDone = xs.any isDone := by
  induction xs with
  | nil => rfl
  | cons p ps ih =>
    simp only [uptoDone]
    split <;> simp_all

theorem uptoDone_append_of_any (xs ys : List Parsed) (h : xs.any isDone = true) :
    uptoDone (xs ++ ys) = uptoDone xs := by
  induction xs with
  | nil => simp at h
  | cons p ps ih =>
    simp only [List.cons_append, uptoDone]
    split
    · rfl
    · rename_i hp
      simp only [List.any_cons, hp, Bool.false_or] at h
      rw [ih h]

theorem uptoDone_append_of_not_any (xs ys : List Parsed) (h : xs.any isDone = false) :
    uptoDone (xs ++ ys) = xs ++ uptoDone ys := by
  induction xs with
  | nil => rfl
  | cons p ps ih =>
    simp only [List.any_cons, Bool.or_eq_false_iff] at h
    simp only [List.cons_append, uptoDone, h.1]
    rw [ih h.2]
    simp

theorem uptoDone_of_not_any (xs : List Parsed) (h : xs.any isDone = false) : uptoDone xs = xs := by
  have := uptoDone_append_of_not_any xs [] h
  simpa [uptoDone] using this

theorem mapAll_append (δ : Bytes → Option Bytes) (s : Nat) (xs ys : List Parsed) :
    mapAll δ s (xs ++ ys) = mapAll δ s xs ++ mapAll δ (s + (mapAll δ s xs).length) ys := by
  induction xs generalizing s with
  | nil => simp [mapAll]
  | cons p ps ih =>
    simp only [List.cons_append, mapAll, ih, List.append_assoc, List.length_append, Nat.add_assoc]

/-! ### `pushStr` field by field, and concatenation of pushes -/

def Pipe.withCarry (p : Pipe) (c : Bytes) : Pipe := { p with carry := c }

/-- the (truncated) events produced by pushing `t` -/
def Pipe.evs (p : Pipe) (t : Bytes) : List Parsed := uptoDone (p.dec.feed t).2

theorem pushStr_eq (δ : Bytes → Option Bytes) (p : Pipe) (t : Bytes) :
    p.pushStr δ t =
      { p with dec := (p.dec.feed t).1, seq := p.seq + (mapAll δ p.seq (p.evs t)).length,
               out := p.out ++ mapAll δ p.seq (p.evs t), done := (p.evs t).any isDone } := rfl

@[simp] theorem withCarry_carry (p : Pipe) (c : Bytes) : (p.withCarry c).carry = c := rfl
@[simp] theorem withCarry_dec (p : Pipe) (c : Bytes) : (p.withCarry c).dec = p.dec := rfl
@[simp] theorem withCarry_seq (p : Pipe) (c : Bytes) : (p.withCarry c).seq = p.seq := rfl
@[simp] theorem withCarry_out (p : Pipe) (c : Bytes) : (p.withCarry c).out = p.out := rfl
@[simp] theorem withCarry_done (p : Pipe) (c : Bytes) : (p.withCarry c).done = p.done := rfl
@[simp] theorem withCarry_withCarry (p : Pipe) (c c' : Bytes) :
    (p.withCarry c).withCarry c' = p.withCarry c' := rfl
@[simp] theorem pushStr_withCarry (δ : Bytes → Option Bytes) (p : Pipe) (c t : Bytes) :
    (p.withCarry c).pushStr δ t = (p.pushStr δ t).withCarry c := rfl
@[simp] theorem pushStr_carry (δ : Bytes → Option Bytes) (p : Pipe) (t : Bytes) :
    (p.pushStr δ t).carry = p.carry := rfl
theorem withCarry_self (p : Pipe) : p.withCarry p.carry = p := rfl

theorem clear_eq (p : Pipe) : p.clear = p.withCarry [] := rfl
theorem replace_eq (δ : Bytes → Option Bytes) (p : Pipe) (e : Nat) :
    p.replace δ e = (p.pushStr δ fffd).withCarry (p.carry.drop e) := rfl
theorem pushValid_eq (δ : Bytes → Option Bytes) (p : Pipe) (n : Nat) :
    p.pushValid δ n = (p.pushStr δ (p.carry.take n)).withCarry (p.carry.drop n) := rfl

theorem evs_append_of_done (p : Pipe) (x y : Bytes) (h : (p.evs x).any isDone = true) :
    p.evs (x ++ y) = p.evs x := by
  unfold Pipe.evs at *
  rw [any_uptoDone] at h
  rw [feed_append]
  exact uptoDone_append_of_any _ _ h

theorem evs_append_of_not_done (p : Pipe) (x y : Bytes) (h : (p.evs x).any isDone = false) :
    p.evs (x ++ y) = p.evs x ++ uptoDone ((p.dec.feed x).1.feed y).2 := by
  unfold Pipe.evs at *
  rw [any_uptoDone] at h
  rw [feed_append, uptoDone_append_of_not_any _ _ h, uptoDone_of_not_any _ h]

/-- two pushes = one push of the concatenation, provided the first did not see `[DONE]` -/
theorem pushStr_pushStr (δ : Bytes → Option Bytes) (p : Pipe) (x y : Bytes)
    (h : (p.pushStr δ x).done = false) :
    (p.pushStr δ x).pushStr δ y = p.pushStr δ (x ++ y) := by
  have h' : (p.evs x).any isDone = false := h
  rw [pushStr_eq δ p (x ++ y), evs_append_of_not_done p x y h', pushStr_eq δ (p.pushStr δ x) y]
  have hd : (p.pushStr δ x).dec = (p.dec.feed x).1 := rfl
  have hs : (p.pushStr δ x).seq = p.seq + (mapAll δ p.seq (p.evs x)).length := rfl
  have ho : (p.pushStr δ x).out = p.out ++ mapAll δ p.seq (p.evs x) := rfl
  have he : (p.pushStr δ x).evs y = uptoDone ((p.dec.feed x).1.feed y).2 := rfl
  rw [he, hd, hs, ho, feed_append, mapAll_append]
  simp only [List.length_append, List.any_append, h', Bool.false_or, List.append_assoc,
    Nat.add_assoc]
  rfl

/-! ### equivalence of pipe states (what the read loop can still observe) -/

def Equiv (p q : Pipe) : Prop :=
  p.out = q.out ∧ p.seq = q.seq ∧ p.done = q.done ∧
    (p.done = false → p.dec = q.dec ∧ p.carry = q.carry)

theorem Equiv.refl (p : Pipe) : Equiv p p := ⟨rfl, rfl, rfl, fun _ => ⟨rfl, rfl⟩⟩

theorem Equiv.symm {p q : Pipe} (h : Equiv p q) : Equiv q p :=
  ⟨h.1.symm, h.2.1.symm, h.2.2.1.symm, fun hq =>
    have := h.2.2.2 (h.2.2.1.trans hq); ⟨this.1.symm, this.2.symm⟩⟩

theorem Equiv.trans {p q r : Pipe} (h : Equiv p q) (h' : Equiv q r) : Equiv p r :=
  ⟨h.1.trans h'.1, h.2.1.trans h'.2.1, h.2.2.1.trans h'.2.2.1, fun hp =>
    have a := h.2.2.2 hp
    have b := h'.2.2.2 (h.2.2.1.symm.trans hp)
    ⟨a.1.trans b.1, a.2.trans b.2⟩⟩

theorem Equiv.of_done {p q : Pipe} (ho : p.out = q.out) (hs : p.seq = q.seq)
    (hp : p.done = true) (hq : q.done = true) : Equiv p q :=
  ⟨ho, hs, hp.trans hq.symm, fun h => by rw [hp] at h; cases h⟩

theorem Equiv.eq_of_not_done {p q : Pipe} (h : Equiv p q) (hp : p.done = false) : p = q := by
  obtain ⟨h1, h2, h3, h4⟩ := h
  obtain ⟨h5, h6⟩ := h4 hp
  cases p; cases q
  simp_all

/-- the state after pushing text `t` and leaving `l` in the carry buffer -/
def spec (δ : Bytes → Option Bytes) (p : Pipe) (t l : Bytes) : Pipe := (p.pushStr δ t).withCarry l

/-- once a push has seen `[DONE]`, further text is invisible -/
theorem equiv_of_done_prefix (δ : Bytes → Option Bytes) (p : Pipe) (x y c c' : Bytes)
    (h : (p.pushStr δ x).done = true) :
    Equiv ((p.pushStr δ x).withCarry c) ((p.pushStr δ (x ++ y)).withCarry c') := by
  have h' : (p.evs x).any isDone = true := h
  have e : p.evs (x ++ y) = p.evs x := evs_append_of_done p x y h'
  apply Equiv.of_done
  · simp only [withCarry_out, pushStr_eq, e]
  · simp only [withCarry_seq, pushStr_eq, e]
  · exact h
  · simp only [withCarry_done, pushStr_eq, e]; exact h'

theorem equiv_spec_nil (δ : Bytes → Option Bytes) (p : Pipe) (h : p.done = false) :
    Equiv p (spec δ p [] p.carry) := by
  refine ⟨?_, ?_, ?_, fun _ => ⟨?_, ?_⟩⟩ <;>
    simp [spec, pushStr_eq, Pipe.evs, Dec.feed, uptoDone, mapAll, h]

/-! ### `drain` computes the lossy decoding of the carry buffer -/

theorem drain_spec (δ : Bytes → Option Bytes) :
    ∀ (fuel : Nat) (p : Pipe) (t l : Bytes), p.done = false → p.carry.length + 1 ≤ fuel →
      Lossy p.carry t l → Equiv (p.drain δ fuel) (spec δ p t l) := by
  intro fuel
  induction fuel with
  | zero => intro p t l _ hf; omega
  | succ n ih =>
    intro p t l hd hf hL
    unfold Pipe.drain
    split
    · -- the whole buffer is valid
      rename_i hv
      obtain ⟨rfl, rfl⟩ := validate_none hL hv
      exact Equiv.refl _
    · -- only an incomplete sequence
      rename_i hv
      obtain ⟨t', ht, hL', hne, hst⟩ := validate_some hL hv
      simp only [List.take_zero, List.drop_zero, List.nil_append, errStep] at ht hL' hne hst
      obtain ⟨rfl, rfl⟩ := Lossy.of_incomplete hst hL'
      subst ht
      exact equiv_spec_nil δ p hd
    · -- an invalid sequence at the head
      rename_i e hv
      obtain ⟨t', ht, hL', hne, hst⟩ := validate_some hL hv
      simp only [List.take_zero, List.drop_zero, List.nil_append, errStep] at ht hL' hne hst
      obtain ⟨t'', rfl, hL''⟩ := Lossy.of_invalid hst hL'
      subst ht
      have hb := step_invalid_bound _ _ hst
      rw [replace_eq]
      split
      · rename_i hdone
        rw [clear_eq, withCarry_withCarry]
        exact equiv_of_done_prefix δ p fffd t'' [] l hdone
      · rename_i hdone
        have hdone' : (p.pushStr δ fffd).done = false := by simpa using hdone
        have := ih ((p.pushStr δ fffd).withCarry (p.carry.drop e)) t'' l hdone'
          (by rw [withCarry_carry, List.length_drop]; omega) hL''
        rw [spec, pushStr_withCarry, withCarry_withCarry, pushStr_pushStr δ p fffd t'' hdone'] at this
        exact this
    · -- a valid prefix, then an error or an incomplete tail
      rename_i v err hv
      obtain ⟨t', rfl, hL', hne, hst⟩ := validate_some hL hv
      have hlen : v + 1 < p.carry.length := by
        have : (p.carry.drop (v + 1)).length ≠ 0 := fun h => hne (List.eq_nil_of_length_eq_zero h)
        rw [List.length_drop] at this; omega
      rw [pushValid_eq]
      split
      · rename_i hdone
        rw [clear_eq, withCarry_withCarry]
        exact equiv_of_done_prefix δ p _ t' [] l hdone
      · rename_i hdone
        have hdone' : (p.pushStr δ (p.carry.take (v + 1))).done = false := by simpa using hdone
        split
        · -- incomplete tail: stop
          simp only [errStep] at hst
          obtain ⟨rfl, rfl⟩ := Lossy.of_incomplete hst hL'
          rw [List.append_nil]
          exact Equiv.refl _
        · -- invalid sequence after the valid prefix
          rename_i e
          simp only [errStep] at hst
          obtain ⟨t'', rfl, hL''⟩ := Lossy.of_invalid hst hL'
          have hb := step_invalid_bound _ _ hst
          rw [replace_eq, pushStr_withCarry, withCarry_withCarry, withCarry_carry,
            pushStr_pushStr δ p _ fffd hdone']
          split
          · rename_i hdone2
            rw [clear_eq, withCarry_withCarry, ← List.append_assoc]
            exact equiv_of_done_prefix δ p _ t'' [] l hdone2
          · rename_i hdone2
            have hdone2' : (p.pushStr δ (p.carry.take (v + 1) ++ fffd)).done = false := by
              simpa using hdone2
            have := ih ((p.pushStr δ (p.carry.take (v + 1) ++ fffd)).withCarry
                ((p.carry.drop (v + 1)).drop e)) t'' l hdone2'
              (by rw [withCarry_carry, List.length_drop, List.length_drop]; omega) hL''
            rw [spec, pushStr_withCarry, withCarry_withCarry,
              pushStr_pushStr δ p _ t'' hdone2', List.append_assoc] at this
            exact this

/-! ### `pushBytes` -/

theorem pushBytes_of_done (δ : Bytes → Option Bytes) (q : Pipe) (c : Bytes) (h : q.done = true) :
    q.pushBytes δ c = q := by
  unfold Pipe.pushBytes
  simp [h]

theorem pushBytes_spec (δ : Bytes → Option Bytes) (p : Pipe) (c t l : Bytes) (hd : p.done = false)
    (hL : Lossy (p.carry ++ c) t l) : Equiv (p.pushBytes δ c) (spec δ p t l) := by
  have := drain_spec δ ((p.carry ++ c).length + 1) (p.withCarry (p.carry ++ c)) t l hd
    (Nat.le_refl _) hL
  rw [spec, pushStr_withCarry, withCarry_withCarry] at this
  unfold Pipe.pushBytes
  rw [if_neg (by rw [hd]; exact Bool.false_ne_true)]
  exact this

/-- two chunks = one chunk -/
theorem pushBytes_pushBytes (δ : Bytes → Option Bytes) (p : Pipe) (a b : Bytes)
    (hd : p.done = false) :
    Equiv ((p.pushBytes δ a).pushBytes δ b) (p.pushBytes δ (a ++ b)) := by
  obtain ⟨t, l, hL⟩ := lossy_exists (p.carry ++ a)
  obtain ⟨t', l', hL'⟩ := lossy_exists (l ++ b)
  have hL2 : Lossy (p.carry ++ (a ++ b)) (t ++ t') l' := by
    rw [← List.append_assoc]; exact hL.append hL'
  have h1 := pushBytes_spec δ p a t l hd hL
  have h2 := pushBytes_spec δ p (a ++ b) (t ++ t') l' hd hL2
  cases hq : (p.pushStr δ t).done with
  | true =>
    have hr : (p.pushBytes δ a).done = true := h1.2.2.1.trans hq
    rw [pushBytes_of_done δ _ b hr]
    exact h1.trans ((equiv_of_done_prefix δ p t t' l l' hq).trans h2.symm)
  | false =>
    have hr : p.pushBytes δ a = spec δ p t l := h1.eq_of_not_done (h1.2.2.1.trans hq)
    rw [hr]
    have h3 := pushBytes_spec δ (spec δ p t l) b t' l' hq hL'
    rw [spec, spec, pushStr_withCarry, withCarry_withCarry, pushStr_pushStr δ p t t' hq] at h3
    exact h3.trans h2.symm

/-! ### the read loop -/

theorem foldl_pushBytes_of_done (δ : Bytes → Option Bytes) (cs : List Bytes) (q : Pipe)
    (h : q.done = true) : cs.foldl (Pipe.pushBytes δ) q = q := by
  induction cs with
  | nil => rfl
  | cons c cs ih => rw [List.foldl_cons, pushBytes_of_done δ q c h, ih]

theorem foldl_pushBytes (δ : Bytes → Option Bytes) :
    ∀ (cs : List Bytes) (p : Pipe) (c : Bytes), p.done = false →
      Equiv (cs.foldl (Pipe.pushBytes δ) (p.pushBytes δ c)) (p.pushBytes δ (c ++ cs.flatten)) := by
  intro cs
  induction cs with
  | nil => intro p c _; simp only [List.foldl_nil, List.flatten_nil, List.append_nil]; exact Equiv.refl _
  | cons c' cs ih =>
    intro p c hd
    rw [List.foldl_cons, List.flatten_cons]
    cases hq : (p.pushBytes δ c).done with
    | true =>
      rw [pushBytes_of_done δ _ c' hq, foldl_pushBytes_of_done δ cs _ hq]
      have := pushBytes_pushBytes δ p c (c' ++ cs.flatten) hd
      rw [pushBytes_of_done δ _ _ hq] at this
      exact this
    | false =>
      exact (ih (p.pushBytes δ c) c' hq).trans (pushBytes_pushBytes δ p c (c' ++ cs.flatten) hd)

theorem finish_congr (δ : Bytes → Option Bytes) {p q : Pipe} (h : Equiv p q) :
    (p.finish δ).out = (q.finish δ).out ∧ (p.finish δ).seq = (q.finish δ).seq ∧
      (p.finish δ).done = (q.finish δ).done := by
  cases hp : p.done with
  | true =>
    have hq : q.done = true := h.2.2.1.symm.trans hp
    unfold Pipe.finish
    simp only [hp, hq, if_true]
    exact ⟨h.1, h.2.1, trivial⟩
  | false =>
    rw [h.eq_of_not_done hp]
    exact ⟨rfl, rfl, rfl⟩

theorem init_pushBytes_nil (δ : Bytes → Option Bytes) (start : Nat) :
    (Pipe.init start).pushBytes δ [] = Pipe.init start := by
  simp [Pipe.pushBytes, Pipe.init, Pipe.drain, validate, validateAux, Pipe.pushStr, Dec.push,
    Dec.feed, uptoDone, mapAll, Pipe.clear]

/-- The frames (and the final counter and done flag) produced by the read loop do not depend on how
the body is split into chunks: any chunking gives what the single chunk `cs.flatten` gives. -/
theorem bytes_chunk_invariant (δ : Bytes → Option Bytes) (start : Nat) (cs : List Bytes) :
    (feed δ start cs).out = (feed δ start [cs.flatten]).out ∧
    (feed δ start cs).seq = (feed δ start [cs.flatten]).seq ∧
    (feed δ start cs).done = (feed δ start [cs.flatten]).done := by
  unfold feed
  apply finish_congr
  cases cs with
  | nil =>
    simp only [List.foldl_nil, List.flatten_nil, List.foldl_cons, init_pushBytes_nil]
    exact Equiv.refl _
  | cons c cs =>
    simp only [List.foldl_cons, List.foldl_nil, List.flatten_cons]
    exact foldl_pushBytes δ cs (Pipe.init start) c rfl

end Rip.Sse

