import Rip.Model.Cache
/-!
C04 lemmas: the tail-scanning read paths over a per-thread cache file.

1. every call terminates once the loop leaves at the largest window (`exitAtMax`), for every cache
   content, limit, first window and maximum; fuel is monotone;
2. transparency: with a cache that holds the thread (`cs = fs`) the fast path gives the truth answer
   for every window schedule (selection needs the per-window reset, cursor status needs the fallback);
3. a cache that holds only a non-empty suffix of the thread is rejected or harmless once a tail that
   reached the start of the file must start at seq 0 (`headCheck`).
-/
namespace Rip.Cache

/-- the code as it is now: the loops leave at the largest window, the accumulator is reset per
window, an incomplete cursor scan falls back; a tail that reached the start of the file must begin
at seq 0 (the head check, in the code since the repair of `scan_tail`) -/
def current : Shape := { exitAtMax := true, resetAcc := true, headCheck := true, fallback := true }

/-! ### one-step unfoldings -/

theorem selectionLoop_zero (sh : Shape) (cs : List F) (limit w max : Nat) (acc : List Nat) :
    selectionLoop sh cs limit w max acc 0 = none := rfl

theorem selectionLoop_succ (sh : Shape) (cs : List F) (limit w max : Nat) (acc : List Nat) (fuel : Nat) :
    selectionLoop sh cs limit w max acc (fuel + 1) =
      if !(decide (w ≤ max) && decide (acc.length < limit)) then some (acc, true, false)
      else
        match completeOf sh (tailOf cs w) with
        | none => some (acc, false, false)
        | some complete =>
          if complete then
            some ((if sh.resetAcc then [] else acc) ++
              (decisionSeqs (tailOf cs w).events).take (limit - (if sh.resetAcc then [] else acc).length), true, true)
          else if sh.exitAtMax && decide (w ≥ max) then
            some ((if sh.resetAcc then [] else acc) ++
              (decisionSeqs (tailOf cs w).events).take (limit - (if sh.resetAcc then [] else acc).length), true, false)
          else selectionLoop sh cs limit (min (2 * w) max) max
            ((if sh.resetAcc then [] else acc) ++
              (decisionSeqs (tailOf cs w).events).take (limit - (if sh.resetAcc then [] else acc).length)) fuel := rfl

theorem cursorLoop_zero (sh : Shape) (cs : List F) (w max : Nat) : cursorLoop sh cs w max 0 = none := rfl

theorem cursorLoop_succ (sh : Shape) (cs : List F) (w max : Nat) (fuel : Nat) :
    cursorLoop sh cs w max (fuel + 1) =
      if !(decide (w ≤ max)) then some none
      else
        match completeOf sh (tailOf cs w) with
        | none => some none
        | some complete =>
          if complete || decide ((cursorTruth (tailOf cs w).events).cursors.length ≥ maxKeys) then
            some (some (cursorTruth (tailOf cs w).events, true))
          else if sh.exitAtMax && decide (w ≥ max) then some (some (cursorTruth (tailOf cs w).events, false))
          else cursorLoop sh cs (min (2 * w) max) max fuel := rfl

/-! ### 1. termination and fuel monotonicity -/

/-- below the maximum the next window is strictly larger (and still positive) -/
theorem window_grows {w max : Nat} (hw : 0 < w) (hlt : w < max) :
    w < min (2 * w) max ∧ 0 < min (2 * w) max := by omega

/-- explicit bound: `max - w + 1` steps suffice from window `w` -/
theorem selectionLoop_fuel_bound (sh : Shape) (he : sh.exitAtMax = true) (cs : List F) (limit max : Nat) :
    ∀ (n w : Nat) (acc : List Nat), 0 < w → max - w ≤ n →
      (selectionLoop sh cs limit w max acc (n + 1)).isSome = true := by
  intro n
  induction n with
  | zero =>
    intro w acc hw hn
    rw [selectionLoop_succ]
    split
    · rfl
    · split
      · rfl
      · split
        · rfl
        · have hge : decide (w ≥ max) = true := by simp; omega
          simp [he, hge]
  | succ n ih =>
    intro w acc hw hn
    rw [selectionLoop_succ]
    split
    · rfl
    · split
      · rfl
      · split
        · rfl
        · split
          · rfl
          · rename_i hnot
            have hlt : w < max := by
              simp [he] at hnot; exact hnot
            have hg := window_grows hw hlt
            exact ih _ _ hg.2 (by omega)

theorem selection_terminates (sh : Shape) (he : sh.exitAtMax = true) (cs : List F) (limit w0 max : Nat)
    (hw : 0 < w0) (acc : List Nat) :
    ∃ fuel, (selectionLoop sh cs limit w0 max acc fuel).isSome = true :=
  ⟨max - w0 + 1, selectionLoop_fuel_bound sh he cs limit max (max - w0) w0 acc hw (Nat.le_refl _)⟩

theorem cursorLoop_fuel_bound (sh : Shape) (he : sh.exitAtMax = true) (cs : List F) (max : Nat) :
    ∀ (n w : Nat), 0 < w → max - w ≤ n → (cursorLoop sh cs w max (n + 1)).isSome = true := by
  intro n
  induction n with
  | zero =>
    intro w hw hn
    rw [cursorLoop_succ]
    split
    · rfl
    · split
      · rfl
      · split
        · rfl
        · have hge : decide (w ≥ max) = true := by simp; omega
          simp [he, hge]
  | succ n ih =>
    intro w hw hn
    rw [cursorLoop_succ]
    split
    · rfl
    · split
      · rfl
      · split
        · rfl
        · split
          · rfl
          · rename_i hnot
            have hlt : w < max := by
              simp [he] at hnot; exact hnot
            have hg := window_grows hw hlt
            exact ih _ hg.2 (by omega)

theorem cursor_terminates (sh : Shape) (he : sh.exitAtMax = true) (cs : List F) (w0 max : Nat) (hw : 0 < w0) :
    ∃ fuel, (cursorLoop sh cs w0 max fuel).isSome = true :=
  ⟨max - w0 + 1, cursorLoop_fuel_bound sh he cs max (max - w0) w0 hw (Nat.le_refl _)⟩

/-- one more unit of fuel never changes a result -/
theorem selectionLoop_mono_succ (sh : Shape) (cs : List F) (limit max : Nat) :
    ∀ (f w : Nat) (acc : List Nat) (r : List Nat × Bool × Bool),
      selectionLoop sh cs limit w max acc f = some r → selectionLoop sh cs limit w max acc (f + 1) = some r := by
  intro f
  induction f with
  | zero => intro w acc r h; simp [selectionLoop_zero] at h
  | succ f ih =>
    intro w acc r h
    rw [selectionLoop_succ] at h
    rw [selectionLoop_succ]
    split
    · rename_i c; simpa [c] using h
    · rename_i c
      simp only [c] at h
      split
      · rename_i hc; simpa [hc] using h
      · rename_i b hc
        simp only [hc] at h
        split
        · rename_i hb; simpa [hb] using h
        · rename_i hb
          simp only [hb] at h
          split
          · rename_i hx; simpa [hx] using h
          · rename_i hx
            simp only [hx] at h
            exact ih _ _ _ h

theorem selectionLoop_mono (sh : Shape) (cs : List F) (limit w max : Nat) (acc : List Nat) (f1 f2 : Nat)
    (h : f1 ≤ f2) (r : List Nat × Bool × Bool) :
    selectionLoop sh cs limit w max acc f1 = some r → selectionLoop sh cs limit w max acc f2 = some r := by
  intro h1
  induction h with
  | refl => exact h1
  | step _ ih => exact selectionLoop_mono_succ sh cs limit max _ w acc r ih

theorem cursorLoop_mono_succ (sh : Shape) (cs : List F) (max : Nat) :
    ∀ (f w : Nat) (r : Option (CursorAnswer × Bool)),
      cursorLoop sh cs w max f = some r → cursorLoop sh cs w max (f + 1) = some r := by
  intro f
  induction f with
  | zero => intro w r h; simp [cursorLoop_zero] at h
  | succ f ih =>
    intro w r h
    rw [cursorLoop_succ] at h
    rw [cursorLoop_succ]
    split
    · rename_i c; simpa [c] using h
    · rename_i c
      simp only [c] at h
      split
      · rename_i hc; simpa [hc] using h
      · rename_i b hc
        simp only [hc] at h
        split
        · rename_i hb; simpa [hb] using h
        · rename_i hb
          simp only [hb] at h
          split
          · rename_i hx; simpa [hx] using h
          · rename_i hx
            simp only [hx] at h
            exact ih _ _ h

theorem cursorLoop_mono (sh : Shape) (cs : List F) (w max : Nat) (f1 f2 : Nat)
    (h : f1 ≤ f2) (r : Option (CursorAnswer × Bool)) :
    cursorLoop sh cs w max f1 = some r → cursorLoop sh cs w max f2 = some r := by
  intro h1
  induction h with
  | refl => exact h1
  | step _ ih => exact cursorLoop_mono_succ sh cs max _ w r ih

/-! ### facts about tails: a tail is a suffix, and what it yields is a prefix of the truth rows -/

theorem decisionSeqs_append (a b : List F) : decisionSeqs (a ++ b) = decisionSeqs b ++ decisionSeqs a := by
  simp [decisionSeqs, List.reverse_append, List.filterMap_append]

theorem cursorRows_append (a b : List F) : cursorRows (a ++ b) = cursorRows b ++ cursorRows a := by
  simp [cursorRows, List.reverse_append, List.filterMap_append]

theorem tailOf_events_suffix (cs : List F) (w : Nat) :
    cs = cs.take (cs.length - w) ++ (tailOf cs w).events := by
  simp [tailOf]

theorem tailOf_suffixOf {cs fs : List F} (hs : SuffixOf cs fs) (w : Nat) : SuffixOf (tailOf cs w).events fs := by
  obtain ⟨pre, rfl⟩ := hs
  exact ⟨pre ++ cs.take (cs.length - w), by simp [tailOf]⟩

/-- a tail that reached the start of the file is the whole file -/
theorem tailOf_events_of_reached {cs : List F} {w : Nat} (h : (tailOf cs w).reachedStart = true) :
    (tailOf cs w).events = cs := by
  have hle : cs.length ≤ w := by simpa [tailOf] using h
  simp [tailOf, Nat.sub_eq_zero_of_le hle]

/-- the head of the tail does not carry seq 0 -/
def headBad (t : Tail) : Bool :=
  match t.events.head? with | some f => f.seq != 0 | none => false

theorem completeOf_eq (sh : Shape) (t : Tail) :
    completeOf sh t = if (t.reachedStart && sh.headCheck && headBad t) then none else some t.reachedStart := rfl

theorem completeOf_some_true {sh : Shape} {t : Tail} (h : completeOf sh t = some true) :
    t.reachedStart = true := by
  rw [completeOf_eq] at h
  split at h
  · cases h
  · injection h

theorem completeOf_some_true_head {sh : Shape} {t : Tail} (hh : sh.headCheck = true)
    (h : completeOf sh t = some true) : headBad t = false := by
  have hr := completeOf_some_true h
  rw [completeOf_eq, hr, hh] at h
  cases hb : headBad t with
  | false => rfl
  | true => simp [hb] at h

/-- the decisions seen in a tail are the newest decisions of the thread -/
theorem decisionSeqs_prefix {t fs : List F} (hs : SuffixOf t fs) :
    ∃ older, decisionSeqs fs = decisionSeqs t ++ older := by
  obtain ⟨pre, rfl⟩ := hs
  exact ⟨decisionSeqs pre, decisionSeqs_append pre t⟩

/-- the cursor rows seen in a tail are the newest cursor rows of the thread -/
theorem cursorRows_prefix {t fs : List F} (hs : SuffixOf t fs) :
    ∃ older, cursorRows fs = cursorRows t ++ older := by
  obtain ⟨pre, rfl⟩ := hs
  exact ⟨cursorRows pre, cursorRows_append pre t⟩

/-- once `cap` keys are known, older rows change nothing -/
theorem firstPerKey_append_full (cap : Nat) :
    ∀ (p : List (Nat × Nat)) (acc q : List (Nat × Nat)),
      (firstPerKey cap acc p).length ≥ cap → firstPerKey cap acc (p ++ q) = firstPerKey cap acc p := by
  intro p
  induction p with
  | nil =>
    intro acc q h
    simp only [firstPerKey] at h
    cases q with
    | nil => rfl
    | cons r rs => simp only [List.nil_append, firstPerKey, h, ↓reduceIte]
  | cons r rs ih =>
    intro acc q h
    simp only [List.cons_append, firstPerKey] at h ⊢
    split
    · rfl
    · rename_i hc
      simp only [hc, ↓reduceIte] at h
      split
      · rename_i ha
        simp only [ha, ↓reduceIte] at h
        exact ih _ _ h
      · rename_i ha
        simp only [ha] at h
        exact ih _ _ h

theorem firstPerKey_nil (cap : Nat) (acc : List (Nat × Nat)) : firstPerKey cap acc [] = acc := by
  simp only [firstPerKey]

/-- a tail that already produced `maxKeys` keys gives the truth answer of the whole thread -/
theorem cursorTruth_of_full_suffix {t fs : List F} (hs : SuffixOf t fs)
    (hfull : (cursorTruth t).cursors.length ≥ maxKeys) : cursorTruth t = cursorTruth fs := by
  obtain ⟨pre, rfl⟩ := hs
  have hcur : firstPerKey maxKeys [] (cursorRows t ++ cursorRows pre) = firstPerKey maxKeys [] (cursorRows t) :=
    firstPerKey_append_full maxKeys _ _ _ hfull
  have hact : (cursorRows t ++ cursorRows pre).head? = (cursorRows t).head? := by
    cases hrows : cursorRows t with
    | nil =>
      exfalso
      simp [cursorTruth, hrows, firstPerKey_nil, maxKeys] at hfull
    | cons r rs => rfl
  simp only [cursorTruth, cursorRows_append, hcur, hact]

/-! ### 2./3. the fast paths give the truth answer -/

/-- what `selectionFast` makes of a finished loop -/
def selectionPost (fs : List F) (limit : Nat) : List Nat × Bool × Bool → List Nat
  | (acc, scanned, complete) =>
    if !scanned || (!complete && decide (acc.length < limit)) then selectionTruth fs limit else acc

theorem selectionFast_of_loop {sh : Shape} {fs cs : List F} {limit w0 max fuel : Nat} {r : List Nat × Bool × Bool}
    (h : selectionLoop sh cs limit w0 max [] fuel = some r) :
    selectionFast sh fs cs limit w0 max fuel = some (selectionPost fs limit r) := by
  obtain ⟨acc, s, c⟩ := r
  simp only [selectionFast, h, selectionPost]
  split <;> rfl

/-- loop invariant: an accumulator that is full is the truth answer -/
def SelInv (fs : List F) (limit : Nat) (acc : List Nat) : Prop :=
  acc.length < limit ∨ acc = selectionTruth fs limit

theorem selInv_nil (fs : List F) (limit : Nat) : SelInv fs limit [] := by
  cases limit with
  | zero => right; simp [selectionTruth]
  | succ n => left; simp

theorem selInv_of_suffix {t fs : List F} (hs : SuffixOf t fs) (limit : Nat) :
    SelInv fs limit ((decisionSeqs t).take limit) := by
  obtain ⟨pre, rfl⟩ := hs
  by_cases h : limit ≤ (decisionSeqs t).length
  · right; rw [selectionTruth, decisionSeqs_append, List.take_append_of_le_length h]
  · left; simp only [List.length_take]; omega

theorem selectionPost_incomplete {fs : List F} {limit : Nat} {a : List Nat} (s : Bool)
    (hinv : SelInv fs limit a) : selectionPost fs limit (a, s, false) = selectionTruth fs limit := by
  rcases hinv with h | h
  · simp [selectionPost, h]
  · subst h; simp [selectionPost]

/-- the general statement behind transparency and suffix safety: if the cache holds a suffix of the
thread, and a tail the loop accepts as complete is the whole thread, every finished loop is turned
into the truth answer -/
theorem selectionLoop_sound (sh : Shape) (hr : sh.resetAcc = true) (fs cs : List F) (hs : SuffixOf cs fs)
    (hC : ∀ w, completeOf sh (tailOf cs w) = some true → (tailOf cs w).events = fs) (limit max : Nat) :
    ∀ (fuel w : Nat) (acc : List Nat) (r : List Nat × Bool × Bool), SelInv fs limit acc →
      selectionLoop sh cs limit w max acc fuel = some r →
      selectionPost fs limit r = selectionTruth fs limit := by
  intro fuel
  induction fuel with
  | zero => intro w acc r _ h; simp [selectionLoop_zero] at h
  | succ fuel ih =>
    intro w acc r hinv h
    rw [selectionLoop_succ] at h
    simp only [hr, ↓reduceIte, List.nil_append, List.length_nil, Nat.sub_zero] at h
    split at h
    · injection h with h; subst h
      exact selectionPost_incomplete _ hinv
    · split at h
      · injection h with h; subst h
        simp [selectionPost]
      · rename_i b hb
        split at h
        · rename_i hbt
          subst hbt
          injection h with h; subst h
          have hev := hC w hb
          simp [selectionPost, hev, selectionTruth]
        · split at h
          · injection h with h; subst h
            exact selectionPost_incomplete _ (selInv_of_suffix (tailOf_suffixOf hs w) limit)
          · exact ih _ _ _ (selInv_of_suffix (tailOf_suffixOf hs w) limit) h

/-- what `cursorFast` makes of a finished loop -/
def cursorPost (sh : Shape) (fs : List F) : Option (CursorAnswer × Bool) → CursorAnswer
  | none => cursorTruth fs
  | some (ans, enough) => if !enough && sh.fallback then cursorTruth fs else ans

theorem cursorFast_of_loop {sh : Shape} {fs cs : List F} {w0 max fuel : Nat} {r : Option (CursorAnswer × Bool)}
    (h : cursorLoop sh cs w0 max fuel = some r) :
    cursorFast sh fs cs w0 max fuel = some (cursorPost sh fs r) := by
  match r, h with
  | none, h => simp only [cursorFast, h, cursorPost]
  | some (ans, e), h =>
    simp only [cursorFast, h, cursorPost]
    split <;> rfl

theorem cursorLoop_sound (sh : Shape) (hf : sh.fallback = true) (fs cs : List F) (hs : SuffixOf cs fs)
    (hC : ∀ w, completeOf sh (tailOf cs w) = some true → (tailOf cs w).events = fs) (max : Nat) :
    ∀ (fuel w : Nat) (r : Option (CursorAnswer × Bool)),
      cursorLoop sh cs w max fuel = some r → cursorPost sh fs r = cursorTruth fs := by
  intro fuel
  induction fuel with
  | zero => intro w r h; simp [cursorLoop_zero] at h
  | succ fuel ih =>
    intro w r h
    rw [cursorLoop_succ] at h
    split at h
    · injection h with h; subst h; rfl
    · split at h
      · injection h with h; subst h; rfl
      · rename_i b hb
        split at h
        · rename_i hor
          injection h with h; subst h
          simp only [cursorPost, Bool.not_true, Bool.false_and]
          cases b with
          | true => rw [hC w hb]; rfl
          | false =>
            have hfull : (cursorTruth (tailOf cs w).events).cursors.length ≥ maxKeys := by
              simpa using hor
            simpa using cursorTruth_of_full_suffix (tailOf_suffixOf hs w) hfull
        · split at h
          · injection h with h; subst h
            simp [cursorPost, hf]
          · exact ih _ _ h

/-! ### when is a tail the loop accepts as complete the whole thread? -/

/-- `cs = fs`: always (whatever the shape) -/
theorem complete_is_thread_self (sh : Shape) (fs : List F) :
    ∀ w, completeOf sh (tailOf fs w) = some true → (tailOf fs w).events = fs :=
  fun _ h => tailOf_events_of_reached (completeOf_some_true h)

theorem valid_seq_at {fs pre rest : List F} {c : F} (hv : Valid fs) (h : fs = pre ++ c :: rest) :
    c.seq = pre.length := by
  subst h
  have := hv pre.length (by simp)
  simpa using this

/-- a suffix-only cache of a valid thread, with the head check: a tail that reached the start of the
file and starts at seq 0 is the thread. (`cs = [] → fs = []`: an empty file is the absent file.) -/
theorem complete_is_thread_suffix (sh : Shape) (hh : sh.headCheck = true) {fs cs : List F} (hv : Valid fs)
    (hs : SuffixOf cs fs) (hne : cs = [] → fs = []) :
    ∀ w, completeOf sh (tailOf cs w) = some true → (tailOf cs w).events = fs := by
  intro w h
  have hev := tailOf_events_of_reached (completeOf_some_true h)
  have hb := completeOf_some_true_head hh h
  rw [hev]
  obtain ⟨pre, hfs⟩ := hs
  cases cs with
  | nil => exact (hne rfl).symm
  | cons c rest =>
    have hseq := valid_seq_at hv hfs
    have h0 : c.seq = 0 := by simpa [headBad, hev] using hb
    have hpre : pre = [] := List.eq_nil_of_length_eq_zero (by omega)
    simp [hfs, hpre]

/-- with a valid thread in the cache the head check never rejects a scan -/
theorem completeOf_not_rejected (sh : Shape) (fs : List F) (hh : sh.headCheck = false ∨ Valid fs) (w : Nat) :
    completeOf sh (tailOf fs w) = some (tailOf fs w).reachedStart := by
  rw [completeOf_eq]
  have hcond : ((tailOf fs w).reachedStart && sh.headCheck && headBad (tailOf fs w)) = false := by
    rcases hh with h | hv
    · simp [h]
    · cases hr : (tailOf fs w).reachedStart with
      | false => simp
      | true =>
        have hev := tailOf_events_of_reached hr
        cases fs with
        | nil => simp [headBad, hev]
        | cons f rest =>
          have h0 : f.seq = 0 := valid_seq_at (pre := []) hv rfl
          simp [headBad, hev, h0]
  simp [hcond]

/-! ### the general theorems (any cache that holds a suffix of the thread), with an explicit fuel bound -/

theorem selectionFast_sound (sh : Shape) (he : sh.exitAtMax = true) (hr : sh.resetAcc = true) (fs cs : List F)
    (hs : SuffixOf cs fs)
    (hC : ∀ w, completeOf sh (tailOf cs w) = some true → (tailOf cs w).events = fs)
    (limit w0 max : Nat) (hw : 0 < w0) (fuel : Nat) (hfuel : max - w0 + 1 ≤ fuel) :
    selectionFast sh fs cs limit w0 max fuel = some (selectionTruth fs limit) := by
  have hsome := selectionLoop_fuel_bound sh he cs limit max (max - w0) w0 [] hw (Nat.le_refl _)
  cases hl : selectionLoop sh cs limit w0 max [] (max - w0 + 1) with
  | none => rw [hl] at hsome; cases hsome
  | some r =>
    have hl' := selectionLoop_mono sh cs limit w0 max [] _ fuel hfuel r hl
    rw [selectionFast_of_loop hl',
      selectionLoop_sound sh hr fs cs hs hC limit max _ _ _ _ (selInv_nil fs limit) hl']

theorem cursorFast_sound (sh : Shape) (he : sh.exitAtMax = true) (hf : sh.fallback = true) (fs cs : List F)
    (hs : SuffixOf cs fs)
    (hC : ∀ w, completeOf sh (tailOf cs w) = some true → (tailOf cs w).events = fs)
    (w0 max : Nat) (hw : 0 < w0) (fuel : Nat) (hfuel : max - w0 + 1 ≤ fuel) :
    cursorFast sh fs cs w0 max fuel = some (cursorTruth fs) := by
  have hsome := cursorLoop_fuel_bound sh he cs max (max - w0) w0 hw (Nat.le_refl _)
  cases hl : cursorLoop sh cs w0 max (max - w0 + 1) with
  | none => rw [hl] at hsome; cases hsome
  | some r =>
    have hl' := cursorLoop_mono sh cs w0 max _ fuel hfuel r hl
    rw [cursorFast_of_loop hl', cursorLoop_sound sh hf fs cs hs hC max _ _ _ hl']

/-! ### 2. transparency (`cs = fs`) -/

/-- transparency needs no hypothesis on the head check: if the thread in the cache is not valid the
head check rejects the scan and the truth log answers -/
theorem selection_transparent_any (sh : Shape) (he : sh.exitAtMax = true) (hr : sh.resetAcc = true)
    (fs : List F) (limit w0 max : Nat) (hw : 0 < w0) (fuel : Nat) (hfuel : max - w0 + 1 ≤ fuel) :
    selectionFast sh fs fs limit w0 max fuel = some (selectionTruth fs limit) :=
  selectionFast_sound sh he hr fs fs ⟨[], rfl⟩ (complete_is_thread_self sh fs) limit w0 max hw fuel hfuel

theorem selection_transparent (sh : Shape) (he : sh.exitAtMax = true) (hr : sh.resetAcc = true)
    (fs : List F) (_hh : sh.headCheck = false ∨ Valid fs) (limit w0 max : Nat) (hw : 0 < w0) :
    ∃ fuel, selectionFast sh fs fs limit w0 max fuel = some (selectionTruth fs limit) :=
  ⟨max - w0 + 1, selection_transparent_any sh he hr fs limit w0 max hw _ (Nat.le_refl _)⟩

theorem cursor_transparent_any (sh : Shape) (he : sh.exitAtMax = true) (hf : sh.fallback = true)
    (fs : List F) (w0 max : Nat) (hw : 0 < w0) (fuel : Nat) (hfuel : max - w0 + 1 ≤ fuel) :
    cursorFast sh fs fs w0 max fuel = some (cursorTruth fs) :=
  cursorFast_sound sh he hf fs fs ⟨[], rfl⟩ (complete_is_thread_self sh fs) w0 max hw fuel hfuel

theorem cursor_transparent (sh : Shape) (he : sh.exitAtMax = true) (hf : sh.fallback = true)
    (fs : List F) (_hh : sh.headCheck = false ∨ Valid fs) (w0 max : Nat) (hw : 0 < w0) :
    ∃ fuel, cursorFast sh fs fs w0 max fuel = some (cursorTruth fs) :=
  ⟨max - w0 + 1, cursor_transparent_any sh he hf fs w0 max hw _ (Nat.le_refl _)⟩

/-- the code as it is now is transparent -/
theorem selection_transparent_current (fs : List F) (limit w0 max : Nat) (hw : 0 < w0) :
    ∃ fuel, selectionFast current fs fs limit w0 max fuel = some (selectionTruth fs limit) :=
  ⟨max - w0 + 1, selection_transparent_any current rfl rfl fs limit w0 max hw _ (Nat.le_refl _)⟩

theorem cursor_transparent_current (fs : List F) (w0 max : Nat) (hw : 0 < w0) :
    ∃ fuel, cursorFast current fs fs w0 max fuel = some (cursorTruth fs) :=
  ⟨max - w0 + 1, cursor_transparent_any current rfl rfl fs w0 max hw _ (Nat.le_refl _)⟩

/-- where `headCheck = false ∨ Valid fs` does matter: then no scan is rejected, so the answer really
is computed from the cache (every finished selection loop has `scanned = true`) -/
theorem selection_not_rejected (sh : Shape) (fs : List F) (hh : sh.headCheck = false ∨ Valid fs)
    (limit max : Nat) :
    ∀ (fuel w : Nat) (acc : List Nat) (r : List Nat × Bool × Bool),
      selectionLoop sh fs limit w max acc fuel = some r → r.2.1 = true := by
  intro fuel
  induction fuel with
  | zero => intro w acc r h; simp [selectionLoop_zero] at h
  | succ fuel ih =>
    intro w acc r h
    rw [selectionLoop_succ, completeOf_not_rejected sh fs hh w] at h
    split at h
    · injection h with h; subst h; rfl
    · simp only at h
      split at h
      · injection h with h; subst h; rfl
      · split at h
        · injection h with h; subst h; rfl
        · exact ih _ _ _ h

/-- likewise the cursor loop, started at a window within the maximum, never ends "not scanned" -/
theorem cursor_not_rejected (sh : Shape) (fs : List F) (hh : sh.headCheck = false ∨ Valid fs) (max : Nat) :
    ∀ (fuel w : Nat) (r : Option (CursorAnswer × Bool)), w ≤ max →
      cursorLoop sh fs w max fuel = some r → r.isSome = true := by
  intro fuel
  induction fuel with
  | zero => intro w r _ h; simp [cursorLoop_zero] at h
  | succ fuel ih =>
    intro w r hle h
    rw [cursorLoop_succ, completeOf_not_rejected sh fs hh w] at h
    split at h
    · rename_i hc; simp [hle] at hc
    · simp only at h
      split at h
      · injection h with h; subst h; rfl
      · split at h
        · injection h with h; subst h; rfl
        · exact ih _ _ (Nat.min_le_right _ _) h

/-! ### 3. a cache that holds only a suffix of the thread -/

/-- general form: any shape with the exit, the reset and the head check -/
theorem selection_suffix_safe_of (sh : Shape) (he : sh.exitAtMax = true) (hr : sh.resetAcc = true)
    (hh : sh.headCheck = true) (fs cs : List F) (hv : Valid fs) (hs : SuffixOf cs fs) (hne : cs = [] → fs = [])
    (limit w0 max : Nat) (hw : 0 < w0) (fuel : Nat) (hfuel : max - w0 + 1 ≤ fuel) :
    selectionFast sh fs cs limit w0 max fuel = some (selectionTruth fs limit) :=
  selectionFast_sound sh he hr fs cs hs (complete_is_thread_suffix sh hh hv hs hne) limit w0 max hw fuel hfuel

theorem cursor_suffix_safe_of (sh : Shape) (he : sh.exitAtMax = true) (hf : sh.fallback = true)
    (hh : sh.headCheck = true) (fs cs : List F) (hv : Valid fs) (hs : SuffixOf cs fs) (hne : cs = [] → fs = [])
    (w0 max : Nat) (hw : 0 < w0) (fuel : Nat) (hfuel : max - w0 + 1 ≤ fuel) :
    cursorFast sh fs cs w0 max fuel = some (cursorTruth fs) :=
  cursorFast_sound sh he hf fs cs hs (complete_is_thread_suffix sh hh hv hs hne) w0 max hw fuel hfuel

/-- with the head check the suffix-only file is rejected or harmless: the answer is the truth.
`cs ≠ []` is needed: an empty file scans as an empty, complete tail (see `Rip.Cex.C04`); the real
code treats the empty/absent file as "no cache". -/
theorem selection_suffix_safe (fs cs : List F) (hv : Valid fs) (hs : SuffixOf cs fs) (hne : cs ≠ [])
    (limit w0 max : Nat) (hw : 0 < w0) :
    ∃ fuel, selectionFast repaired fs cs limit w0 max fuel = some (selectionTruth fs limit) :=
  ⟨max - w0 + 1, selection_suffix_safe_of repaired rfl rfl rfl fs cs hv hs (fun h => absurd h hne)
    limit w0 max hw _ (Nat.le_refl _)⟩

theorem cursor_suffix_safe (fs cs : List F) (hv : Valid fs) (hs : SuffixOf cs fs) (hne : cs ≠ [])
    (w0 max : Nat) (hw : 0 < w0) :
    ∃ fuel, cursorFast repaired fs cs w0 max fuel = some (cursorTruth fs) :=
  ⟨max - w0 + 1, cursor_suffix_safe_of repaired rfl rfl rfl fs cs hv hs (fun h => absurd h hne)
    w0 max hw _ (Nat.le_refl _)⟩

end Rip.Cache
