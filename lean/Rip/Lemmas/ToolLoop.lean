import Rip.Model.ToolLoop

/-!
C16 lemmas: the tool-call collector, tool-choice enforcement and the agent loop bookkeeping.
-/
namespace Rip.ToolLoop

/-! ### Collector: `drain` is a stable sort by output index -/

def isDoneFn : PEv → Bool
  | .item true _ true _ _ _ _ => true
  | _ => false

theorem insertByIndex_perm (x : Call) (l : List Call) : (insertByIndex x l).Perm (x :: l) := by
  induction l with
  | nil => simp [insertByIndex]
  | cons y ys ih =>
    unfold insertByIndex
    split
    · exact List.Perm.refl _
    · exact (List.Perm.cons y ih).trans (List.Perm.swap x y ys)

theorem foldl_insert_perm (l acc : List Call) :
    (l.foldl (fun acc x => insertByIndex x acc) acc).Perm (acc ++ l) := by
  induction l generalizing acc with
  | nil => simp
  | cons x xs ih =>
    simp only [List.foldl_cons]
    refine (ih _).trans ?_
    refine ((insertByIndex_perm x acc).append_right xs).trans ?_
    simpa using (List.perm_middle (a := x) (l₁ := acc) (l₂ := xs)).symm

/-- drain is a stable sort by output index -/
theorem drain_perm (c : Collector) : (drain c).Perm c.completed := by
  simpa [drain] using foldl_insert_perm c.completed []

abbrev SortedIdx (l : List Call) : Prop := l.Pairwise (fun a b => a.outputIndex ≤ b.outputIndex)

theorem insertByIndex_sorted (x : Call) (l : List Call) (h : SortedIdx l) :
    SortedIdx (insertByIndex x l) := by
  induction l with
  | nil => simp [insertByIndex, SortedIdx]
  | cons y ys ih =>
    have hy := List.pairwise_cons.mp h
    unfold insertByIndex
    split
    · rename_i hlt
      refine List.pairwise_cons.mpr ⟨?_, h⟩
      intro z hz
      rcases List.mem_cons.mp hz with rfl | hz
      · exact Nat.le_of_lt hlt
      · exact Nat.le_trans (Nat.le_of_lt hlt) (hy.1 z hz)
    · rename_i hge
      refine List.pairwise_cons.mpr ⟨?_, ih hy.2⟩
      intro z hz
      have hz' := (insertByIndex_perm x ys).mem_iff.mp hz
      rcases List.mem_cons.mp hz' with rfl | hz'
      · exact Nat.le_of_not_lt hge
      · exact hy.1 z hz'

theorem foldl_insert_sorted (l acc : List Call) (h : SortedIdx acc) :
    SortedIdx (l.foldl (fun acc x => insertByIndex x acc) acc) := by
  induction l generalizing acc with
  | nil => simpa using h
  | cons x xs ih => exact ih _ (insertByIndex_sorted x acc h)

theorem drain_sorted (c : Collector) :
    (drain c).Pairwise (fun a b => a.outputIndex ≤ b.outputIndex) :=
  foldl_insert_sorted c.completed [] List.Pairwise.nil

theorem insertByIndex_filter (x : Call) (l : List Call) (h : SortedIdx l) (k : Nat) :
    (insertByIndex x l).filter (fun y => y.outputIndex == k) =
      l.filter (fun y => y.outputIndex == k) ++ [x].filter (fun y => y.outputIndex == k) := by
  induction l with
  | nil => simp [insertByIndex]
  | cons y ys ih =>
    have hy := List.pairwise_cons.mp h
    unfold insertByIndex
    split
    · rename_i hlt
      by_cases hx : x.outputIndex = k
      · -- nothing in `y :: ys` has index `k`
        have hnil : (y :: ys).filter (fun z => z.outputIndex == k) = [] := by
          apply List.filter_eq_nil_iff.mpr
          intro z hz
          have : y.outputIndex ≤ z.outputIndex := by
            rcases List.mem_cons.mp hz with rfl | hz
            · exact Nat.le_refl _
            · exact hy.1 z hz
          simp; omega
        rw [List.filter_cons, hnil]
        simp [hx]
      · simp [List.filter_cons, hx]
    · rw [List.filter_cons, ih hy.2, List.filter_cons (xs := ys)]
      split <;> simp

theorem foldl_insert_filter (l acc : List Call) (h : SortedIdx acc) (k : Nat) :
    (l.foldl (fun acc x => insertByIndex x acc) acc).filter (fun y => y.outputIndex == k) =
      acc.filter (fun y => y.outputIndex == k) ++ l.filter (fun y => y.outputIndex == k) := by
  induction l generalizing acc with
  | nil => simp
  | cons x xs ih =>
    simp only [List.foldl_cons]
    rw [ih _ (insertByIndex_sorted x acc h), insertByIndex_filter x acc h k]
    simp [List.filter_cons]
    split <;> simp

theorem drain_stable (c : Collector) (k : Nat) :
    (drain c).filter (fun x => x.outputIndex == k) = c.completed.filter (fun x => x.outputIndex == k) := by
  simpa [drain] using foldl_insert_filter c.completed [] List.Pairwise.nil k

/-! ### Collector: `observe` -/

/-- the item id under which the collector files an `item` event -/
def resolveItem (c : Collector) (iid cid : Option Str) : Str :=
  match nonEmpty iid with
  | some i => i
  | none =>
    match (nonEmpty cid).bind (fun cid => (c.itemOfCall.find? (fun e => e.1 == cid)).map (·.2)) with
    | some i => i
    | none => (nonEmpty cid).getD 0

/-- literal copy of the body of `observe` on a function-call `item` event after the item id is resolved -/
def observeItemRaw (c : Collector) (done : Bool) (idx : Nat) (itemId : Str) (callIdRaw nameRaw : Option Str)
    (argsRaw : Option Text) : Collector :=
    let callId := nonEmpty callIdRaw
    if itemId == 0 then c else
    let itemOfCall :=
      match callId with
      | some cid => if c.itemOfCall.any (fun e => e.1 == cid) then c.itemOfCall else c.itemOfCall ++ [(cid, itemId)]
      | none => c.itemOfCall
    let e := getBuf c.byItem itemId
    let argsNE : Option Text := argsRaw.filter (fun a => !a.isEmpty)
    let e : Buf := { outputIndex := idx, callId := callId.or e.callId, name := nameRaw.or e.name,
                     args := match argsNE with | some a => a | none => e.args }
    if !done then { c with byItem := putBuf c.byItem itemId e, itemOfCall := itemOfCall }
    else
      let byItem := c.byItem.filter (fun x => x.1 != itemId)
      let callIdF := callIdRaw.or e.callId           -- NOT filtered for emptiness here
      let nameF := nameRaw.or e.name
      let argsF : Text := match argsNE with | some a => a | none => e.args
      match callIdF, nameF with
      | some cid, some n =>
        { byItem := byItem, itemOfCall := itemOfCall,
          completed := c.completed ++ [{ outputIndex := idx, callId := cid, itemId := itemId, name := n, args := argsF }] }
      | _, _ => { c with byItem := byItem, itemOfCall := itemOfCall }

theorem observe_item_raw (c : Collector) (done : Bool) (idx : Nat) (iid cid n : Option Str) (a : Option Text) :
    c.observe (.item done idx true iid cid n a) = observeItemRaw c done idx (resolveItem c iid cid) cid n a := rfl

def noteCall (c : Collector) (cid : Option Str) (itemId : Str) : List (Str × Str) :=
  match nonEmpty cid with
  | some cid => if c.itemOfCall.any (fun e => e.1 == cid) then c.itemOfCall else c.itemOfCall ++ [(cid, itemId)]
  | none => c.itemOfCall

/-- `observe` on a function-call `item` event, with the resolved item id as a parameter -/
def observeItem (c : Collector) (done : Bool) (idx : Nat) (itemId : Str) (cid n : Option Str) (a : Option Text) :
    Collector :=
  let e := getBuf c.byItem itemId
  let args := (a.filter (fun a => !a.isEmpty)).getD e.args
  if itemId = 0 then c else
  if done = false then
    { c with byItem := putBuf c.byItem itemId
               { outputIndex := idx, callId := (nonEmpty cid).or e.callId, name := n.or e.name, args := args },
             itemOfCall := noteCall c cid itemId }
  else
    match cid.or e.callId, n.or e.name with
    | some cid', some n' =>
      { byItem := c.byItem.filter (fun x => x.1 != itemId), itemOfCall := noteCall c cid itemId,
        completed := c.completed ++ [{ outputIndex := idx, callId := cid', itemId := itemId, name := n', args := args }] }
    | _, _ => { c with byItem := c.byItem.filter (fun x => x.1 != itemId), itemOfCall := noteCall c cid itemId }

theorem observeItemRaw_eq (c : Collector) (done : Bool) (idx : Nat) (i : Str) (cid n : Option Str) (a : Option Text) :
    observeItemRaw c done idx i cid n a = observeItem c done idx i cid n a := by
  have hor : ∀ (x y : Option Str), x.or ((nonEmpty x).or y) = x.or y := by
    intro x y; cases x <;> simp [nonEmpty]
  have hor2 : ∀ (x y : Option Str), x.or (x.or y) = x.or y := by
    intro x y; cases x <;> simp
  simp only [observeItemRaw, observeItem, noteCall, hor]
  cases done <;> cases h : (Option.filter (fun a => !List.isEmpty a) a) <;> simp [hor2]

theorem observe_item_eq (c : Collector) (done : Bool) (idx : Nat) (iid cid n : Option Str) (a : Option Text) :
    c.observe (.item done idx true iid cid n a) = observeItem c done idx (resolveItem c iid cid) cid n a := by
  rw [observe_item_raw, observeItemRaw_eq]

theorem observe_notFn (c : Collector) (done : Bool) (idx : Nat) (iid cid n : Option Str) (a : Option Text) :
    c.observe (.item done idx false iid cid n a) = c := rfl

theorem observeItem_completed (c : Collector) (done : Bool) (idx : Nat) (i : Str) (cid n : Option Str)
    (a : Option Text) :
    (observeItem c done idx i cid n a).completed = c.completed ∨
    (done = true ∧ ∃ x, (observeItem c done idx i cid n a).completed = c.completed ++ [x]) := by
  unfold observeItem
  by_cases hi : i = 0
  · left; simp [hi]
  · cases done
    · left; simp [hi]
    · simp only [hi, if_false]
      split
      · rename_i h; cases h
      · split
        · right; exact ⟨trivial, _, rfl⟩
        · left; rfl

/-- one event adds at most one call, and only a function-call `done` event adds one -/
theorem observe_completed (c : Collector) (e : PEv) :
    (c.observe e).completed = c.completed ∨
    (isDoneFn e = true ∧ ∃ x, (c.observe e).completed = c.completed ++ [x]) := by
  cases e with
  | item done idx isFn iid cid n a =>
    cases isFn
    · left; rfl
    · rw [observe_item_eq]
      rcases observeItem_completed c done idx (resolveItem c iid cid) cid n a with h | ⟨hd, h⟩
      · exact Or.inl h
      · subst hd; exact Or.inr ⟨rfl, h⟩
  | argsDelta iid idx d => left; cases iid <;> rfl
  | argsDone iid idx d => left; cases iid <;> rfl
  | other => left; rfl

theorem foldl_observe_length (evs : List PEv) (c : Collector) :
    (evs.foldl Collector.observe c).completed.length ≤ c.completed.length + (evs.filter isDoneFn).length := by
  induction evs generalizing c with
  | nil => simp
  | cons e es ih =>
    simp only [List.foldl_cons]
    refine Nat.le_trans (ih _) ?_
    rcases observe_completed c e with h | ⟨hd, x, h⟩
    · rw [h, List.filter_cons]; split <;> simp
    · rw [h, List.filter_cons, hd]; simp; omega

theorem collect_length_le (evs : List PEv) : (collect evs).length ≤ (evs.filter isDoneFn).length := by
  unfold collect
  rw [(drain_perm _).length_eq]
  simpa using foldl_observe_length evs {}

/-! #### well-formedness: the call-id → item-id table never maps to the empty item id -/

def Collector.WF (c : Collector) : Prop := ∀ e ∈ c.itemOfCall, e.2 ≠ 0

theorem wf_empty : Collector.WF {} := by intro e he; cases he

theorem nonEmpty_some {o : Option Str} {i : Str} (h : nonEmpty o = some i) : o = some i ∧ i ≠ 0 := by
  cases o with
  | none => simp [nonEmpty] at h
  | some j =>
    simp only [nonEmpty, Option.filter_some] at h
    split at h
    · rename_i hj
      cases h
      exact ⟨rfl, by simpa using hj⟩
    · cases h

theorem resolveItem_ne_zero (c : Collector) (hwf : c.WF) (iid cid : Option Str)
    (h : nonEmpty iid ≠ none ∨ nonEmpty cid ≠ none) : resolveItem c iid cid ≠ 0 := by
  unfold resolveItem
  split
  · rename_i i hi; exact (nonEmpty_some hi).2
  · rename_i hi
    have hc : nonEmpty cid ≠ none := by
      rcases h with h | h
      · exact absurd hi h
      · exact h
    cases hcid : nonEmpty cid with
    | none => exact absurd hcid hc
    | some k =>
      have hk := (nonEmpty_some hcid).2
      simp only [Option.bind_some, Option.getD_some]
      split
      · rename_i i hf
        cases hfind : List.find? (fun e => e.fst == k) c.itemOfCall with
        | none => simp [hfind] at hf
        | some e =>
          simp [hfind] at hf
          subst hf
          exact hwf e (List.mem_of_find?_eq_some hfind)
      · exact hk

theorem noteCall_wf (c : Collector) (hwf : c.WF) (cid : Option Str) (i : Str) (hi : i ≠ 0) :
    ∀ e ∈ noteCall c cid i, e.2 ≠ 0 := by
  unfold noteCall
  split
  · split
    · exact hwf
    · intro e he
      rcases List.mem_append.mp he with he | he
      · exact hwf e he
      · simp at he; subst he; exact hi
  · exact hwf

theorem observeItem_wf (c : Collector) (hwf : c.WF) (done : Bool) (idx : Nat) (i : Str) (cid n : Option Str)
    (a : Option Text) : (observeItem c done idx i cid n a).WF := by
  unfold observeItem
  by_cases hi : i = 0
  · simpa [hi] using hwf
  · simp only [hi, if_false]
    split
    · exact noteCall_wf c hwf cid i hi
    · split <;> exact noteCall_wf c hwf cid i hi

theorem observe_wf (c : Collector) (hwf : c.WF) (e : PEv) : (c.observe e).WF := by
  cases e with
  | item done idx isFn iid cid n a =>
    cases isFn
    · exact hwf
    · rw [observe_item_eq]; exact observeItem_wf c hwf _ _ _ _ _ _
  | argsDelta iid idx d => cases iid <;> exact hwf
  | argsDone iid idx d => cases iid <;> exact hwf
  | other => exact hwf

theorem foldl_observe_wf (evs : List PEv) (c : Collector) (hwf : c.WF) : (evs.foldl Collector.observe c).WF := by
  induction evs generalizing c with
  | nil => exact hwf
  | cons e es ih => exact ih _ (observe_wf c hwf e)

/-- every collector reachable from the empty one is well-formed -/
theorem reachable_wf (evs : List PEv) : (evs.foldl Collector.observe {}).WF := foldl_observe_wf evs {} wf_empty

theorem observeItem_done_some (c : Collector) (idx : Nat) (i : Str) (hi : i ≠ 0) (cid n : Str)
    (a : Option Text) :
    (observeItem c true idx i (some cid) (some n) a).completed =
      c.completed ++ [{ outputIndex := idx, callId := cid, itemId := i, name := n,
                        args := (a.filter (fun a => !a.isEmpty)).getD (getBuf c.byItem i).args }] := by
  simp [observeItem, hi]

/-- a done event that carries an item id (or call id), a call id and a name yields exactly one call with that
call id, name and output index. (`c.WF` is needed: see `done_collected_cex`.) -/
theorem done_collected (c : Collector) (hwf : c.WF) (idx : Nat) (iid : Option Str) (cid n : Str) (a : Option Text)
    (h : nonEmpty iid ≠ none ∨ cid ≠ 0) :
    ∃ x, (c.observe (.item true idx true iid (some cid) (some n) a)).completed = c.completed ++ [x] ∧
      x.callId = cid ∧ x.name = n ∧ x.outputIndex = idx := by
  have hi : resolveItem c iid (some cid) ≠ 0 := by
    apply resolveItem_ne_zero c hwf
    rcases h with h | h
    · exact Or.inl h
    · right; simp [nonEmpty, h]
  rw [observe_item_eq, observeItem_done_some c idx _ hi cid n a]
  exact ⟨_, rfl, rfl, rfl, rfl⟩

/-- the exact condition, for an arbitrary collector -/
theorem done_collected_iff (c : Collector) (idx : Nat) (iid : Option Str) (cid n : Str) (a : Option Text) :
    (∃ x, (c.observe (.item true idx true iid (some cid) (some n) a)).completed = c.completed ++ [x] ∧
      x.callId = cid ∧ x.name = n ∧ x.outputIndex = idx) ↔ resolveItem c iid (some cid) ≠ 0 := by
  constructor
  · rintro ⟨x, hx, -⟩ h0
    rw [observe_item_eq, h0] at hx
    simp [observeItem] at hx
  · intro hi
    rw [observe_item_eq, observeItem_done_some c idx _ hi cid n a]
    exact ⟨_, rfl, rfl, rfl, rfl⟩

/-- without well-formedness the original statement fails: a table entry `(5, 0)` swallows the event -/
theorem done_collected_cex :
    let c : Collector := { itemOfCall := [(5, 0)] }
    (nonEmpty none ≠ none ∨ (5 : Str) ≠ 0) ∧
    (c.observe (.item true 0 true none (some 5) (some 7) none)).completed = c.completed := by decide

/-- `done_collected` for every collector state the loop can actually be in -/
theorem done_collected_reachable (evs : List PEv) (idx : Nat) (iid : Option Str) (cid n : Str) (a : Option Text)
    (h : nonEmpty iid ≠ none ∨ cid ≠ 0) :
    ∃ x, ((evs.foldl Collector.observe {}).observe (.item true idx true iid (some cid) (some n) a)).completed
        = (evs.foldl Collector.observe {}).completed ++ [x] ∧
      x.callId = cid ∧ x.name = n ∧ x.outputIndex = idx :=
  done_collected _ (reachable_wf evs) idx iid cid n a h

/-- the statement without `c.WF` is false -/
theorem done_collected_unrestricted_false :
    ¬ ∀ (c : Collector) (idx : Nat) (iid : Option Str) (cid n : Str) (a : Option Text),
        (nonEmpty iid ≠ none ∨ cid ≠ 0) →
        ∃ x, (c.observe (.item true idx true iid (some cid) (some n) a)).completed = c.completed ++ [x] ∧
          x.callId = cid ∧ x.name = n ∧ x.outputIndex = idx := by
  intro h
  obtain ⟨x, hx, -⟩ := h { itemOfCall := [(5, 0)] } 0 none 5 7 none (by decide)
  have h0 : (Collector.observe { itemOfCall := [(5, 0)] } (.item true 0 true none (some 5) (some 7) none)).completed
      = [] := by decide
  rw [h0] at hx
  cases hx

/-! #### argument assembly -/

theorem getBuf_putBuf (m : List (Str × Buf)) (k : Str) (b : Buf) : getBuf (putBuf m k b) k = b := by
  simp [getBuf, putBuf]

theorem nonEmpty_of_ne (i : Str) (hi : i ≠ 0) : nonEmpty (some i) = some i := by
  simp [nonEmpty, Option.filter_some, hi]

theorem resolveItem_some (c : Collector) (i : Str) (hi : i ≠ 0) (cid : Option Str) :
    resolveItem c (some i) cid = i := by
  simp [resolveItem, nonEmpty_of_ne i hi]

def deltaEvents (i : Str) (ds : List (Nat × Text)) : List PEv := ds.map (fun d => PEv.argsDelta (some i) d.1 d.2)

/-- argument deltas for item `i` append to its buffer and touch nothing else of it -/
theorem foldl_deltas (i : Str) (ds : List (Nat × Text)) (c : Collector) :
    ((deltaEvents i ds).foldl Collector.observe c).completed = c.completed ∧
    (getBuf ((deltaEvents i ds).foldl Collector.observe c).byItem i).args
      = (getBuf c.byItem i).args ++ (ds.map (·.2)).flatten ∧
    (getBuf ((deltaEvents i ds).foldl Collector.observe c).byItem i).callId = (getBuf c.byItem i).callId ∧
    (getBuf ((deltaEvents i ds).foldl Collector.observe c).byItem i).name = (getBuf c.byItem i).name := by
  induction ds generalizing c with
  | nil => simp [deltaEvents]
  | cons d ds ih =>
    have := ih (c.observe (.argsDelta (some i) d.1 d.2))
    simp only [deltaEvents, List.map_cons, List.foldl_cons] at this ⊢
    simp only [Collector.observe, getBuf_putBuf] at this
    simp only [Collector.observe, List.flatten_cons]
    refine ⟨this.1, ?_, this.2.2.1, this.2.2.2⟩
    rw [this.2.1, List.append_assoc]

/-- a `done` for item `i` that carries no arguments completes the call with the buffered arguments -/
theorem observe_done_noargs (c : Collector) (i : Str) (hi : i ≠ 0) (idx : Nat) (cid' n' : Option Str)
    (cid n : Str) (hc : cid'.or (getBuf c.byItem i).callId = some cid) (hn : n'.or (getBuf c.byItem i).name = some n) :
    (c.observe (.item true idx true (some i) cid' n' none)).completed =
      c.completed ++ [{ outputIndex := idx, callId := cid, itemId := i, name := n, args := (getBuf c.byItem i).args }] := by
  rw [observe_item_eq, resolveItem_some c i hi]
  simp [observeItem, hi, hc, hn]

/-- `added` for item `i` (non-empty item id, call id and name, no arguments), then argument deltas for `i`,
then a `done` for `i` without arguments: exactly one call is completed and its arguments are whatever the
buffer of `i` held before (`[]` for a fresh item) followed by the concatenated deltas -/
theorem args_assembled (c : Collector) (i : Str) (hi : i ≠ 0) (idx₀ idx₁ : Nat) (cid n : Str) (hcid : cid ≠ 0)
    (ds : List (Nat × Text)) (cid' n' : Option Str) :
    (((deltaEvents i ds).foldl Collector.observe
        (c.observe (.item false idx₀ true (some i) (some cid) (some n) none))).observe
        (.item true idx₁ true (some i) cid' n' none)).completed =
      c.completed ++ [{ outputIndex := idx₁, callId := cid'.getD cid, itemId := i, name := n'.getD n,
                        args := (getBuf c.byItem i).args ++ (ds.map (·.2)).flatten }] := by
  have h1 : c.observe (.item false idx₀ true (some i) (some cid) (some n) none) =
      { c with byItem := putBuf c.byItem i { outputIndex := idx₀, callId := some cid, name := some n,
                                              args := (getBuf c.byItem i).args },
               itemOfCall := noteCall c (some cid) i } := by
    rw [observe_item_eq, resolveItem_some c i hi]
    simp [observeItem, hi, nonEmpty_of_ne cid hcid]
  obtain ⟨hcomp, hargs, hcall, hname⟩ := foldl_deltas i ds (c.observe (.item false idx₀ true (some i) (some cid) (some n) none))
  rw [observe_done_noargs _ i hi idx₁ cid' n' (cid'.getD cid) (n'.getD n), hcomp, hargs]
  · simp [h1, getBuf_putBuf]
  · rw [hcall, h1]; cases cid' <;> simp [getBuf_putBuf]
  · rw [hname, h1]; cases n' <;> simp [getBuf_putBuf]

/-- for a fresh item the arguments are exactly the concatenated deltas -/
theorem args_assembled_fresh (c : Collector) (i : Str) (hi : i ≠ 0) (hfresh : (getBuf c.byItem i).args = [])
    (idx₀ idx₁ : Nat) (cid n : Str) (hcid : cid ≠ 0) (ds : List (Nat × Text)) :
    (((deltaEvents i ds).foldl Collector.observe
        (c.observe (.item false idx₀ true (some i) (some cid) (some n) none))).observe
        (.item true idx₁ true (some i) none none none)).completed =
      c.completed ++ [{ outputIndex := idx₁, callId := cid, itemId := i, name := n,
                        args := (ds.map (·.2)).flatten }] := by
  rw [args_assembled c i hi idx₀ idx₁ cid n hcid ds none none, hfresh]; rfl


/-! ### Tool choice -/

theorem mem_functionNames {ts : List (Bool × Option Str)} {m : Str} (h : m ∈ functionNames ts) :
    (true, some m) ∈ ts := by
  unfold functionNames at h
  obtain ⟨e, he, hm⟩ := List.mem_filterMap.mp h
  obtain ⟨b, o⟩ := e
  cases b with
  | false => simp at hm
  | true =>
    cases o with
    | none => simp at hm
    | some k =>
      simp only [if_true, Option.filter_some] at hm
      split at hm
      · cases hm; exact he
      · cases hm

theorem excluded_not_allowed (tc : ToolChoice) (n : Str) (h : Excluded tc n) : tc.enforcement.allows n = false := by
  cases tc with
  | auto => exact absurd h id
  | required => exact absurd h id
  | other => exact absurd h id
  | noneChoice => rfl
  | function o =>
    simp only [Excluded] at h
    cases o with
    | none => simp [ToolChoice.enforcement, Enforcement.allows]
    | some k =>
      have hk : k ≠ n := fun e => h (by rw [e])
      simp only [ToolChoice.enforcement, Enforcement.allows, Option.filter_some]
      split
      · rename_i j hj
        split at hj
        · cases hj; simp; exact fun e => hk e.symm
        · cases hj
      · simp
  | allowedTools modeNone ts =>
    cases modeNone with
    | true => rfl
    | false =>
      simp only [Excluded] at h
      simp only [ToolChoice.enforcement, Enforcement.allows]
      cases hc : (functionNames ts).contains n with
      | false => rfl
      | true => exact absurd (mem_functionNames (List.contains_iff_mem.mp hc)) h

/-! ### `answerCalls` -/

def execOf (enf : Enforcement) (cs : List Call) : List (Str × Str) :=
  (cs.filter (fun c => enf.allows c.name)).map (fun c => (c.callId, c.name))

def rejOf (enf : Enforcement) (cs : List Call) : List (Str × Str) :=
  (cs.filter (fun c => !enf.allows c.name)).map (fun c => (c.callId, c.name))

theorem execOf_rejOf_length (enf : Enforcement) (cs : List Call) :
    (execOf enf cs).length + (rejOf enf cs).length = cs.length := by
  induction cs with
  | nil => rfl
  | cons c cs ih =>
    simp only [execOf, rejOf, List.filter_cons, List.length_map] at ih ⊢
    cases enf.allows c.name <;> simp <;> omega

/-- characterisation of `answerCalls`: it answers the first `k` calls, `k` being what the bound leaves -/
theorem answerCalls_eq (enf : Enforcement) (mx : Nat) (cs : List Call) (count : Nat) :
    answerCalls enf mx cs count =
      ((cs.take (min cs.length (mx - count))).map (·.callId),
       execOf enf (cs.take (min cs.length (mx - count))),
       rejOf enf (cs.take (min cs.length (mx - count))),
       count + min cs.length (mx - count),
       decide (min cs.length (mx - count) < cs.length)) := by
  induction cs generalizing count with
  | nil => simp [answerCalls, execOf, rejOf]
  | cons c cs ih =>
    unfold answerCalls
    split
    · rename_i h
      have : mx - count = 0 := by omega
      simp [this, execOf, rejOf]
    · rename_i h
      have hk : min (c :: cs).length (mx - count) = min cs.length (mx - (count + 1)) + 1 := by
        simp only [List.length_cons]; omega
      rw [hk, ih (count + 1)]
      simp only [List.take_succ_cons, List.map_cons, execOf, rejOf, List.filter_cons, List.length_cons]
      cases enf.allows c.name <;> simp <;> omega

theorem answerCalls_spec (enf : Enforcement) (mx : Nat) (cs : List Call) (count : Nat) (ans : List Str)
    (ex rj : List (Str × Str)) (cnt : Nat) (hit : Bool)
    (h : answerCalls enf mx cs count = (ans, ex, rj, cnt, hit)) (hc : count ≤ mx) :
    ∃ k, ans = (cs.take k).map (·.callId) ∧ ex = execOf enf (cs.take k) ∧ rj = rejOf enf (cs.take k) ∧
      cnt = count + k ∧ cnt ≤ mx ∧ ex.length + rj.length = k ∧ (hit = false → cs.take k = cs) := by
  rw [answerCalls_eq] at h
  simp only [Prod.mk.injEq] at h
  obtain ⟨h1, h2, h3, h4, h5⟩ := h
  refine ⟨min cs.length (mx - count), h1.symm, h2.symm, h3.symm, h4.symm, ?_, ?_, ?_⟩
  · omega
  · rw [← h2, ← h3, execOf_rejOf_length, List.length_take]; omega
  · intro hh
    rw [hh] at h5
    have : ¬ (min cs.length (mx - count) < cs.length) := by simpa using h5
    exact List.take_of_length_le (by omega)

/-! ### the loop -/

abbrev Round.size (r : Round) : Nat := r.executed.length + r.rejected.length

def firstReq : Request := { hasPrev := false, input := [.user] }

def RanPrefix (cfg : Config) (a : Round) : Prop :=
  ∃ k, a.executed = execOf cfg.enf (a.calls.take k) ∧ a.rejected = rejOf cfg.enf (a.calls.take k)

/-- `req` is the proper successor request of the fully answered turn `a` -/
structure Adj (cfg : Config) (a : Round) (req : Request) : Prop where
  exec : a.executed = execOf cfg.enf a.calls
  rej : a.rejected = rejOf cfg.enf a.calls
  stateful : cfg.stateless = false →
    req.input = a.calls.map (fun c => Item.foutput c.callId) ++ msgItems cfg ∧ req.hasPrev = true
  stateless : cfg.stateless = true →
    req.input = a.request.input ++ a.calls.map (fun c => Item.fcall c.callId)
      ++ a.calls.map (fun c => Item.foutput c.callId) ++ msgItems cfg ∧ req.hasPrev = false

/-- everything we prove about the rounds of a run against the script `rs0` -/
structure RunOk (cfg : Config) (rs0 : List Response) (rounds : List Round) : Prop where
  per : ∀ a ∈ rounds, cfg.valid a.request = true ∧ RanPrefix cfg a
  chain : ∀ i a b, rounds[i]? = some a → rounds[i+1]? = some b → Adj cfg a b.request
  first : ∀ a, rounds[0]? = some a → a.request = firstReq
  sum : (rounds.map Round.size).sum ≤ cfg.maxCalls
  len : rounds.length ≤ rs0.length
  coll : ∀ (i : Nat) (a : Round) (r : Response), rounds[i]? = some a → rs0[i]? = some r → a.calls = [] ∨ a.calls = collect r.events

theorem RunOk.snoc {cfg : Config} {rs0 : List Response} {rounds : List Round} (h : RunOk cfg rs0 rounds) (b : Round)
    (hv : cfg.valid b.request = true) (hp : RanPrefix cfg b)
    (hadj : ∀ a, rounds.getLast? = some a → Adj cfg a b.request)
    (hfirst : rounds = [] → b.request = firstReq)
    (hsum : (rounds.map Round.size).sum + b.size ≤ cfg.maxCalls)
    (hlen : rounds.length < rs0.length)
    (hcoll : ∀ r, rs0[rounds.length]? = some r → b.calls = [] ∨ b.calls = collect r.events) :
    RunOk cfg rs0 (rounds ++ [b]) where
  per := by
    intro a ha
    rcases List.mem_append.mp ha with ha | ha
    · exact h.per a ha
    · simp at ha; subst ha; exact ⟨hv, hp⟩
  chain := by
    intro i a' b' ha' hb'
    by_cases h1 : i + 1 < rounds.length
    · rw [List.getElem?_append_left (by omega)] at ha' hb'
      exact h.chain i a' b' ha' hb'
    · by_cases h2 : i + 1 = rounds.length
      · rw [List.getElem?_append_left (by omega)] at ha'
        rw [List.getElem?_append_right (by omega)] at hb'
        have : i + 1 - rounds.length = 0 := by omega
        rw [this] at hb'
        simp at hb'
        subst hb'
        apply hadj
        rw [List.getLast?_eq_getElem?, ← ha']
        congr 1; omega
      · rw [List.getElem?_eq_none (by simp; omega)] at hb'
        cases hb'
  first := by
    intro a ha
    cases rounds with
    | nil => simp at ha; subst ha; exact hfirst rfl
    | cons x xs => exact h.first a (by simpa using ha)
  sum := by
    simpa [List.map_append, List.sum_append] using hsum
  len := by simp; omega
  coll := by
    intro i a r ha hr
    by_cases h1 : i < rounds.length
    · rw [List.getElem?_append_left h1] at ha
      exact h.coll i a r ha hr
    · by_cases h2 : i = rounds.length
      · subst h2
        simp at ha
        subst ha
        exact hcoll r hr
      · rw [List.getElem?_eq_none (by simp; omega)] at ha
        cases ha

/-- the request the loop builds from its state (`mk` in `loop`) -/
def mkReq (cfg : Config) (st : LoopSt) : Option Request :=
  match st.followup with
  | some outs =>
    if cfg.stateless then some { hasPrev := false, input := st.history }
    else if st.havePrev then some { hasPrev := true, input := outs ++ msgItems cfg } else none
  | none => some { hasPrev := false, input := [.user] }

/-- how the pending tool outputs of a state relate to the last round -/
structure Pending (cfg : Config) (st : LoopSt) (outs : List Item) (a : Round) : Prop where
  outs_eq : outs = a.calls.map (fun c => Item.foutput c.callId)
  exec : a.executed = execOf cfg.enf a.calls
  rej : a.rejected = rejOf cfg.enf a.calls
  hist : cfg.stateless = true →
    st.history = a.request.input ++ a.calls.map (fun c => Item.fcall c.callId) ++ outs ++ msgItems cfg
  prev : cfg.stateless = false → st.havePrev = true

/-- the loop invariant: `rs0` is the whole script, `rs` what is left of it -/
structure Inv (cfg : Config) (rs0 rs : List Response) (st : LoopSt) : Prop where
  ok : RunOk cfg rs0 st.rounds
  script : rs0.drop st.rounds.length = rs
  count : (st.rounds.map Round.size).sum = st.count
  fresh : st.followup = none → st.rounds = [] ∧ st.history = [.user]
  pending : ∀ outs, st.followup = some outs → ∃ a, st.rounds.getLast? = some a ∧ Pending cfg st outs a

theorem Inv.init (cfg : Config) (rs : List Response) : Inv cfg rs rs {} where
  ok := {
    per := by intro a ha; cases ha
    chain := by intro i a b ha; simp at ha
    first := by intro a ha; simp at ha
    sum := by simp
    len := by simp
    coll := by intro i a r ha; simp at ha }
  script := rfl
  count := rfl
  fresh := fun _ => ⟨rfl, rfl⟩
  pending := by intro outs h; cases h

theorem Inv.mk_props {cfg : Config} {rs0 rs : List Response} {st : LoopSt} (inv : Inv cfg rs0 rs st)
    (req : Request) (hmk : mkReq cfg st = some req) :
    (∀ a, st.rounds.getLast? = some a → Adj cfg a req) ∧ (st.rounds = [] → req = firstReq) := by
  unfold mkReq at hmk
  cases hf : st.followup with
  | none =>
    rw [hf] at hmk
    simp only [Option.some.injEq] at hmk
    obtain ⟨hr, -⟩ := inv.fresh hf
    refine ⟨?_, fun _ => hmk.symm⟩
    intro a ha; rw [hr] at ha; cases ha
  | some outs =>
    rw [hf] at hmk
    obtain ⟨a, hlast, hp⟩ := inv.pending outs hf
    refine ⟨?_, ?_⟩
    · intro a' ha'
      rw [hlast] at ha'; cases ha'
      by_cases hs : cfg.stateless = true
      · simp only [hs, if_true, Option.some.injEq] at hmk
        subst hmk
        refine ⟨hp.exec, hp.rej, fun h => absurd (hs.symm.trans h) (by decide), fun _ => ⟨?_, rfl⟩⟩
        rw [hp.hist hs, hp.outs_eq]
      · have hs : cfg.stateless = false := by simpa using hs
        have hprev := hp.prev hs
        simp only [hs, hprev, if_true, Bool.false_eq_true, if_false, Option.some.injEq] at hmk
        subst hmk
        refine ⟨hp.exec, hp.rej, fun _ => ⟨?_, rfl⟩, fun h => absurd (hs.symm.trans h) (by decide)⟩
        rw [hp.outs_eq]
    · intro hnil; rw [hnil] at hlast; cases hlast

theorem Inv.script_cons {cfg : Config} {rs0 rs : List Response} {r : Response} {st : LoopSt}
    (inv : Inv cfg rs0 (r :: rs) st) :
    rs0[st.rounds.length]? = some r ∧ st.rounds.length < rs0.length ∧ rs0.drop (st.rounds.length + 1) = rs := by
  have h := inv.script
  have h0 : rs0[st.rounds.length]? = some r := by
    have := List.getElem?_drop (xs := rs0) (i := st.rounds.length) (j := 0)
    rw [h] at this
    simpa using this.symm
  refine ⟨h0, ?_, ?_⟩
  · by_cases hl : st.rounds.length < rs0.length
    · exact hl
    · rw [List.getElem?_eq_none (by omega)] at h0; cases h0
  · rw [← List.drop_drop, h]; rfl

theorem finish_rounds (st : LoopSt) (s : String) : (finish st s).rounds = st.rounds := rfl

/-- adding a last round that answered a prefix of its calls -/
theorem Inv.last {cfg : Config} {rs0 rs : List Response} {r : Response} {st : LoopSt}
    (inv : Inv cfg rs0 (r :: rs) st) (req : Request) (hmk : mkReq cfg st = some req)
    (hv : cfg.valid req = true) (calls : List Call) (hcalls : calls = [] ∨ calls = collect r.events)
    (k : Nat) (hk : st.count + ((execOf cfg.enf (calls.take k)).length + (rejOf cfg.enf (calls.take k)).length) ≤ cfg.maxCalls) :
    RunOk cfg rs0 (st.rounds ++ [{ request := req, calls := calls, executed := execOf cfg.enf (calls.take k),
                                   rejected := rejOf cfg.enf (calls.take k) }]) := by
  obtain ⟨hadj, hfirst⟩ := inv.mk_props req hmk
  obtain ⟨hr, hlen, -⟩ := inv.script_cons
  refine inv.ok.snoc _ hv ⟨k, rfl, rfl⟩ hadj hfirst ?_ hlen ?_
  · rw [inv.count]; exact hk
  · intro r' hr'
    rw [hr] at hr'; cases hr'
    exact hcalls

theorem Inv.req_input {cfg : Config} {rs0 rs : List Response} {st : LoopSt} (inv : Inv cfg rs0 rs st)
    (req : Request) (hmk : mkReq cfg st = some req) (hs : cfg.stateless = true) : req.input = st.history := by
  unfold mkReq at hmk
  cases hf : st.followup with
  | none =>
    rw [hf] at hmk
    simp only [Option.some.injEq] at hmk
    rw [(inv.fresh hf).2, ← hmk]
  | some outs =>
    rw [hf] at hmk
    simp only [hs, if_true, Option.some.injEq] at hmk
    rw [← hmk]

theorem loop_ok (cfg : Config) (rs0 rs : List Response) (st : LoopSt) (inv : Inv cfg rs0 rs st) :
    RunOk cfg rs0 (loop cfg rs st).rounds := by
  fun_induction loop cfg rs st
  case case1 => exact inv.ok
  case case2 => exact inv.ok
  case case3 => exact inv.ok
  case case4 => exact inv.ok
  case case5 r rs st hcnt mk req hmk hv hstream =>
    have hv : cfg.valid req = true := by simpa using hv
    exact inv.last req hmk hv [] (Or.inl rfl) 0 (by simp [execOf, rejOf]; omega)
  case case6 r rs st hcnt mk req hmk hv hstream calls hempty =>
    have hv : cfg.valid req = true := by simpa using hv
    exact inv.last req hmk hv [] (Or.inl rfl) 0 (by simp [execOf, rejOf]; omega)
  case case7 r rs st hcnt mk req hmk hv hstream havePrev calls hempty hprev =>
    have hv : cfg.valid req = true := by simpa using hv
    exact inv.last req hmk hv calls (Or.inr rfl) 0 (by simp [execOf, rejOf]; omega)
  case case8 r rs st hcnt mk req hmk hv hstream havePrev calls hempty hprev ans ex rj cnt round hans =>
    have hv : cfg.valid req = true := by simpa using hv
    obtain ⟨k, -, hex, hrj, hcnt', hle, hlen, -⟩ :=
      answerCalls_spec _ _ _ _ _ _ _ _ _ hans (by omega)
    have := inv.last req hmk hv calls (Or.inr rfl) k (by rw [← hex, ← hrj, hlen]; omega)
    rw [← hex, ← hrj] at this
    exact this
  case case9 r rs st hcnt mk req hmk hv hstream havePrev calls hempty hprev ans ex rj cnt hit hans round history
      hhit outs ih =>
    have hv : cfg.valid req = true := by simpa using hv
    have hhit : hit = false := by simpa using hhit
    obtain ⟨k, hansEq, hex, hrj, hcnt', hle, hlen, htake⟩ :=
      answerCalls_spec _ _ _ _ _ _ _ _ _ hans (by omega)
    have htake := htake hhit
    rw [htake] at hansEq hex hrj
    have hok := inv.last req hmk hv calls (Or.inr rfl) k (by rw [htake, ← hex, ← hrj, hlen]; omega)
    rw [htake, ← hex, ← hrj] at hok
    apply ih
    refine ⟨hok, ?_, ?_, ?_, ?_⟩
    · simpa using inv.script_cons.2.2
    · simp only [List.map_append, List.sum_append, List.map_cons, List.map_nil, List.sum_cons, List.sum_nil]
      rw [inv.count]
      show st.count + (ex.length + rj.length + 0) = cnt
      omega
    · intro h; cases h
    · intro outs' houts
      refine ⟨round, by simp, ?_⟩
      have houts : outs' = outs := by
        simp only [Option.some.injEq] at houts; exact houts.symm
      subst houts
      have hout_eq : outs = calls.map (fun c => Item.foutput c.callId) := by
        show List.map Item.foutput ans = _
        rw [hansEq, List.map_map]; rfl
      refine ⟨hout_eq, hex, hrj, ?_, ?_⟩
      · intro hs
        show (if cfg.stateless = true then history ++ outs ++ msgItems cfg else history) = _
        have hh : history = st.history ++ List.map (fun c => Item.fcall c.callId) calls := by
          show (if cfg.stateless = true then _ else _) = _
          rw [if_pos hs]
        rw [if_pos hs, hh, inv.req_input req hmk hs]
      · intro hs
        have : ¬ ((!havePrev && !cfg.stateless) = true) := hprev
        rw [hs] at this
        simpa using this

/-- the master theorem: the rounds of a run satisfy `RunOk` against its script -/
theorem agentLoop_ok (cfg : Config) (rs : List Response) : RunOk cfg rs (agentLoop cfg rs).rounds :=
  loop_ok cfg rs rs {} (Inv.init cfg rs)

/-- every call of a turn is answered exactly once, by call id, in the provider's output order, in the very next
request (previous_response_id mode) -/
theorem answered_next (cfg : Config) (rs : List Response) (hs : cfg.stateless = false) (i : Nat) (a b : Round)
    (ha : (agentLoop cfg rs).rounds[i]? = some a) (hb : (agentLoop cfg rs).rounds[i+1]? = some b) :
    b.request.input = a.calls.map (fun c => Item.foutput c.callId) ++ msgItems cfg ∧ b.request.hasPrev = true :=
  ((agentLoop_ok cfg rs).chain i a b ha hb).stateful hs

/-- stateless history: the next request's input is the previous input extended by the calls, their answers
(same order), and the follow-up message -/
theorem answered_next_stateless (cfg : Config) (rs : List Response) (hs : cfg.stateless = true) (i : Nat)
    (a b : Round)
    (ha : (agentLoop cfg rs).rounds[i]? = some a) (hb : (agentLoop cfg rs).rounds[i+1]? = some b) :
    b.request.input = a.request.input ++ a.calls.map (fun c => Item.fcall c.callId)
        ++ a.calls.map (fun c => Item.foutput c.callId) ++ msgItems cfg ∧ b.request.hasPrev = false :=
  ((agentLoop_ok cfg rs).chain i a b ha hb).stateless hs

/-- a turn that has a successor ran or rejected each of its calls exactly once, in order -/
theorem each_call_once (cfg : Config) (rs : List Response) (i : Nat) (a b : Round)
    (ha : (agentLoop cfg rs).rounds[i]? = some a) (hb : (agentLoop cfg rs).rounds[i+1]? = some b) :
    a.executed = (a.calls.filter (fun c => cfg.enf.allows c.name)).map (fun c => (c.callId, c.name)) ∧
    a.rejected = (a.calls.filter (fun c => !cfg.enf.allows c.name)).map (fun c => (c.callId, c.name)) :=
  ⟨((agentLoop_ok cfg rs).chain i a b ha hb).exec, ((agentLoop_ok cfg rs).chain i a b ha hb).rej⟩

/-- in any turn (also the last) what ran / was rejected comes from a prefix of the calls, each at most once -/
theorem ran_prefix (cfg : Config) (rs : List Response) (a : Round) (ha : a ∈ (agentLoop cfg rs).rounds) :
    ∃ k, a.executed = ((a.calls.take k).filter (fun c => cfg.enf.allows c.name)).map (fun c => (c.callId, c.name)) ∧
         a.rejected = ((a.calls.take k).filter (fun c => !cfg.enf.allows c.name)).map (fun c => (c.callId, c.name)) :=
  ((agentLoop_ok cfg rs).per a ha).2

/-- a tool excluded by the configured tool choice is never executed -/
theorem barred_never_runs (tc : ToolChoice) (cfg : Config) (hc : cfg.enf = tc.enforcement) (rs : List Response)
    (a : Round) (ha : a ∈ (agentLoop cfg rs).rounds) (p : Str × Str) (hp : p ∈ a.executed) : ¬ Excluded tc p.2 := by
  obtain ⟨k, hex, -⟩ := ran_prefix cfg rs a ha
  rw [hex] at hp
  obtain ⟨c, hcm, rfl⟩ := List.mem_map.mp hp
  have hallow : cfg.enf.allows c.name = true := by simpa using (List.mem_filter.mp hcm).2
  intro hexcl
  have := excluded_not_allowed tc c.name hexcl
  rw [← hc, hallow] at this
  cases this

/-- the number of tool calls in a run is bounded -/
theorem bounded (cfg : Config) (rs : List Response) :
    ((agentLoop cfg rs).rounds.map (fun r => r.executed.length + r.rejected.length)).sum ≤ cfg.maxCalls :=
  (agentLoop_ok cfg rs).sum

/-- a request that fails validation is never sent -/
theorem invalid_never_sent (cfg : Config) (rs : List Response) (a : Round) (ha : a ∈ (agentLoop cfg rs).rounds) :
    cfg.valid a.request = true :=
  ((agentLoop_ok cfg rs).per a ha).1

theorem first_request (cfg : Config) (rs : List Response) (a : Round) (ha : (agentLoop cfg rs).rounds[0]? = some a) :
    a.request.input = [.user] ∧ a.request.hasPrev = false := by
  rw [(agentLoop_ok cfg rs).first a ha]; exact ⟨rfl, rfl⟩

/-- stateless corollary: every request's input extends the previous one -/
theorem stateless_extends (cfg : Config) (rs : List Response) (hs : cfg.stateless = true) (i : Nat) (a b : Round)
    (ha : (agentLoop cfg rs).rounds[i]? = some a) (hb : (agentLoop cfg rs).rounds[i+1]? = some b) :
    a.request.input <+: b.request.input := by
  rw [(answered_next_stateless cfg rs hs i a b ha hb).1, List.append_assoc, List.append_assoc]
  exact List.prefix_append _ _

/-- the calls recorded for a turn are the provider's calls of that turn's response, in output order -/
theorem calls_are_collected (cfg : Config) (rs : List Response) (i : Nat) (a : Round) (r : Response)
    (ha : (agentLoop cfg rs).rounds[i]? = some a) (hr : rs[i]? = some r) :
    a.calls = [] ∨ a.calls = collect r.events :=
  (agentLoop_ok cfg rs).coll i a r ha hr

theorem rounds_le_script (cfg : Config) (rs : List Response) : (agentLoop cfg rs).rounds.length ≤ rs.length :=
  (agentLoop_ok cfg rs).len

/-- the calls recorded for a turn are sorted by output index -/
theorem calls_sorted (cfg : Config) (rs : List Response) (a : Round) (ha : a ∈ (agentLoop cfg rs).rounds) :
    a.calls.Pairwise (fun x y => x.outputIndex ≤ y.outputIndex) := by
  obtain ⟨i, hi⟩ := List.mem_iff_getElem?.mp ha
  have hlt : i < (agentLoop cfg rs).rounds.length := by
    by_cases h : i < (agentLoop cfg rs).rounds.length
    · exact h
    · rw [List.getElem?_eq_none (by omega)] at hi; cases hi
  have hlt' : i < rs.length := Nat.lt_of_lt_of_le hlt (rounds_le_script cfg rs)
  rcases calls_are_collected cfg rs i a rs[i] hi (List.getElem?_eq_getElem hlt') with h | h
  · rw [h]; exact List.Pairwise.nil
  · rw [h]; exact drain_sorted _

/-! ### non-vacuity checks on concrete scripts -/

def exCfg (stateless : Bool) (maxCalls : Nat := 32) : Config :=
  { stateless := stateless, followupMsg := true, enf := .only [7], valid := fun _ => true, maxCalls := maxCalls }

/-- a response with two calls, reported out of output order: index 1 (tool 7, allowed) then index 0 (tool 8, barred) -/
def exTwoCalls : Response :=
  { streamOk := true, hasResponseId := true,
    events := [.item true 1 true (some 101) (some 11) (some 7) (some [1, 2]),
               .item true 0 true (some 100) (some 10) (some 8) none] }

def exQuiet : Response := { streamOk := true, hasResponseId := true, events := [] }

/-- a two-turn run in previous_response_id mode: the second request answers both calls, by call id, in output order -/
example :
    (agentLoop (exCfg false) [exTwoCalls, exQuiet]).rounds =
      [{ request := { hasPrev := false, input := [.user] },
         calls := [{ outputIndex := 0, callId := 10, itemId := 100, name := 8, args := [] },
                   { outputIndex := 1, callId := 11, itemId := 101, name := 7, args := [1, 2] }],
         executed := [(11, 7)], rejected := [(10, 8)] },
       { request := { hasPrev := true, input := [.foutput 10, .foutput 11, .followupMsg] } }] := by decide

/-- the same run, stateless: the second request carries the whole history -/
example :
    ((agentLoop (exCfg true) [exTwoCalls, exQuiet]).rounds.map (·.request)) =
      [{ hasPrev := false, input := [.user] },
       { hasPrev := false, input := [.user, .fcall 10, .fcall 11, .foutput 10, .foutput 11, .followupMsg] }] := by
  decide

/-- a response with 33 calls hits the bound: 32 run, the loop stops, nothing further is sent -/
def exFlood : Response :=
  { streamOk := true, hasResponseId := true,
    events := (List.range 33).map (fun i => PEv.item true i true (some (i + 1)) (some (i + 1)) (some 7) none) }

example :
    let out := agentLoop { stateless := false, followupMsg := false, enf := .all, valid := fun _ => true,
                           maxCalls := 32 }
      [exFlood, exQuiet]
    out.rounds.length = 1 ∧
    out.rounds.map (fun r => (r.calls.length, r.executed.length, r.rejected.length)) = [(33, 32, 0)] ∧
    (out.rounds.map (fun r => r.executed.length + r.rejected.length)).sum = 32 := by decide

/-- a response with three calls (output order: tool 8 barred, tool 7, tool 7) under `maxCalls := 2`: the run is cut
mid-response. The first two calls are answered (one rejected, one run: rejections count towards the bound), the
third is neither run nor rejected, and no further request is sent although the script goes on -/
def exThreeCalls : Response :=
  { streamOk := true, hasResponseId := true,
    events := [.item true 1 true (some 101) (some 11) (some 7) none,
               .item true 2 true (some 102) (some 12) (some 7) none,
               .item true 0 true (some 100) (some 10) (some 8) none] }

example :
    (agentLoop (exCfg false 2) [exThreeCalls, exQuiet]).rounds =
      [{ request := { hasPrev := false, input := [.user] },
         calls := [{ outputIndex := 0, callId := 10, itemId := 100, name := 8, args := [] },
                   { outputIndex := 1, callId := 11, itemId := 101, name := 7, args := [] },
                   { outputIndex := 2, callId := 12, itemId := 102, name := 7, args := [] }],
         executed := [(11, 7)], rejected := [(10, 8)] }] := by decide

/-- `maxCalls := 2` reached exactly at the end of a response: both calls are answered, but the loop stops before
the request that would carry their outputs -/
example :
    (agentLoop (exCfg false 2) [exTwoCalls, exQuiet]).rounds.map (fun r => (r.request, r.executed, r.rejected)) =
      [({ hasPrev := false, input := [.user] }, [(11, 7)], [(10, 8)])] := by decide

/-- argument assembly on a concrete stream: `added`, two deltas, `done` -/
example :
    collect [.item false 0 true (some 100) (some 10) (some 7) none,
             .argsDelta (some 100) 0 [1, 2], .argsDelta (some 100) 0 [3],
             .item true 0 true (some 100) none none none] =
      [{ outputIndex := 0, callId := 10, itemId := 100, name := 7, args := [1, 2, 3] }] := by decide

end Rip.ToolLoop
