import Rip.Model.SeqAcct
namespace Rip.SeqAcct

/-- a well-formed token list numbers its frames consecutively from the counter's value and leaves
the counter right behind the last frame — whatever the batch sizes -/
theorem run_wellFormed (ts : List Tok) : ∀ (ms : List Nat) (s : St) (k : Nat),
    wellFormed ts = true → s.frames = List.range' (s.ctr - k) k → k ≤ s.ctr →
    ∃ k', (run ts ms s).frames = List.range' (s.ctr - k) k' ∧ (run ts ms s).ctr = (s.ctr - k) + k' := by
  induction ts using wellFormed.induct with
  | case1 =>
    intro ms s k _ hf hk
    exact ⟨k, by simpa [run] using hf, by simp [run]; omega⟩
  | case2 ts ih =>
    intro ms s k hw hf hk
    simp only [wellFormed] at hw
    simp only [run, ↓reduceIte]
    have := ih ms { ctr := s.ctr + 1, frames := s.frames ++ [s.ctr] } (k + 1) hw
      (by
        simp only
        rw [hf, show s.ctr + 1 - (k + 1) = s.ctr - k by omega, List.range'_concat]
        congr 1; simp; omega)
      (by simp; omega)
    simp only [show s.ctr + 1 - (k + 1) = s.ctr - k by omega] at this
    exact this
  | case3 ts ih =>
    intro ms s k hw hf hk
    simp only [wellFormed] at hw
    simp only [run]
    have := ih ms.tail { ctr := s.ctr + ms.headD 0, frames := s.frames ++ List.range' s.ctr (ms.headD 0) }
      (k + ms.headD 0) hw
      (by
        simp only
        rw [hf, show s.ctr + ms.headD 0 - (k + ms.headD 0) = s.ctr - k by omega]
        rw [show s.ctr = (s.ctr - k) + k by omega] 
        simp [List.range'_append_1])
      (by simp; omega)
    simp only [show s.ctr + ms.headD 0 - (k + ms.headD 0) = s.ctr - k by omega] at this
    exact this
  | case4 ts h1 h2 h3 =>
    intro ms s k hw
    exfalso
    unfold wellFormed at hw
    split at hw
    · exact h1 rfl
    · rename_i ts' ; exact h2 ts' rfl
    · rename_i ts' ; exact h3 ts' rfl
    · cases hw

/-- from a fresh start: frames `n, n+1, …` and the counter ends at `n +` the number of frames -/
theorem numbered (ts : List Tok) (ms : List Nat) (n : Nat) (h : wellFormed ts = true) :
    (run ts ms ⟨n, []⟩).frames = List.range' n (run ts ms ⟨n, []⟩).frames.length ∧
    (run ts ms ⟨n, []⟩).ctr = n + (run ts ms ⟨n, []⟩).frames.length := by
  obtain ⟨k', hf, hc⟩ := run_wellFormed ts ms ⟨n, []⟩ 0 h (by simp) (by simp)
  simp only [Nat.sub_zero] at hf hc
  rw [hf, hc]; simp

end Rip.SeqAcct
