import Rip.Model.Sse
namespace Rip.Sse
open Rip.Proto

/-! ### decoder: string-level chunk invariance -/

theorem feed_append (d : Dec) (a b : Bytes) :
    d.feed (a ++ b) = ((d.feed a).1.feed b |>.1, (d.feed a).2 ++ ((d.feed a).1.feed b).2) := by
  induction a generalizing d with
  | nil => simp [Dec.feed]
  | cons x xs ih =>
    simp only [List.cons_append, Dec.feed]
    split
    · simp only [ih]
      simp [List.append_assoc]
    · exact ih _

/-- feeding a list of chunks one after another -/
def Dec.feedAll (d : Dec) : List Bytes → Dec × List Parsed
  | [] => (d, [])
  | c :: cs =>
    let (d1, e1) := d.push c
    let (d2, e2) := Dec.feedAll d1 cs
    (d2, e1 ++ e2)

theorem feedAll_flatten (d : Dec) (cs : List Bytes) : d.feedAll cs = d.push cs.flatten := by
  induction cs generalizing d with
  | nil => simp [Dec.feedAll, Dec.push, Dec.feed]
  | cons c cs ih =>
    simp only [Dec.feedAll, List.flatten_cons, Dec.push] at *
    rw [feed_append, ih]

/-! ### mapper -/

def seqOf : FrameOut → Nat
  | .provider s _ _ _ => s
  | .textDelta s _ => s

def providerRaw : FrameOut → Option (Option Bytes × Bytes)
  | .provider _ e r _ => some (e, r)
  | .textDelta _ _ => none

def textOf : FrameOut → Option Bytes
  | .provider _ _ _ _ => none
  | .textDelta _ d => some d

theorem mapParsed_seqs (δ : Bytes → Option Bytes) (s : Nat) (p : Parsed) :
    (mapParsed δ s p).map seqOf = List.range' s (mapParsed δ s p).length := by
  unfold mapParsed
  split
  · simp [seqOf]
  · split <;> simp [seqOf, List.range']

theorem mapAll_seqs (δ : Bytes → Option Bytes) (s : Nat) (ps : List Parsed) :
    (mapAll δ s ps).map seqOf = List.range' s (mapAll δ s ps).length := by
  induction ps generalizing s with
  | nil => simp [mapAll]
  | cons p ps ih =>
    simp only [mapAll, List.map_append, List.length_append]
    rw [mapParsed_seqs, ih, List.range'_append_1]

theorem mapAll_providers (δ : Bytes → Option Bytes) (s : Nat) (ps : List Parsed) :
    (mapAll δ s ps).filterMap providerRaw = ps.map (fun p => (p.event, p.raw)) := by
  induction ps generalizing s with
  | nil => simp [mapAll]
  | cons p ps ih =>
    simp only [mapAll, List.filterMap_append, ih, List.map_cons]
    unfold mapParsed
    split
    · simp [providerRaw]
    · split <;> simp [providerRaw]

theorem mapAll_text (δ : Bytes → Option Bytes) (s : Nat) (ps : List Parsed) :
    (mapAll δ s ps).filterMap textOf = ps.filterMap (fun p => if isDone p then none else δ p.raw) := by
  induction ps generalizing s with
  | nil => simp [mapAll]
  | cons p ps ih =>
    simp only [mapAll, List.filterMap_append, ih, List.filterMap_cons]
    unfold mapParsed
    split
    · rename_i h; simp [textOf, h]
    · rename_i h
      split
      · rename_i d h2; simp [h, h2, List.filterMap_cons, textOf]
      · rename_i h2; simp [h, h2, List.filterMap_cons, textOf]

/-! ### pipe: numbering invariant -/

/-- `seq` equals start + frames emitted, and the emitted seqs are start, start+1, … -/
def Pipe.Numbered (start : Nat) (p : Pipe) : Prop :=
  p.seq = start + p.out.length ∧ p.out.map seqOf = List.range' start p.out.length

theorem numbered_pushStr (δ : Bytes → Option Bytes) (start : Nat) (p : Pipe) (t : Bytes)
    (h : p.Numbered start) : (p.pushStr δ t).Numbered start := by
  unfold Pipe.pushStr
  simp only
  constructor
  · simp only [List.length_append]; rw [h.1]; omega
  · simp only [List.map_append, List.length_append]
    rw [h.2, mapAll_seqs, h.1, List.range'_append_1]

theorem numbered_carry (start : Nat) (p : Pipe) (c : Bytes) (h : p.Numbered start) :
    ({ p with carry := c } : Pipe).Numbered start := h

theorem numbered_clear (start : Nat) (p : Pipe) (h : p.Numbered start) : p.clear.Numbered start := h

theorem numbered_replace (δ : Bytes → Option Bytes) (start : Nat) (p : Pipe) (e : Nat)
    (h : p.Numbered start) : (p.replace δ e).Numbered start :=
  numbered_pushStr _ _ _ _ (numbered_carry _ _ _ h)

theorem numbered_pushValid (δ : Bytes → Option Bytes) (start : Nat) (p : Pipe) (n : Nat)
    (h : p.Numbered start) : (p.pushValid δ n).Numbered start :=
  numbered_pushStr _ _ _ _ (numbered_carry _ _ _ h)

theorem numbered_drain (δ : Bytes → Option Bytes) (start : Nat) (p : Pipe) (fuel : Nat)
    (h : p.Numbered start) : (p.drain δ fuel).Numbered start := by
  induction fuel generalizing p with
  | zero => exact h
  | succ n ih =>
    unfold Pipe.drain
    split
    · exact numbered_clear _ _ (numbered_pushStr _ _ _ _ h)
    · exact h
    · split
      · exact numbered_clear _ _ (numbered_replace _ _ _ _ h)
      · exact ih _ (numbered_replace _ _ _ _ h)
    · split
      · exact numbered_clear _ _ (numbered_pushValid _ _ _ _ h)
      · split
        · exact numbered_pushValid _ _ _ _ h
        · split
          · exact numbered_clear _ _ (numbered_replace _ _ _ _ (numbered_pushValid _ _ _ _ h))
          · exact ih _ (numbered_replace _ _ _ _ (numbered_pushValid _ _ _ _ h))

theorem numbered_pushBytes (δ : Bytes → Option Bytes) (start : Nat) (p : Pipe) (c : Bytes)
    (h : p.Numbered start) : (p.pushBytes δ c).Numbered start := by
  unfold Pipe.pushBytes
  split
  · exact h
  · exact numbered_drain _ _ _ _ (numbered_carry _ _ _ h)

theorem numbered_finish (δ : Bytes → Option Bytes) (start : Nat) (p : Pipe)
    (h : p.Numbered start) : (p.finish δ).Numbered start := by
  unfold Pipe.finish
  split
  · exact h
  · simp only
    constructor
    · simp only [List.length_append]; rw [h.1]; omega
    · simp only [List.map_append, List.length_append]
      rw [h.2, mapAll_seqs, h.1, List.range'_append_1]

theorem numbered_feed (δ : Bytes → Option Bytes) (start : Nat) (cs : List Bytes) :
    (feed δ start cs).Numbered start := by
  unfold feed
  apply numbered_finish
  have : ∀ (p : Pipe), p.Numbered start → (cs.foldl (Pipe.pushBytes δ) p).Numbered start := by
    induction cs with
    | nil => intro p h; exact h
    | cons c cs ih => intro p h; exact ih _ (numbered_pushBytes _ _ _ _ h)
  exact this _ ⟨by simp [Pipe.init], by simp [Pipe.init]⟩

end Rip.Sse
