/-
C12: all-or-nothing theorem for the patch engine model (`applyPatchOps`): when the engine
reports an error, the `file` component of the resulting file system is the initial one.
-/
import Rip.Model.Patch
namespace Rip.Patch
open Rip.Proto

/-- well-formed file system: root is a directory, nothing is both file and directory,
    every ancestor of an existing entry is a directory -/
def WF (fs : FS) : Prop :=
  fs.dir [] = true ∧
  (∀ p, fs.file p ≠ none → fs.dir p = false) ∧
  (∀ p, (fs.file p ≠ none ∨ fs.dir p = true) → ∀ q, q <+: p → q ≠ p → fs.dir q = true)

/-- the oracle "is there a file strictly below p" is exact -/
def FileBelowSpec (fb : FS → Path → Bool) : Prop :=
  ∀ fs p, fb fs p = true ↔ ∃ q, p <+: q ∧ q ≠ p ∧ fs.file q ≠ none

/-! ### paths and prefixes -/

theorem mem_prefixes {p q : Path} : q ∈ prefixes p ↔ q <+: p := by
  unfold prefixes
  simp only [List.mem_map, List.mem_range]
  constructor
  · rintro ⟨n, _, rfl⟩
    exact List.take_prefix n p
  · intro h
    refine ⟨q.length, ?_, (List.prefix_iff_eq_take.mp h).symm⟩
    have := h.length_le
    omega

theorem strict_prefix_dropLast {q p : Path} (h : q <+: p) (hne : q ≠ p) : q <+: p.dropLast := by
  obtain ⟨t, rfl⟩ := h
  have ht : t ≠ [] := by
    intro ht
    apply hne
    simp [ht]
  rw [List.dropLast_append_of_ne_nil ht]
  exact List.prefix_append _ _

theorem not_prefix_dropLast {p : Path} (h : p ≠ []) : ¬ p <+: p.dropLast := by
  intro hp
  have h1 := hp.length_le
  have h2 : p.length ≠ 0 := by
    intro h0
    exact h (List.length_eq_zero_iff.mp h0)
  simp only [List.length_dropLast] at h1
  omega

theorem dropLast_ne {p : Path} (h : p ≠ []) : p.dropLast ≠ p := by
  intro he
  apply not_prefix_dropLast h
  rw [he]
  exact List.prefix_refl p

/-! ### file-system primitives -/

@[simp] theorem setFile_file (fs : FS) (p : Path) (v : Option Bytes) (q : Path) :
    (fs.setFile p v).file q = if q = p then v else fs.file q := rfl

@[simp] theorem setFile_dir (fs : FS) (p : Path) (v : Option Bytes) :
    (fs.setFile p v).dir = fs.dir := rfl

theorem createDirAll_some {fs fs' : FS} {p : Path} (h : fs.createDirAll p = some fs') :
    (∀ q, q <+: p → fs.file q = none) ∧ (∀ q, fs'.file q = fs.file q) ∧
    (∀ q, fs'.dir q = true ↔ (fs.dir q = true ∨ q <+: p)) := by
  unfold FS.createDirAll at h
  split at h
  · cases h
  · rename_i hn
    cases h
    refine ⟨?_, fun _ => rfl, ?_⟩
    · intro q hq
      cases hf : fs.file q with
      | none => rfl
      | some b =>
        exfalso
        apply hn
        rw [List.any_eq_true]
        exact ⟨q, mem_prefixes.mpr hq, by simp [hf]⟩
    · intro q
      simp [mem_prefixes]

theorem write_some {fs fs' : FS} {p : Path} {b : Bytes} (h : fs.write p b = some fs') :
    p ≠ [] ∧ fs.dir p = false ∧ fs.dir p.dropLast = true ∧ fs' = fs.setFile p (some b) := by
  unfold FS.write at h
  split at h
  · cases h
  · rename_i h1
    split at h
    · cases h
    · rename_i h2
      split at h
      · cases h
      · rename_i h3
        cases h
        refine ⟨h1, by simpa using h2, by simpa using h3, rfl⟩

theorem write_eq_some {fs : FS} {p : Path} (b : Bytes) (h1 : p ≠ []) (h2 : fs.dir p = false)
    (h3 : fs.dir p.dropLast = true) : fs.write p b = some (fs.setFile p (some b)) := by
  unfold FS.write
  simp [h1, h2, h3]

theorem removeFile_some {fs fs' : FS} {p : Path} (h : fs.removeFile p = some fs') :
    fs.file p ≠ none ∧ fs' = fs.setFile p none := by
  unfold FS.removeFile at h
  split at h
  · rename_i h1
    cases h
    refine ⟨?_, rfl⟩
    intro hn
    simp [hn] at h1
  · cases h

theorem rename_some {fs fs' : FS} {a b : Path} (h : fs.rename a b = some fs') :
    ∃ bytes, fs.file a = some bytes ∧ b ≠ [] ∧ fs.dir b = false ∧ fs.dir b.dropLast = true ∧
      fs' = (fs.setFile a none).setFile b (some bytes) := by
  unfold FS.rename at h
  split at h
  · cases h
  · rename_i bytes hb
    split at h
    · cases h
    · rename_i h1
      split at h
      · cases h
      · rename_i h2
        split at h
        · cases h
        · rename_i h3
          cases h
          refine ⟨bytes, hb, h1, ?_, by simpa using h3, rfl⟩
          simp only [FS.exists, Bool.or_eq_true, not_or] at h2
          simpa using h2.2

/-! ### well-formedness is preserved by the primitives -/

theorem WF_createDirAll {fs fs' : FS} {p : Path} (hwf : WF fs)
    (h : fs.createDirAll p = some fs') : WF fs' := by
  obtain ⟨hnf, hfile, hdir⟩ := createDirAll_some h
  obtain ⟨w1, w2, w3⟩ := hwf
  refine ⟨(hdir []).mpr (Or.inl w1), ?_, ?_⟩
  · intro q hq
    rw [hfile] at hq
    cases hd : fs'.dir q with
    | false => rfl
    | true =>
      exfalso
      rcases (hdir q).mp hd with h1 | h1
      · rw [w2 q hq] at h1
        cases h1
      · exact hq (hnf q h1)
  · intro q' hq' q hpre hne
    rw [hfile, hdir] at hq'
    rw [hdir]
    rcases hq' with h1 | h1 | h1
    · exact Or.inl (w3 q' (Or.inl h1) q hpre hne)
    · exact Or.inl (w3 q' (Or.inr h1) q hpre hne)
    · exact Or.inr (hpre.trans h1)

theorem WF_setFile_some {fs : FS} {x : Path} (b : Bytes) (hwf : WF fs) (h2 : fs.dir x = false)
    (h3 : fs.dir x.dropLast = true) : WF (fs.setFile x (some b)) := by
  obtain ⟨w1, w2, w3⟩ := hwf
  refine ⟨w1, ?_, ?_⟩
  · intro q hq
    simp only [setFile_file, setFile_dir] at hq ⊢
    by_cases hqx : q = x
    · rw [hqx]
      exact h2
    · rw [if_neg hqx] at hq
      exact w2 q hq
  · intro q' hq' q hpre hne
    simp only [setFile_file, setFile_dir] at hq' ⊢
    by_cases hqx : q' = x
    · subst hqx
      have hq := strict_prefix_dropLast hpre hne
      by_cases he : q = q'.dropLast
      · rw [he]
        exact h3
      · exact w3 _ (Or.inr h3) q hq he
    · rw [if_neg hqx] at hq'
      exact w3 q' hq' q hpre hne

theorem WF_write {fs fs' : FS} {x : Path} {b : Bytes} (hwf : WF fs)
    (h : fs.write x b = some fs') : WF fs' := by
  obtain ⟨_, h2, h3, rfl⟩ := write_some h
  exact WF_setFile_some b hwf h2 h3

theorem WF_setFile_none {fs : FS} (x : Path) (hwf : WF fs) : WF (fs.setFile x none) := by
  obtain ⟨w1, w2, w3⟩ := hwf
  refine ⟨w1, ?_, ?_⟩
  · intro q hq
    simp only [setFile_file, setFile_dir] at hq ⊢
    by_cases hqx : q = x
    · rw [if_pos hqx] at hq
      exact absurd rfl hq
    · rw [if_neg hqx] at hq
      exact w2 q hq
  · intro q' hq' q hpre hne
    simp only [setFile_file, setFile_dir] at hq' ⊢
    by_cases hqx : q' = x
    · rw [if_pos hqx] at hq'
      rcases hq' with h | h
      · exact absurd rfl h
      · exact w3 q' (Or.inr h) q hpre hne
    · rw [if_neg hqx] at hq'
      exact w3 q' hq' q hpre hne

/-- in a well-formed file system nothing that is a file lives strictly below a file -/
theorem WF_no_file_below {fs : FS} (hwf : WF fs) {p q : Path} (hp : fs.file p ≠ none)
    (hpre : p <+: q) (hne : q ≠ p) : fs.file q = none := by
  obtain ⟨_, w2, w3⟩ := hwf
  cases hq : fs.file q with
  | none => rfl
  | some b =>
    exfalso
    have h1 := w3 q (Or.inl (by rw [hq]; simp)) p hpre (fun h => hne h.symm)
    rw [w2 p hp] at h1
    cases h1

theorem WF_root_not_file {fs : FS} (hwf : WF fs) : fs.file [] = none := by
  obtain ⟨w1, w2, _⟩ := hwf
  cases h : fs.file [] with
  | none => rfl
  | some b =>
    exfalso
    have := w2 [] (by rw [h]; simp)
    rw [w1] at this
    cases this

/-! ### undo list: keys and the core invariant -/

def keys (u : Undo) : List Path := u.map Prod.fst

theorem keys_append (u v : Undo) : keys (u ++ v) = keys u ++ keys v := by simp [keys]

theorem keys_single (x : Path) (v : Option Bytes) : keys [(x, v)] = [x] := rfl

theorem mem_keys_of_mem {u : Undo} {e : Path × Option Bytes} (h : e ∈ u) : e.1 ∈ keys u :=
  List.mem_map_of_mem h

theorem mem_keys {u : Undo} {x : Path} : x ∈ keys u ↔ ∃ v, (x, v) ∈ u := by
  simp [keys]

/-- the part of the invariant shared by the forward phase and the revert phase -/
structure Core (fs0 fs : FS) (u : Undo) : Prop where
  same : ∀ q, q ∉ keys u → fs.file q = fs0.file q
  val : ∀ p v, (p, v) ∈ u → v = fs0.file p
  nodup : (keys u).Nodup
  dirs : ∀ q, fs0.dir q = true → fs.dir q = true

theorem Core_append {fs0 fs : FS} {u : Undo} {x : Path} (h : Core fs0 fs u) (hx : x ∉ keys u) :
    Core fs0 fs (u ++ [(x, fs.file x)]) := by
  refine ⟨?_, ?_, ?_, h.dirs⟩
  · intro q hq
    apply h.same
    intro hq'
    apply hq
    rw [keys_append]
    exact List.mem_append_left _ hq'
  · intro p v hpv
    rw [List.mem_append] at hpv
    rcases hpv with h1 | h1
    · exact h.val p v h1
    · simp only [List.mem_singleton, Prod.mk.injEq] at h1
      obtain ⟨rfl, rfl⟩ := h1
      exact h.same _ hx
  · rw [keys_append, keys_single, List.nodup_append]
    refine ⟨h.nodup, by simp, ?_⟩
    intro a ha b hb
    simp only [List.mem_singleton] at hb
    subst hb
    intro hab
    subst hab
    exact hx ha

theorem Core_createDirAll {fs0 fs fs' : FS} {u : Undo} {p : Path} (h : Core fs0 fs u)
    (hc : fs.createDirAll p = some fs') : Core fs0 fs' u := by
  obtain ⟨_, hfile, hdir⟩ := createDirAll_some hc
  refine ⟨?_, h.val, h.nodup, ?_⟩
  · intro q hq
    rw [hfile]
    exact h.same q hq
  · intro q hq
    exact (hdir q).mpr (Or.inl (h.dirs q hq))

theorem Core_setFile {fs0 fs : FS} {u : Undo} {x : Path} (v : Option Bytes) (h : Core fs0 fs u)
    (hx : x ∈ keys u) : Core fs0 (fs.setFile x v) u := by
  refine ⟨?_, h.val, h.nodup, h.dirs⟩
  intro q hq
  have : q ≠ x := by
    intro he
    exact hq (he ▸ hx)
  simp only [setFile_file, if_neg this]
  exact h.same q hq

theorem recordUndo_some {fs : FS} {u u' : Undo} {x : Path} (h : recordUndo fs u x = some u') :
    (x ∈ keys u ∧ u' = u) ∨ (x ∉ keys u ∧ u' = u ++ [(x, fs.file x)]) := by
  unfold recordUndo at h
  split at h
  · rename_i hany
    left
    simp only [List.any_eq_true, decide_eq_true_eq] at hany
    obtain ⟨e, he, rfl⟩ := hany
    cases h
    exact ⟨mem_keys_of_mem he, rfl⟩
  · rename_i hany
    have hx : x ∉ keys u := by
      intro hx
      apply hany
      obtain ⟨v, hv⟩ := mem_keys.mp hx
      rw [List.any_eq_true]
      exact ⟨(x, v), hv, by simp⟩
    right
    split at h
    · split at h
      · rename_i b hb
        cases h
        exact ⟨hx, by rw [hb]⟩
      · cases h
    · rename_i hex
      cases h
      have hn : fs.file x = none := by
        cases hf : fs.file x with
        | none => rfl
        | some b =>
          exfalso
          apply hex
          simp [FS.exists, hf]
      exact ⟨hx, by rw [hn]⟩

theorem recordUndo_mem {fs : FS} {u u' : Undo} {x : Path} (h : recordUndo fs u x = some u') :
    x ∈ keys u' ∧ ∀ k, k ∈ keys u → k ∈ keys u' := by
  rcases recordUndo_some h with ⟨h1, rfl⟩ | ⟨_, rfl⟩
  · exact ⟨h1, fun _ hk => hk⟩
  · rw [keys_append, keys_single]
    exact ⟨by simp, fun k hk => List.mem_append_left _ hk⟩

/-! ### the revert phase -/

/-- ordering relation between an earlier entry `e1` and a later entry `e2` of the undo list:
if the later one recorded a file, an earlier key strictly below it is not a file now -/
abbrev OrdR (fs : FS) (e1 e2 : Path × Option Bytes) : Prop :=
  e2.2 ≠ none → e2.1 <+: e1.1 → e1.1 ≠ e2.1 → fs.file e1.1 = none

/-- what the revert needs -/
structure RR (fs0 fs : FS) (u : Undo) : Prop where
  core : Core fs0 fs u
  ord : u.Pairwise (OrdR fs)

theorem revertEntry_none_file (fb : FS → Path → Bool) (fs : FS) (p q : Path) :
    (revertEntry fb fs (p, none)).file q = if q = p then none else fs.file q := by
  unfold revertEntry
  simp only
  cases h : fs.removeFile p with
  | some f =>
    obtain ⟨_, rfl⟩ := removeFile_some h
    rfl
  | none =>
    simp only
    by_cases hq : q = p
    · rw [if_pos hq, hq]
      unfold FS.removeFile at h
      split at h
      · cases h
      · rename_i hn
        cases hf : fs.file p with
        | none => rfl
        | some b => simp [hf] at hn
    · rw [if_neg hq]

theorem revertEntry_none_dir (fb : FS → Path → Bool) (fs : FS) (p : Path) :
    (revertEntry fb fs (p, none)).dir = fs.dir := by
  unfold revertEntry
  simp only
  cases h : fs.removeFile p with
  | some f =>
    obtain ⟨_, rfl⟩ := removeFile_some h
    rfl
  | none => rfl

def preClear (fb : FS → Path → Bool) (fs : FS) (p : Path) : FS :=
  if fs.dir p then fs.clearDirs p (fb fs p) else fs

def preMk (fs : FS) (p : Path) : FS :=
  match fs.createDirAll p.dropLast with
  | some f => f
  | none => fs

theorem revertEntry_some_eq (fb : FS → Path → Bool) (fs : FS) (p : Path) (b : Bytes) :
    revertEntry fb fs (p, some b) =
      match (preMk (preClear fb fs p) p).write p b with
      | some f => f
      | none => preMk (preClear fb fs p) p := rfl

theorem isPrefixOf_false {p q : Path} (h : ¬ p <+: q) : List.isPrefixOf p q = false := by
  cases hb : List.isPrefixOf p q with
  | false => rfl
  | true => exact absurd (List.isPrefixOf_iff_prefix.mp hb) h

theorem preClear_facts (fb : FS → Path → Bool) (fs : FS) (p : Path)
    (h : fs.dir p = true → fb fs p = false) :
    (∀ q, (preClear fb fs p).file q = fs.file q) ∧ (preClear fb fs p).dir p = false ∧
    (∀ q, fs.dir q = true → ¬ p <+: q → (preClear fb fs p).dir q = true) := by
  unfold preClear
  cases hd : fs.dir p with
  | false =>
    rw [if_neg (by simp)]
    exact ⟨fun _ => rfl, hd, fun q hq _ => hq⟩
  | true =>
    rw [if_pos rfl, h hd]
    unfold FS.clearDirs
    rw [if_neg (by simp)]
    refine ⟨fun _ => rfl, ?_, ?_⟩
    · simp
    · intro q hq hnp
      simp [hq, isPrefixOf_false hnp]

theorem preMk_facts (fs : FS) (p : Path) (hp : p ≠ []) :
    (∀ q, (preMk fs p).file q = fs.file q) ∧ ((preMk fs p).dir p = fs.dir p) ∧
    (∀ q, fs.dir q = true → (preMk fs p).dir q = true) := by
  unfold preMk
  cases hc : fs.createDirAll p.dropLast with
  | none => exact ⟨fun _ => rfl, rfl, fun _ h => h⟩
  | some f =>
    simp only
    obtain ⟨_, hfile, hdir⟩ := createDirAll_some hc
    refine ⟨hfile, ?_, fun q hq => (hdir q).mpr (Or.inl hq)⟩
    cases hfp : f.dir p with
    | false =>
      cases hsp : fs.dir p with
      | false => rfl
      | true =>
        have := (hdir p).mpr (Or.inl hsp)
        rw [hfp] at this
        cases this
    | true =>
      rcases (hdir p).mp hfp with h1 | h1
      · exact h1.symm
      · exact absurd h1 (not_prefix_dropLast hp)

theorem revertEntry_some_facts (fb : FS → Path → Bool) (fs : FS) (p : Path) (b : Bytes)
    (h1 : p ≠ []) (h3 : fs.dir p.dropLast = true) (h2 : fs.dir p = true → fb fs p = false) :
    (∀ q, (revertEntry fb fs (p, some b)).file q = if q = p then some b else fs.file q) ∧
    (∀ q, fs.dir q = true → ¬ p <+: q → (revertEntry fb fs (p, some b)).dir q = true) := by
  obtain ⟨a1, a2, a3⟩ := preClear_facts fb fs p h2
  obtain ⟨b1, b2, b3⟩ := preMk_facts (preClear fb fs p) p h1
  have hw := write_eq_some (fs := preMk (preClear fb fs p) p) b h1 (by rw [b2, a2])
    (b3 _ (a3 _ h3 (not_prefix_dropLast h1)))
  rw [revertEntry_some_eq, hw]
  simp only
  refine ⟨?_, ?_⟩
  · intro q
    simp only [setFile_file]
    by_cases hq : q = p
    · simp [hq]
    · simp only [if_neg hq]
      rw [b1, a1]
  · intro q hq hnp
    simp only [setFile_dir]
    exact b3 _ (a3 _ hq hnp)

theorem RR_step {fb : FS → Path → Bool} (hfb : FileBelowSpec fb) {fs0 fs : FS} (hwf0 : WF fs0)
    {l : Undo} {e : Path × Option Bytes} (h : RR fs0 fs (l ++ [e])) :
    RR fs0 (revertEntry fb fs e) l := by
  obtain ⟨p, v⟩ := e
  have hcore := h.core
  have hord := h.ord
  rw [List.pairwise_append] at hord
  obtain ⟨hordl, _, hlast⟩ := hord
  have hnd := hcore.nodup
  rw [keys_append, keys_single, List.nodup_append] at hnd
  obtain ⟨hndl, _, hdisj⟩ := hnd
  have hpl : p ∉ keys l := fun hp => hdisj p hp p (by simp) rfl
  have hval : v = fs0.file p := hcore.val p v (by simp)
  have hsame : ∀ q, q ∉ keys l → q ≠ p → fs.file q = fs0.file q := by
    intro q hq hqp
    apply hcore.same
    rw [keys_append, keys_single]
    simp [hq, hqp]
  have hvall : ∀ p v, (p, v) ∈ l → v = fs0.file p :=
    fun p v hpv => hcore.val p v (List.mem_append_left _ hpv)
  cases v with
  | none =>
    refine ⟨⟨?_, hvall, hndl, ?_⟩, ?_⟩
    · intro q hq
      rw [revertEntry_none_file]
      by_cases hqp : q = p
      · rw [if_pos hqp, hqp]
        exact hval
      · rw [if_neg hqp]
        exact hsame q hq hqp
    · rw [revertEntry_none_dir]
      exact hcore.dirs
    · refine hordl.imp ?_
      intro e1 e2 hR h1 h2 h3
      rw [revertEntry_none_file]
      split
      · rfl
      · exact hR h1 h2 h3
  | some b =>
    have hf0 : fs0.file p ≠ none := by
      rw [← hval]
      simp
    have hp : p ≠ [] := by
      intro hp
      apply hf0
      rw [hp]
      exact WF_root_not_file hwf0
    have hpar0 : fs0.dir p.dropLast = true :=
      hwf0.2.2 p (Or.inl hf0) _ (List.dropLast_prefix p) (dropLast_ne hp)
    have hpar := hcore.dirs _ hpar0
    have hfbf : fs.dir p = true → fb fs p = false := by
      intro _
      cases hb : fb fs p with
      | false => rfl
      | true =>
        exfalso
        obtain ⟨q, hpq, hqp, hq⟩ := (hfb fs p).mp hb
        have hq0 : fs0.file q = none := WF_no_file_below hwf0 hf0 hpq hqp
        by_cases hql : q ∈ keys l
        · obtain ⟨w, hw⟩ := mem_keys.mp hql
          exact hq (hlast (q, w) hw (p, some b) (by simp) (by simp) hpq hqp)
        · apply hq
          rw [hsame q hql hqp]
          exact hq0
    obtain ⟨hfile, hdir⟩ := revertEntry_some_facts fb fs p b hp hpar hfbf
    refine ⟨⟨?_, hvall, hndl, ?_⟩, ?_⟩
    · intro q hq
      rw [hfile]
      by_cases hqp : q = p
      · rw [if_pos hqp, hqp]
        exact hval
      · rw [if_neg hqp]
        exact hsame q hq hqp
    · intro q hq
      apply hdir q (hcore.dirs q hq)
      intro hpq
      by_cases hqp : q = p
      · rw [hqp, hwf0.2.1 p hf0] at hq
        cases hq
      · have := hwf0.2.2 q (Or.inr hq) p hpq (fun h => hqp h.symm)
        rw [hwf0.2.1 p hf0] at this
        cases this
    · refine hordl.imp_of_mem ?_
      intro e1 e2 he1 he2 hR h1 h2 h3
      rw [hfile]
      have : e1.1 ≠ p := fun h => hpl (h ▸ mem_keys_of_mem he1)
      rw [if_neg this]
      exact hR h1 h2 h3

theorem revert_file_aux {fb : FS → Path → Bool} (hfb : FileBelowSpec fb) {fs0 : FS} (hwf0 : WF fs0) :
    ∀ (r : Undo) (fs : FS), RR fs0 fs r.reverse →
      ∀ q, (r.foldl (revertEntry fb) fs).file q = fs0.file q := by
  intro r
  induction r with
  | nil =>
    intro fs h q
    rw [List.foldl_nil]
    exact h.core.same q (by simp [keys])
  | cons e r ih =>
    intro fs h q
    rw [List.reverse_cons] at h
    rw [List.foldl_cons]
    exact ih _ (RR_step hfb hwf0 h) q

theorem revert_file {fb : FS → Path → Bool} (hfb : FileBelowSpec fb) {fs0 fs : FS} (hwf0 : WF fs0)
    {u : Undo} (h : RR fs0 fs u) : ∀ q, (revert fb fs u).file q = fs0.file q := by
  unfold revert
  apply revert_file_aux hfb hwf0
  rw [List.reverse_reverse]
  exact h

/-! ### the failing operation: `applyOpPartial` keeps the revert invariant -/

/-- revert invariant plus well-formedness of the current file system -/
structure RRW (fs0 fs : FS) (u : Undo) : Prop where
  wf : WF fs
  core : Core fs0 fs u
  ord : u.Pairwise (OrdR fs)

theorem RRW.rr {fs0 fs : FS} {u : Undo} (h : RRW fs0 fs u) : RR fs0 fs u := ⟨h.core, h.ord⟩

theorem RRW_record {fs0 fs : FS} {u u' : Undo} {x : Path} (h : RRW fs0 fs u)
    (hr : recordUndo fs u x = some u') : RRW fs0 fs u' := by
  rcases recordUndo_some hr with ⟨_, rfl⟩ | ⟨hx, rfl⟩
  · exact h
  · refine ⟨h.wf, Core_append h.core hx, ?_⟩
    rw [List.pairwise_append]
    refine ⟨h.ord, List.pairwise_singleton _ _, ?_⟩
    intro e1 he1 e2 he2
    simp only [List.mem_singleton] at he2
    subst he2
    intro h1 h2 h3
    exact WF_no_file_below h.wf h1 h2 h3

theorem RRW_createDirAll {fs0 fs fs' : FS} {u : Undo} {p : Path} (h : RRW fs0 fs u)
    (hc : fs.createDirAll p = some fs') : RRW fs0 fs' u := by
  obtain ⟨_, hfile, _⟩ := createDirAll_some hc
  refine ⟨WF_createDirAll h.wf hc, Core_createDirAll h.core hc, ?_⟩
  refine h.ord.imp ?_
  intro e1 e2 hR h1 h2 h3
  rw [hfile]
  exact hR h1 h2 h3

theorem RRW_rewrite {fs0 fs fs' : FS} {u : Undo} {x : Path} {b : Bytes} (h : RRW fs0 fs u)
    (hx : x ∈ keys u) (hf : fs.file x ≠ none) (hw : fs.write x b = some fs') : RRW fs0 fs' u := by
  have hwf := WF_write h.wf hw
  obtain ⟨_, _, _, rfl⟩ := write_some hw
  refine ⟨hwf, Core_setFile _ h.core hx, ?_⟩
  refine h.ord.imp ?_
  intro e1 e2 hR h1 h2 h3
  have := hR h1 h2 h3
  rw [setFile_file]
  have hne : e1.1 ≠ x := by
    intro he
    rw [he] at this
    exact hf this
  rw [if_neg hne]
  exact this

def RRWs (fs0 : FS) (s : St) : Prop := RRW fs0 s.fs s.undo

theorem RRWs_partial {fs0 : FS} (s : St) (op : Op) (h : RRWs fs0 s) :
    RRWs fs0 (applyOpPartial s op) := by
  cases op with
  | add p c =>
    simp only [applyOpPartial]
    split
    · split
      · exact h
      · split
        · exact h
        · rename_i fs1 hc
          exact RRW_createDirAll h hc
    · split
      · exact h
      · split
        · exact h
        · rename_i undo hr
          have h1 : RRW fs0 s.fs undo := RRW_record h hr
          split
          · exact h1
          · rename_i fs1 hc
            exact RRW_createDirAll h1 hc
  | delete p =>
    simp only [applyOpPartial]
    split
    · exact h
    · split
      · exact h
      · split
        · exact h
        · rename_i undo hr
          exact RRW_record h hr
  | update p movedTo hunks =>
    simp only [applyOpPartial]
    split
    · exact h
    · split
      · exact h
      · split
        · exact h
        · rename_i undo hr
          have h1 : RRW fs0 s.fs undo := RRW_record h hr
          have hk := (recordUndo_mem hr).1
          split
          · exact h1
          · rename_i bytes hb
            split
            · exact h1
            · split
              · exact h1
              · rename_i updated hu
                split
                · exact h1
                · rename_i fs1 hw
                  have h2 : RRW fs0 fs1 undo := RRW_rewrite h1 hk (by rw [hb]; simp) hw
                  split
                  · exact h2
                  · rename_i t
                    split
                    · split
                      · exact h2
                      · split
                        · exact h2
                        · rename_i fs2 hc
                          exact RRW_createDirAll h2 hc
                    · split
                      · exact h2
                      · split
                        · exact h2
                        · rename_i undo2 hr2
                          have h3 : RRW fs0 fs1 undo2 := RRW_record h2 hr2
                          split
                          · exact h3
                          · rename_i fs2 hc
                            exact RRW_createDirAll h3 hc

/-! ### the successful operations: forward invariant -/

/-- ordering relation of the forward phase: an earlier key is never strictly below a later
entry that recorded a file -/
abbrev Ord0R (e1 e2 : Path × Option Bytes) : Prop :=
  e2.2 ≠ none → e2.1 <+: e1.1 → e1.1 ≠ e2.1 → False

structure Inv (fs0 fs : FS) (u : Undo) : Prop where
  wf : WF fs
  core : Core fs0 fs u
  anc : ∀ x, x ∈ keys u → ∀ p, p <+: x → p ≠ x → fs0.file p ≠ none → p ∈ keys u
  ord0 : u.Pairwise Ord0R

theorem Inv.rrw {fs0 fs : FS} {u : Undo} (h : Inv fs0 fs u) : RRW fs0 fs u :=
  ⟨h.wf, h.core, h.ord0.imp (fun hR h1 h2 h3 => (hR h1 h2 h3).elim)⟩

theorem Inv_init {fs : FS} (hwf : WF fs) : Inv fs fs [] :=
  ⟨hwf, ⟨fun _ _ => rfl, by simp, by simp [keys], fun _ h => h⟩, by simp [keys], List.Pairwise.nil⟩

theorem Inv_record {fs0 fs : FS} {u u' : Undo} {x : Path} (h : Inv fs0 fs u)
    (hfact : ∀ p, p <+: x → p ≠ x → fs.file p = none)
    (hr : recordUndo fs u x = some u') : Inv fs0 fs u' := by
  rcases recordUndo_some hr with ⟨_, rfl⟩ | ⟨hx, rfl⟩
  · exact h
  · have hanc : ∀ p, p <+: x → p ≠ x → fs0.file p ≠ none → p ∈ keys u := by
      intro p h1 h2 h3
      by_cases hp : p ∈ keys u
      · exact hp
      · exfalso
        apply h3
        rw [← h.core.same p hp]
        exact hfact p h1 h2
    refine ⟨h.wf, Core_append h.core hx, ?_, ?_⟩
    · intro y hy p h1 h2 h3
      rw [keys_append, keys_single, List.mem_append, List.mem_singleton] at hy ⊢
      rcases hy with hy | hy
      · exact Or.inl (h.anc y hy p h1 h2 h3)
      · subst hy
        exact Or.inl (hanc p h1 h2 h3)
    · rw [List.pairwise_append]
      refine ⟨h.ord0, List.pairwise_singleton _ _, ?_⟩
      intro e1 he1 e2 he2
      simp only [List.mem_singleton] at he2
      subst he2
      intro h1 h2 h3
      have hx0 : fs0.file x ≠ none := by
        rw [← h.core.same x hx]
        exact h1
      exact hx (h.anc e1.1 (mem_keys_of_mem he1) x h2 (fun he => h3 he.symm) hx0)

theorem Inv_createDirAll {fs0 fs fs' : FS} {u : Undo} {p : Path} (h : Inv fs0 fs u)
    (hc : fs.createDirAll p = some fs') : Inv fs0 fs' u :=
  ⟨WF_createDirAll h.wf hc, Core_createDirAll h.core hc, h.anc, h.ord0⟩

theorem Inv_write {fs0 fs fs' : FS} {u : Undo} {x : Path} {b : Bytes} (h : Inv fs0 fs u)
    (hx : x ∈ keys u) (hw : fs.write x b = some fs') : Inv fs0 fs' u := by
  have hwf := WF_write h.wf hw
  obtain ⟨_, _, _, rfl⟩ := write_some hw
  exact ⟨hwf, Core_setFile _ h.core hx, h.anc, h.ord0⟩

theorem Inv_setFile_none {fs0 fs : FS} {u : Undo} {x : Path} (h : Inv fs0 fs u)
    (hx : x ∈ keys u) : Inv fs0 (fs.setFile x none) u :=
  ⟨WF_setFile_none x h.wf, Core_setFile _ h.core hx, h.anc, h.ord0⟩

theorem Inv_rename {fs0 fs fs' : FS} {u : Undo} {a b : Path} (h : Inv fs0 fs u)
    (ha : a ∈ keys u) (hb : b ∈ keys u) (hr : fs.rename a b = some fs') : Inv fs0 fs' u := by
  obtain ⟨bytes, _, h1, h2, h3, rfl⟩ := rename_some hr
  have h' := Inv_setFile_none h ha
  have hw := write_eq_some (fs := fs.setFile a none) bytes h1 h2 h3
  exact Inv_write h' hb hw

theorem fact_of_file {fs : FS} (hwf : WF fs) {x : Path} (hx : fs.file x ≠ none) :
    ∀ p, p <+: x → p ≠ x → fs.file p = none := by
  intro p h1 h2
  have hd := hwf.2.2 x (Or.inl hx) p h1 h2
  cases hp : fs.file p with
  | none => rfl
  | some b =>
    exfalso
    have := hwf.2.1 p (by rw [hp]; simp)
    rw [hd] at this
    cases this

theorem fact_of_createDirAll {fs fs' : FS} {x : Path} (hc : fs.createDirAll x.dropLast = some fs') :
    ∀ p, p <+: x → p ≠ x → fs.file p = none :=
  fun p h1 h2 => (createDirAll_some hc).1 p (strict_prefix_dropLast h1 h2)

def Invs (fs0 : FS) (s : St) : Prop := Inv fs0 s.fs s.undo

theorem Invs_applyOp {fs0 : FS} {s s' : St} {op : Op} (h : Invs fs0 s)
    (hop : applyOp s op = .ok s') : Invs fs0 s' := by
  cases op with
  | add p c =>
    simp only [applyOp] at hop
    split at hop
    · split at hop <;> cases hop
    · split at hop
      · cases hop
      · split at hop
        · cases hop
        · rename_i undo hr
          split at hop
          · cases hop
          · rename_i fs1 hc
            split at hop
            · cases hop
            · rename_i fs2 hw
              cases hop
              have h1 : Inv fs0 s.fs undo := Inv_record h (fact_of_createDirAll hc) hr
              have h2 := Inv_createDirAll h1 hc
              exact Inv_write h2 (recordUndo_mem hr).1 hw
  | delete p =>
    simp only [applyOp] at hop
    split at hop
    · split at hop <;> cases hop
    · split at hop
      · cases hop
      · split at hop
        · cases hop
        · rename_i undo hr
          split at hop
          · cases hop
          · rename_i fs1 hrm
            cases hop
            obtain ⟨hf, rfl⟩ := removeFile_some hrm
            have h1 : Inv fs0 s.fs undo := Inv_record h (fact_of_file h.wf hf) hr
            exact Inv_setFile_none h1 (recordUndo_mem hr).1
  | update p movedTo hunks =>
    simp only [applyOp] at hop
    split at hop
    · split at hop <;> cases hop
    · split at hop
      · cases hop
      · split at hop
        · cases hop
        · rename_i undo hr
          split at hop
          · cases hop
          · rename_i bytes hb
            split at hop
            · cases hop
            · split at hop
              · cases hop
              · rename_i updated hu
                split at hop
                · cases hop
                · rename_i fs1 hw
                  have hk := recordUndo_mem hr
                  have h1 : Inv fs0 s.fs undo :=
                    Inv_record h (fact_of_file h.wf (by rw [hb]; simp)) hr
                  have h2 : Inv fs0 fs1 undo := Inv_write h1 hk.1 hw
                  split at hop
                  · cases hop
                    exact h2
                  · rename_i t
                    split at hop
                    · split at hop <;> cases hop
                    · split at hop
                      · cases hop
                      · split at hop
                        · cases hop
                        · rename_i undo2 hr2
                          split at hop
                          · cases hop
                          · rename_i fs2 hc
                            split at hop
                            · cases hop
                            · rename_i fs3 hrn
                              cases hop
                              have hk2 := recordUndo_mem hr2
                              have h3 : Inv fs0 fs1 undo2 :=
                                Inv_record h2 (fact_of_createDirAll hc) hr2
                              have h4 := Inv_createDirAll h3 hc
                              exact Inv_rename h4 (hk2.2 _ hk.1) hk2.1 hrn

theorem applyOps_error {fs0 : FS} : ∀ (ops : List Op) (s : St), Invs fs0 s →
    ∀ e s', applyOps s ops = .error (e, s') → RRWs fs0 s' := by
  intro ops
  induction ops with
  | nil =>
    intro s _ e s' h
    simp [applyOps] at h
  | cons op ops ih =>
    intro s hs e s' h
    simp only [applyOps] at h
    split at h
    · rename_i s1 hop
      exact ih s1 (Invs_applyOp hs hop) e s' h
    · rename_i e1 hop
      cases h
      exact RRWs_partial s op hs.rrw

/-- All-or-nothing: when `applyPatchOps` reports an error, every file has its initial content. -/
theorem atomic (fb : FS → Path → Bool) (hfb : FileBelowSpec fb) (fs : FS) (hwf : WF fs)
    (ops : List Op) (e : Err) (fs' : FS)
    (h : applyPatchOps fb fs ops = (.error e, fs')) : ∀ q, fs'.file q = fs.file q := by
  unfold applyPatchOps at h
  split at h
  · cases h
  · rename_i e1 s hops
    have hinit : Invs fs { fs := fs, undo := [], changed := [] } := Inv_init hwf
    have hs : RRWs fs s := applyOps_error ops _ hinit e1 s hops
    cases h
    exact revert_file hfb hwf hs.rr

end Rip.Patch

