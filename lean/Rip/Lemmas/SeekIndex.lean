import Rip.Model.SeekIndex
/-
Lemmas for `Rip.Model.SeekIndex`: a seek that succeeds lands on a line start; an entry that passes
the per-use check splits the sidecar at the frame it names; each of the three scans started there
equals the scan started at byte 0.
-/
namespace Rip.SeekIndex

theorem fileLen_append (a b : List Line) : fileLen (a ++ b) = fileLen a + fileLen b := by
  induction a with
  | nil => simp [fileLen]
  | cons x xs ih => simp [fileLen, ih]; omega

theorem linesFrom_cons (ls : List Line) (off : Nat) (l : Line) (rest : List Line)
    (h : linesFrom ls off = some (l :: rest)) : ∃ pre, ls = pre ++ l :: rest ∧ off = fileLen pre := by
  induction ls generalizing off with
  | nil =>
    cases off with
    | zero => simp [linesFrom] at h
    | succ n => simp [linesFrom] at h
  | cons x xs ih =>
    cases off with
    | zero =>
      simp [linesFrom] at h
      exact ⟨[], by simp [h], by simp [fileLen]⟩
    | succ n =>
      simp only [linesFrom] at h
      split at h
      · simp at h
      · rename_i hge
        obtain ⟨pre, h1, h2⟩ := ih _ h
        refine ⟨x :: pre, by simp [h1], ?_⟩
        simp only [fileLen]
        omega

theorem linesFrom_fileLen (pre rest : List Line) : linesFrom (pre ++ rest) (fileLen pre) = some rest := by
  induction pre with
  | nil => cases rest <;> simp [linesFrom, fileLen]
  | cons x xs ih =>
    have hx : x.size = x.len + 1 := rfl
    have : fileLen (x :: xs) = (x.len + fileLen xs) + 1 := by simp [fileLen, hx]; omega
    rw [this]
    simp only [List.cons_append, linesFrom]
    have h2 : ¬ (x.len + fileLen xs + 1 < x.size) := by omega
    simp only [h2, if_false]
    have h3 : x.len + fileLen xs + 1 - x.size = fileLen xs := by omega
    rw [h3]; exact ih

/-- an entry that passes the check points at the start of the frame it names -/
theorem entryValid_split (ls : List Line) (e : Entry) (h : entryValid ls e = true) :
    ∃ pre l rest, ls = pre ++ l :: rest ∧ e.off = fileLen pre ∧ l.seq = e.seq := by
  unfold entryValid at h
  simp only [Bool.and_eq_true] at h
  obtain ⟨_, h2⟩ := h
  split at h2
  · rename_i l rest heq
    obtain ⟨pre, h3, h4⟩ := linesFrom_cons ls e.off l rest heq
    exact ⟨pre, l, rest, h3, h4, by simpa using h2⟩
  · simp at h2

theorem bestEntry_le (es : List Entry) (t : Nat) (e : Entry) (h : bestEntry es t = some e) : e.seq ≤ t := by
  unfold bestEntry at h
  have hm := List.mem_of_getLast? h
  simp [List.mem_filter] at hm
  exact hm.2

/-! ### each scan may skip a prefix of smaller seqs -/

theorem boundaryGo_skip (fromSeq total : Nat) (pre rest : List Line) (cur : Nat)
    (hp : ∀ a ∈ pre, a.seq ≤ fromSeq) :
    boundaryGo fromSeq total cur (pre ++ rest) = boundaryGo fromSeq total (cur + fileLen pre) rest := by
  induction pre generalizing cur with
  | nil => simp [fileLen]
  | cons x xs ih =>
    have hx : ¬ fromSeq < x.seq := by have := hp x (by simp); omega
    simp only [List.cons_append, boundaryGo, hx, if_false]
    rw [ih _ (fun a ha => hp a (by simp [ha]))]
    simp only [fileLen]
    congr 1; omega

theorem forwardGo_nil_of_le (s fromSeq b cur : Nat) (ls : List Line) (h : b ≤ cur) :
    forwardGo s fromSeq b cur ls = [] := by
  cases ls with
  | nil => simp [forwardGo]
  | cons x xs => simp [forwardGo, h]

theorem forwardGo_skip (s fromSeq b : Nat) (pre rest : List Line) (cur : Nat)
    (hp : ∀ a ∈ pre, a.seq < s) :
    forwardGo s fromSeq b cur (pre ++ rest) = forwardGo s fromSeq b (cur + fileLen pre) rest := by
  induction pre generalizing cur with
  | nil => simp [fileLen]
  | cons x xs ih =>
    have hx : x.seq < s := hp x (by simp)
    simp only [List.cons_append, forwardGo]
    by_cases hb : b ≤ cur
    · simp only [hb, if_true]
      rw [forwardGo_nil_of_le]; simp only [fileLen]; omega
    · simp only [hb, if_false, hx, if_true]
      rw [ih _ (fun a ha => hp a (by simp [ha]))]
      simp only [fileLen]
      congr 1; omega

/-- in a sorted sidecar everything before the frame an accepted entry names is smaller than any
target at or above the entry's seq -/
theorem sorted_prefix_lt (pre : List Line) (l : Line) (rest : List Line)
    (hs : Sorted (pre ++ l :: rest)) : ∀ a ∈ pre, a.seq < l.seq := by
  intro a ha
  unfold Sorted at hs
  rw [List.pairwise_append] at hs
  exact hs.2.2 a ha l (by simp)

/-- the scan start chosen through any index whose used entry passed the check: a split of the
sidecar whose prefix lies strictly below the target's entry -/
theorem startOffset_checked (ls : List Line) (es : List Entry) (t off : Nat) (hs : Sorted ls)
    (h : startOffset true ls es t = some off) :
    ∃ pre rest, ls = pre ++ rest ∧ off = fileLen pre ∧ linesFrom ls off = some rest ∧
      (∀ a ∈ pre, a.seq < t) ∧ (∀ a ∈ pre, a.seq ≤ t) := by
  unfold startOffset at h
  split at h
  · simp at h
    subst h
    refine ⟨[], ls, by simp, by simp [fileLen], ?_, by simp, by simp⟩
    cases ls <;> simp [linesFrom]
  · rename_i e he
    by_cases hv : entryValid ls e = true
    · simp [hv] at h
      obtain ⟨pre, l, rest, h1, h2, h3⟩ := entryValid_split ls e hv
      have hle := bestEntry_le es t e he
      have hlt := sorted_prefix_lt pre l rest (h1 ▸ hs)
      refine ⟨pre, l :: rest, h1, by omega, ?_, ?_, ?_⟩
      · rw [← h, h2, h1]; exact linesFrom_fileLen pre (l :: rest)
      · intro a ha; have := hlt a ha; omega
      · intro a ha; have := hlt a ha; omega
    · simp [hv] at h

theorem boundaryPos_checked (ls : List Line) (es : List Entry) (fromSeq b : Nat) (hs : Sorted ls)
    (h : boundaryPos true ls es fromSeq = some b) : b = boundaryGo fromSeq (fileLen ls) 0 ls := by
  unfold boundaryPos at h
  split at h
  · simp at h
  · rename_i off hoff
    obtain ⟨pre, rest, h1, h2, h3, _, h5⟩ := startOffset_checked ls es fromSeq off hs hoff
    rw [h3] at h
    simp at h
    have key := boundaryGo_skip fromSeq (fileLen ls) pre rest 0 h5
    rw [← h1] at key
    rw [key, ← h, h2]
    simp

/-- the window read through ANY index equals the index-free read, when it answers at all -/
theorem windowWith_checked (budget : Nat) (ls : List Line) (es : List Entry) (fromSeq limit : Nat)
    (hs : Sorted ls) (r : List Nat) (h : windowWith true budget ls es fromSeq limit = some r) :
    r = windowLinear budget ls fromSeq limit := by
  unfold windowWith at h
  split at h
  · simp at h
  · rename_i b hb
    have hb' := boundaryPos_checked ls es fromSeq b hs hb
    simp only at h
    split at h
    · simp at h
    · rename_i off hoff
      obtain ⟨pre, rest, h1, h2, h3, h4, _⟩ := startOffset_checked ls es _ off hs hoff
      rw [h3] at h
      simp at h
      have key := forwardGo_skip (startSeq ls b fromSeq limit budget) fromSeq b pre rest 0 h4
      rw [← h1] at key
      unfold windowLinear
      simp only
      rw [← hb', key, ← h, h2]
      simp

theorem window_checked (stride budget : Nat) (ls : List Line) (file : Option (List Entry))
    (fromSeq limit : Nat) (hs : Sorted ls) (r : List Nat)
    (h : window true stride budget ls file fromSeq limit = some r) :
    r = windowLinear budget ls fromSeq limit := by
  unfold window at h
  split at h
  · simp at h
  · exact windowWith_checked budget ls _ fromSeq limit hs r h

/-! ### the index-free read is the specification: kept frames with `s ≤ seq ≤ fromSeq` -/

theorem boundaryGo_ge (fromSeq total cur : Nat) (ls : List Line) (h : cur + fileLen ls ≤ total) :
    cur ≤ boundaryGo fromSeq total cur ls := by
  induction ls generalizing cur with
  | nil => simp [boundaryGo, fileLen] at *; omega
  | cons x xs ih =>
    simp only [boundaryGo]
    split
    · omega
    · have hx : x.size = x.len + 1 := rfl
      simp only [fileLen] at h
      have := ih (cur + x.size) (by omega)
      omega

theorem windowSpec_nil_of_gt (s fromSeq : Nat) (ls : List Line) (h : ∀ a ∈ ls, fromSeq < a.seq) :
    windowSpec s fromSeq ls = [] := by
  unfold windowSpec
  rw [List.map_eq_nil_iff, List.filter_eq_nil_iff]
  intro a ha
  have := h a ha
  simp
  intro _ _
  omega

theorem forwardGo_spec (s fromSeq total cur : Nat) (ls : List Line) (hs : Sorted ls)
    (h : cur + fileLen ls ≤ total) :
    forwardGo s fromSeq (boundaryGo fromSeq total cur ls) cur ls = windowSpec s fromSeq ls := by
  induction ls generalizing cur with
  | nil => simp [forwardGo, windowSpec]
  | cons x xs ih =>
    have hx : x.size = x.len + 1 := rfl
    unfold Sorted at hs
    rw [List.pairwise_cons] at hs
    simp only [fileLen] at h
    simp only [boundaryGo]
    by_cases hgt : fromSeq < x.seq
    · simp only [hgt, if_true, forwardGo, Nat.le_refl]
      symm
      apply windowSpec_nil_of_gt
      intro a ha
      rcases List.mem_cons.mp ha with rfl | ha
      · exact hgt
      · have := hs.1 a ha; omega
    · simp only [hgt, if_false]
      have hge := boundaryGo_ge fromSeq total (cur + x.size) xs (by omega)
      have hnb : ¬ boundaryGo fromSeq total (cur + x.size) xs ≤ cur := by omega
      simp only [forwardGo, hnb, if_false]
      have ih' := ih (cur + x.size) hs.2 (by omega)
      by_cases hlt : x.seq < s
      · simp only [hlt, if_true, ih']
        unfold windowSpec
        have : (x.keep && decide (s ≤ x.seq) && decide (x.seq ≤ fromSeq)) = false := by
          simp; intro _ _; omega
        simp [this]
      · simp only [hlt, if_false, ih']
        unfold windowSpec
        by_cases hk : x.keep = true
        · have h1 : s ≤ x.seq ∧ x.seq ≤ fromSeq := by omega
          simp [hk, hgt, h1]
        · simp [hk, hgt]

theorem windowLinear_spec (budget : Nat) (ls : List Line) (fromSeq limit : Nat) (hs : Sorted ls) :
    windowLinear budget ls fromSeq limit =
      windowSpec (startSeq ls (boundaryGo fromSeq (fileLen ls) 0 ls) fromSeq limit budget) fromSeq ls := by
  unfold windowLinear
  simp only
  exact forwardGo_spec _ fromSeq (fileLen ls) 0 ls hs (by omega)

end Rip.SeekIndex
