/-
C03 lemmas: the write/read round trip of the wire model (Rip/Model/Wire.lean).
-/
import Rip.Model.Wire

namespace Rip.Wire

variable {V : Type} [DecidableEq V]

/-! ### `distinct` means `Nodup` -/

theorem eraseDups_length_aux : ∀ (n : Nat) (l : List Nat), l.length ≤ n →
    l.eraseDups.length ≤ l.length ∧ (l.eraseDups.length = l.length → l.Nodup) := by
  intro n
  induction n with
  | zero =>
    intro l hl
    have : l = [] := List.eq_nil_of_length_eq_zero (Nat.le_zero.mp hl)
    subst this
    simp
  | succ n ih =>
    intro l hl
    cases l with
    | nil => simp
    | cons a as =>
      have hfl : (as.filter fun b => !b == a).length ≤ as.length := List.length_filter_le _ _
      have hlen : (as.filter fun b => !b == a).length ≤ n := by
        simp only [List.length_cons] at hl
        omega
      obtain ⟨h1, h2⟩ := ih _ hlen
      rw [List.eraseDups_cons]
      simp only [List.length_cons]
      refine ⟨by omega, ?_⟩
      intro heq
      have hf : (as.filter fun b => !b == a).length = as.length := by omega
      have he : (as.filter fun b => !b == a).eraseDups.length = (as.filter fun b => !b == a).length := by
        omega
      have hfe : as.filter (fun b => !b == a) = as := by
        rw [List.filter_eq_self]
        exact List.length_filter_eq_length_iff.mp hf
      have hnd := h2 he
      rw [hfe] at hnd
      refine List.nodup_cons.mpr ⟨?_, hnd⟩
      intro hmem
      have := (List.filter_eq_self.mp hfe) a hmem
      simp at this

theorem nodup_of_distinct {l : List Nat} (h : distinct l = true) : l.Nodup := by
  unfold distinct at h
  exact (eraseDups_length_aux l.length l (Nat.le_refl _)).2 (by simpa using h)

/-! ### `lookup` on association lists -/

/-- the keys of an object, in order -/
def keys (o : Obj V) : List Nat := o.map (·.1)

omit [DecidableEq V] in
@[simp] theorem keys_nil : keys ([] : Obj V) = [] := rfl

omit [DecidableEq V] in
@[simp] theorem keys_cons (kv : Nat × V) (o : Obj V) : keys (kv :: o) = kv.1 :: keys o := rfl

omit [DecidableEq V] in
@[simp] theorem keys_append (o o' : Obj V) : keys (o ++ o') = keys o ++ keys o' := by
  simp [keys]

omit [DecidableEq V] in
@[simp] theorem lookup_nil (k : Nat) : lookup ([] : Obj V) k = none := rfl

omit [DecidableEq V] in
theorem lookup_cons (kv : Nat × V) (o : Obj V) (k : Nat) :
    lookup (kv :: o) k = if kv.1 = k then some kv.2 else lookup o k := by
  unfold lookup
  by_cases h : kv.1 = k
  · simp [h]
  · simp [h]

omit [DecidableEq V] in
theorem lookup_eq_none {o : Obj V} {k : Nat} (h : k ∉ keys o) : lookup o k = none := by
  induction o with
  | nil => rfl
  | cons kv o ih =>
    simp only [keys_cons, List.mem_cons, not_or] at h
    rw [lookup_cons, if_neg (fun e => h.1 e.symm), ih h.2]

omit [DecidableEq V] in
theorem lookup_isSome {o : Obj V} {k : Nat} (h : k ∈ keys o) : ∃ v, lookup o k = some v := by
  induction o with
  | nil => simp at h
  | cons kv o ih =>
    rw [lookup_cons]
    by_cases e : kv.1 = k
    · exact ⟨kv.2, by simp [e]⟩
    · simp only [keys_cons, List.mem_cons] at h
      rcases h with h | h
      · exact absurd h.symm e
      · simpa [e] using ih h

omit [DecidableEq V] in
theorem lookup_append_left {o o' : Obj V} {k : Nat} {v : V} (h : lookup o k = some v) :
    lookup (o ++ o') k = some v := by
  induction o with
  | nil => simp at h
  | cons kv o ih =>
    rw [List.cons_append, lookup_cons]
    rw [lookup_cons] at h
    by_cases e : kv.1 = k
    · simpa [e] using h
    · simp only [e, if_false] at h ⊢
      exact ih h

omit [DecidableEq V] in
theorem lookup_append_right {o o' : Obj V} {k : Nat} (h : k ∉ keys o) :
    lookup (o ++ o') k = lookup o' k := by
  induction o with
  | nil => rfl
  | cons kv o ih =>
    simp only [keys_cons, List.mem_cons, not_or] at h
    rw [List.cons_append, lookup_cons, if_neg (fun e => h.1 e.symm), ih h.2]

omit [DecidableEq V] in
theorem lookup_append_of_not_mem_right {o o' : Obj V} {k : Nat} (h : k ∉ keys o') :
    lookup (o ++ o') k = lookup o k := by
  induction o with
  | nil => simpa using lookup_eq_none h
  | cons kv o ih =>
    rw [List.cons_append, lookup_cons, lookup_cons, ih]

omit [DecidableEq V] in
theorem lookupAny_eq_none {o : Obj V} {ks : List Nat} (h : ∀ k ∈ ks, k ∉ keys o) :
    lookupAny o ks = none := by
  induction ks with
  | nil => rfl
  | cons k ks ih =>
    simp only [lookupAny]
    rw [lookup_eq_none (h k (List.mem_cons_self ..))]
    exact ih (fun k' hk' => h k' (List.mem_cons_of_mem _ hk'))

omit [DecidableEq V] in
theorem lookupAny_congr {o o' : Obj V} {ks : List Nat} (h : ∀ k ∈ ks, lookup o k = lookup o' k) :
    lookupAny o ks = lookupAny o' ks := by
  induction ks with
  | nil => rfl
  | cons k ks ih =>
    simp only [lookupAny]
    rw [h k (List.mem_cons_self ..), ih (fun k' hk' => h k' (List.mem_cons_of_mem _ hk'))]

/-! ### reading ignores unknown keys -/

omit [DecidableEq V] in
theorem readAll_append {o extra : Obj V} {ks : List Nat} {ev : List V}
    (h : readAll o ks = some ev) : readAll (o ++ extra) ks = some ev := by
  induction ks generalizing ev with
  | nil => simpa [readAll] using h
  | cons k ks ih =>
    simp only [readAll] at h ⊢
    split at h
    next v vs hv hvs =>
      rw [lookup_append_left hv, ih hvs]
      exact h
    next => simp at h

theorem decodeField_congr (env : Env V) {o o' : Obj V} {fd : Field}
    (h : ∀ k ∈ fieldKeys fd, lookup o k = lookup o' k) :
    decodeField env o fd = decodeField env o' fd := by
  unfold decodeField
  rw [lookupAny_congr (ks := fd.name :: fd.aliases) h]

theorem decodeFields_congr (env : Env V) {o o' : Obj V} {fds : List Field}
    (h : ∀ k ∈ (fds.map fieldKeys).flatten, lookup o k = lookup o' k) :
    decodeFields env o fds = decodeFields env o' fds := by
  induction fds with
  | nil => rfl
  | cons fd fds ih =>
    simp only [decodeFields]
    rw [decodeField_congr env (o := o) (o' := o') (fd := fd), ih]
    · intro k hk
      exact h k (by simp only [List.map_cons, List.flatten_cons, List.mem_append]; exact Or.inr hk)
    · intro k hk
      exact h k (by simp only [List.map_cons, List.flatten_cons, List.mem_append]; exact Or.inl hk)

/-- reading ignores unknown keys and keys the writer recomputes: appending pairs whose keys are
neither read-envelope keys, nor the tag field, nor a key/alias of the variant's fields does not
change what is read -/
theorem decode_ignores_unknown (env : Env V) (S : Schema) (derive : Nat → List V → List V)
    (o extra : Obj V) (f : Frame V)
    (hd : decode env S derive o = some f)
    (hx : ∀ kv ∈ extra, kv.1 ∉ S.readEnvelope ∧ kv.1 ≠ S.tagField ∧
          ∀ v, S.variants[f.variant]? = some v → kv.1 ∉ (v.fields.map fieldKeys).flatten) :
    decode env S derive (o ++ extra) = some f := by
  unfold decode at hd
  split at hd
  next ev t hra hlt =>
    split at hd
    · simp at hd
    next i hfv =>
      split at hd
      · simp at hd
      next v hv =>
        split at hd
        · simp at hd
        next fs hfs =>
          simp only [Option.some.injEq] at hd
          subst hd
          unfold decode
          rw [readAll_append hra, lookup_append_left hlt]
          simp only [hfv, hv]
          rw [decodeFields_congr env (o := o ++ extra) (o' := o), hfs]
          intro k hk
          apply lookup_append_of_not_mem_right
          intro hmem
          simp only [keys, List.mem_map] at hmem
          obtain ⟨kv, hkv, rfl⟩ := hmem
          exact (hx kv hkv).2.2 v hv hk
  next => simp at hd

/-! ### what `encodeFields` writes -/

theorem encodeField_key {env : Env V} {fd : Field} {fv : FieldVal V} {kv : Nat × V}
    (h : encodeField env fd fv = some kv) : kv.1 = fd.name := by
  cases fv with
  | req v =>
    simp only [encodeField] at h
    split at h
    · simp at h
    · simp only [Option.some.injEq] at h; rw [← h]
  | opt ov =>
    cases ov with
    | none =>
      simp only [encodeField] at h
      split at h
      · simp at h
      · simp only [Option.some.injEq] at h; rw [← h]
    | some v =>
      simp only [encodeField, Option.some.injEq] at h; rw [← h]

theorem keys_encodeFields (env : Env V) (fds : List Field) (fvs : List (FieldVal V)) :
    ∀ k ∈ keys (encodeFields env fds fvs), k ∈ fds.map (·.name) := by
  induction fds generalizing fvs with
  | nil => intro k hk; simp [encodeFields] at hk
  | cons fd fds ih =>
    cases fvs with
    | nil => intro k hk; simp [encodeFields] at hk
    | cons fv fvs =>
      intro k hk
      simp only [encodeFields] at hk
      split at hk
      next kv hkv =>
        simp only [keys_cons, List.mem_cons] at hk
        rcases hk with hk | hk
        · rw [hk, encodeField_key hkv]; simp
        · exact List.mem_cons_of_mem _ (ih fvs k hk)
      next => exact List.mem_cons_of_mem _ (ih fvs k hk)

theorem lookup_encodeFields (env : Env V) {fds : List Field} {fvs : List (FieldVal V)}
    {fd : Field} {fv : FieldVal V}
    (hnd : fds.Pairwise (fun a b => a.name ≠ b.name)) (hmem : (fd, fv) ∈ fds.zip fvs) :
    lookup (encodeFields env fds fvs) fd.name = (encodeField env fd fv).map (·.2) := by
  induction fds generalizing fvs with
  | nil => simp at hmem
  | cons fd0 fds ih =>
    cases fvs with
    | nil => simp at hmem
    | cons fv0 fvs =>
      rw [List.pairwise_cons] at hnd
      simp only [List.zip_cons_cons, List.mem_cons, Prod.mk.injEq] at hmem
      simp only [encodeFields]
      rcases hmem with ⟨rfl, rfl⟩ | hmem
      · cases h : encodeField env fd fv with
        | some kv =>
          simp only [Option.map_some]
          rw [lookup_cons, if_pos (encodeField_key h)]
        | none =>
          simp only [Option.map_none]
          apply lookup_eq_none
          intro hk
          have := keys_encodeFields env fds fvs _ hk
          simp only [List.mem_map] at this
          obtain ⟨fd', hfd', he⟩ := this
          exact hnd.1 fd' hfd' he.symm
      · have hne : fd0.name ≠ fd.name := hnd.1 fd (List.of_mem_zip hmem).1
        cases h : encodeField env fd0 fv0 with
        | some kv =>
          simp only
          rw [lookup_cons, if_neg (by rw [encodeField_key h]; exact hne)]
          exact ih hnd.2 hmem
        | none =>
          simp only
          exact ih hnd.2 hmem

/-! ### key distinctness of a variant's fields -/

theorem pairwise_mem {α : Type} {R : α → α → Prop} {l : List α} (h : l.Pairwise R)
    (hs : ∀ a b, R a b → R b a) {a b : α} (ha : a ∈ l) (hb : b ∈ l) : a = b ∨ R a b := by
  induction l with
  | nil => simp at ha
  | cons x l ih =>
    rw [List.pairwise_cons] at h
    simp only [List.mem_cons] at ha hb
    rcases ha with rfl | ha <;> rcases hb with rfl | hb
    · exact Or.inl rfl
    · exact Or.inr (h.1 b hb)
    · exact Or.inr (hs _ _ (h.1 a ha))
    · exact ih h.2 ha hb

/-- two lists of keys share no key -/
def KDisj (l₁ l₂ : List Nat) : Prop := ∀ x ∈ l₁, ∀ y ∈ l₂, x ≠ y

theorem KDisj.symm {l₁ l₂ : List Nat} (h : KDisj l₁ l₂) : KDisj l₂ l₁ :=
  fun x hx y hy e => h y hy x hx e.symm

theorem nodup_flatten {L : List (List Nat)} (h : L.flatten.Nodup) :
    (∀ l ∈ L, l.Nodup) ∧ L.Pairwise KDisj := by
  unfold List.Nodup at h
  exact List.pairwise_flatten.mp h

theorem fields_pairwise {fds : List Field} (h : ((fds.map fieldKeys).flatten).Nodup) :
    fds.Pairwise (fun a b => KDisj (fieldKeys a) (fieldKeys b)) :=
  List.pairwise_map.mp (nodup_flatten h).2

theorem names_pairwise {fds : List Field} (h : ((fds.map fieldKeys).flatten).Nodup) :
    fds.Pairwise (fun a b => a.name ≠ b.name) :=
  (fields_pairwise h).imp (fun hd => hd _ (by simp [fieldKeys]) _ (by simp [fieldKeys]))

theorem alias_ne_name {fds : List Field} (h : ((fds.map fieldKeys).flatten).Nodup)
    {fd fd' : Field} (hfd : fd ∈ fds) (hfd' : fd' ∈ fds) {a : Nat} (ha : a ∈ fd.aliases) :
    a ≠ fd'.name := by
  rcases pairwise_mem (fields_pairwise h) (fun _ _ hd => hd.symm) hfd hfd' with rfl | hd
  · have hn : (fieldKeys fd).Nodup := (nodup_flatten h).1 _ (List.mem_map_of_mem hfd)
    unfold fieldKeys at hn
    rw [List.nodup_cons] at hn
    intro e
    exact hn.1 (e ▸ ha)
  · exact hd a (by simp [fieldKeys, ha]) _ (by simp [fieldKeys])

/-! ### reading one field back -/

/-- the one ambiguity of the wire form: an Option holding `some null` is read back as `none` -/
def normVal (env : Env V) : FieldVal V → FieldVal V
  | .opt (some v) => if v == env.null then .opt none else .opt (some v)
  | fv => fv

/-- a frame after one trip over the wire -/
def normalise (env : Env V) (f : Frame V) : Frame V :=
  { f with fields := f.fields.map (normVal env) }

/-- the per-field part of `wfVariant` -/
def fieldOk (fd : Field) : Bool :=
  (!fd.skipNone || (fd.option && fd.default)) &&
  (!fd.skipEmpty || (fd.vec && fd.default && !fd.option)) &&
  !(fd.option && fd.vec)

/-- the per-field part of `typed` -/
def fits (fd : Field) : FieldVal V → Bool
  | .opt _ => fd.option
  | .req _ => !fd.option

theorem decodeField_of_lookupAny (env : Env V) {o : Obj V} {fd : Field} {fv : FieldVal V}
    (hok : fieldOk fd = true) (hfit : fits fd fv = true)
    (hl : lookupAny o (fd.name :: fd.aliases) = (encodeField env fd fv).map (·.2)) :
    decodeField env o fd = some (normVal env fv) := by
  unfold decodeField
  rw [hl]
  cases fv with
  | req v =>
    have hopt : fd.option = false := by simpa [fits] using hfit
    simp only [encodeField, normVal]
    by_cases hc : (fd.skipEmpty && v == env.emptyArr) = true
    · simp only [hc, if_true, Option.map_none, hopt]
      simp only [Bool.and_eq_true, beq_iff_eq] at hc
      obtain ⟨hse, rfl⟩ := hc
      have : fd.vec = true ∧ fd.default = true := by
        simp [fieldOk, hse, hopt] at hok
        exact hok.2
      simp [this.1, this.2]
    · simp [hc, hopt]
  | opt ov =>
    have hopt : fd.option = true := by simpa [fits] using hfit
    cases ov with
    | none =>
      simp only [encodeField, normVal]
      by_cases hs : fd.skipNone = true
      · simp [hs, hopt]
      · simp [hs, hopt]
    | some v =>
      simp only [encodeField, normVal, Option.map_some, hopt, if_true]
      by_cases hv : (v == env.null) = true
      · simp [hv]
      · simp [hv]

theorem lookupAny_encoded (env : Env V) (pre : Obj V) {fds : List Field} {fvs : List (FieldVal V)}
    {fd : Field} {fv : FieldVal V}
    (hpre : ∀ k ∈ (fds.map fieldKeys).flatten, k ∉ keys pre)
    (hnd : ((fds.map fieldKeys).flatten).Nodup) (hmem : (fd, fv) ∈ fds.zip fvs) :
    lookupAny (pre ++ encodeFields env fds fvs) (fd.name :: fd.aliases)
      = (encodeField env fd fv).map (·.2) := by
  have hfd : fd ∈ fds := (List.of_mem_zip hmem).1
  have hin : ∀ k ∈ fieldKeys fd, k ∈ (fds.map fieldKeys).flatten := by
    intro k hk
    simp only [List.mem_flatten, List.mem_map]
    exact ⟨fieldKeys fd, ⟨fd, hfd, rfl⟩, hk⟩
  simp only [lookupAny]
  rw [lookup_append_right (hpre _ (hin _ (by simp [fieldKeys]))),
    lookup_encodeFields env (names_pairwise hnd) hmem]
  cases h : encodeField env fd fv with
  | some kv => simp
  | none =>
    simp only [Option.map_none]
    apply lookupAny_eq_none
    intro a ha
    simp only [keys_append, List.mem_append, not_or]
    refine ⟨hpre _ (hin _ (by simp [fieldKeys, ha])), ?_⟩
    intro hk
    have := keys_encodeFields env fds fvs _ hk
    simp only [List.mem_map] at this
    obtain ⟨fd', hfd', he⟩ := this
    exact alias_ne_name hnd hfd hfd' ha he.symm

theorem decodeFields_of_forall (env : Env V) {o : Obj V} {fds : List Field} {fvs : List (FieldVal V)}
    (hlen : fvs.length = fds.length)
    (h : ∀ p ∈ fds.zip fvs, decodeField env o p.1 = some (normVal env p.2)) :
    decodeFields env o fds = some (fvs.map (normVal env)) := by
  induction fds generalizing fvs with
  | nil =>
    cases fvs with
    | nil => rfl
    | cons _ _ => simp at hlen
  | cons fd fds ih =>
    cases fvs with
    | nil => simp at hlen
    | cons fv fvs =>
      simp only [List.length_cons, Nat.add_right_cancel_iff] at hlen
      simp only [decodeFields]
      rw [h (fd, fv) (by simp), ih hlen (fun p hp => h p (by simp [hp]))]
      simp

theorem decodeFields_encoded (env : Env V) (pre : Obj V) {fds : List Field} {fvs : List (FieldVal V)}
    (hpre : ∀ k ∈ (fds.map fieldKeys).flatten, k ∉ keys pre)
    (hnd : ((fds.map fieldKeys).flatten).Nodup)
    (hok : ∀ fd ∈ fds, fieldOk fd = true)
    (hlen : fvs.length = fds.length)
    (hfit : ∀ p ∈ fds.zip fvs, fits p.1 p.2 = true) :
    decodeFields env (pre ++ encodeFields env fds fvs) fds = some (fvs.map (normVal env)) := by
  apply decodeFields_of_forall env hlen
  intro p hp
  exact decodeField_of_lookupAny env (hok _ (List.of_mem_zip hp).1) (hfit p hp)
    (lookupAny_encoded env pre hpre hnd hp)

/-! ### envelope and tag -/

omit [DecidableEq V] in
theorem readAll_zip {z rest : Obj V} {ks : List Nat} (h : ∀ k ∈ ks, k ∈ keys z) :
    readAll (z ++ rest) ks = some (ks.filterMap (fun k => lookup z k)) := by
  induction ks with
  | nil => rfl
  | cons k ks ih =>
    obtain ⟨v, hv⟩ := lookup_isSome (h k (List.mem_cons_self ..))
    simp only [readAll]
    rw [lookup_append_left hv, ih (fun k' hk' => h k' (List.mem_cons_of_mem _ hk'))]
    simp [hv]

/-- the environment is sane: tags map to pairwise different values (tag strings are distinct) -/
def EnvOk (env : Env V) (S : Schema) : Prop :=
  ∀ a b, a ∈ (S.variants.map (fun v => v.tag :: v.aliases)).flatten →
         b ∈ (S.variants.map (fun v => v.tag :: v.aliases)).flatten → env.tagV a = env.tagV b → a = b

/-- the frame's envelope is what the writer derives (stream_kind / stream_id are functions of the
kind and of session_id): `derive stream (the read-envelope values) = f.envelope` -/
def EnvelopeConsistent (S : Schema) (derive : Nat → List V → List V) (f : Frame V) : Prop :=
  ∀ v, S.variants[f.variant]? = some v →
    derive v.stream (S.readEnvelope.filterMap (fun k => lookup (S.envelope.zip f.envelope) k)) = f.envelope

theorem findVariant_tag (env : Env V) (S : Schema) (henv : EnvOk env S)
    (hnd : ((S.variants.map (fun v => v.tag :: v.aliases)).flatten).Nodup)
    {i : Nat} {v : Variant} (hv : S.variants[i]? = some v) :
    findVariant env S (env.tagV v.tag) = some i := by
  unfold findVariant
  rw [List.findIdx?_eq_some_iff_getElem]
  obtain ⟨hi, hvi⟩ := List.getElem?_eq_some_iff.mp hv
  have hflat : ∀ (w : Variant), w ∈ S.variants → ∀ a ∈ w.tag :: w.aliases,
      a ∈ (S.variants.map (fun v => v.tag :: v.aliases)).flatten := by
    intro w hw a ha
    simp only [List.mem_flatten, List.mem_map]
    exact ⟨w.tag :: w.aliases, ⟨w, hw, rfl⟩, ha⟩
  refine ⟨hi, ?_, ?_⟩
  · rw [hvi]; simp
  · intro j hji hp
    simp only [List.any_eq_true, beq_iff_eq] at hp
    obtain ⟨a, ha, hta⟩ := hp
    have hjl : j < S.variants.length := Nat.lt_trans hji hi
    have hvm : v ∈ S.variants := List.mem_of_getElem? hv
    have hav : a = v.tag :=
      henv a v.tag (hflat _ (List.getElem_mem hjl) a ha) (hflat v hvm _ (by simp)) hta
    have hpw := List.pairwise_iff_getElem.mp (List.pairwise_map.mp (nodup_flatten hnd).2) j i hjl hi hji
    rw [hvi] at hpw
    exact hpw a ha v.tag (by simp) hav

/-! ### the round trip -/

/-- what is read back from the written object is the frame, up to `some null ↦ none` in Option
fields -/
theorem decode_encode (env : Env V) (S : Schema) (derive : Nat → List V → List V) (f : Frame V)
    (o : Obj V)
    (hwf : wellFormed S = true) (henv : EnvOk env S) (ht : typed S f = true)
    (hc : EnvelopeConsistent S derive f) (he : encode env S f = some o) :
    decode env S derive o = some (normalise env f) := by
  simp only [wellFormed, Bool.and_eq_true] at hwf
  obtain ⟨⟨⟨⟨h1, _h2⟩, h3⟩, h4⟩, h5⟩ := hwf
  unfold typed at ht
  cases hv : S.variants[f.variant]? with
  | none => simp [hv] at ht
  | some v =>
    simp only [hv, Bool.and_eq_true, beq_iff_eq] at ht
    obtain ⟨⟨hel, hfl⟩, hall⟩ := ht
    unfold encode at he
    simp only [hv, Option.some.injEq] at he
    subst he
    have hwv : wfVariant S v = true := List.all_eq_true.mp h5 v (List.mem_of_getElem? hv)
    simp only [wfVariant, Bool.and_eq_true] at hwv
    obtain ⟨⟨⟨k1, k2⟩, k3⟩, _k4⟩ := hwv
    have hkz : keys (S.envelope.zip f.envelope) = S.envelope := List.map_fst_zip (by omega)
    have hra : readAll (S.envelope.zip f.envelope ++ [(S.tagField, env.tagV v.tag)] ++
          encodeFields env v.fields f.fields) S.readEnvelope
        = some (S.readEnvelope.filterMap (fun k => lookup (S.envelope.zip f.envelope) k)) := by
      rw [List.append_assoc]
      apply readAll_zip
      intro k hk
      rw [hkz]
      simpa using List.all_eq_true.mp h4 k hk
    have hlt : lookup (S.envelope.zip f.envelope ++ [(S.tagField, env.tagV v.tag)] ++
          encodeFields env v.fields f.fields) S.tagField = some (env.tagV v.tag) := by
      apply lookup_append_left
      rw [lookup_append_right (by rw [hkz]; simpa using h3)]
      simp [lookup_cons]
    have hfv := findVariant_tag env S henv (nodup_of_distinct h1) hv
    have hpre : ∀ k ∈ (v.fields.map fieldKeys).flatten,
        k ∉ keys (S.envelope.zip f.envelope ++ [(S.tagField, env.tagV v.tag)]) := by
      intro k hk
      have := List.all_eq_true.mp k2 k hk
      simp only [Bool.and_eq_true, Bool.not_eq_true', bne_iff_ne, ne_eq] at this
      simp only [keys_append, hkz, keys_cons, keys_nil, List.mem_append, List.mem_singleton, not_or]
      exact ⟨by simpa using this.1, this.2⟩
    have hok : ∀ fd ∈ v.fields, fieldOk fd = true := List.all_eq_true.mp k3
    have hfit : ∀ p ∈ v.fields.zip f.fields, fits p.1 p.2 = true := by
      intro p hp
      have := List.all_eq_true.mp hall p hp
      obtain ⟨fd, fv⟩ := p
      cases fv <;> simpa [fits] using this
    have hdf := decodeFields_encoded env _ hpre (nodup_of_distinct k1) hok hfl hfit
    unfold decode
    rw [hra, hlt]
    simp only [hfv, hv, hdf]
    rw [hc v hv]
    rfl

theorem normVal_eq_self {env : Env V} {fv : FieldVal V} (h : fv ≠ .opt (some env.null)) :
    normVal env fv = fv := by
  cases fv with
  | req v => rfl
  | opt ov =>
    cases ov with
    | none => rfl
    | some v =>
      simp only [normVal]
      by_cases hv : (v == env.null) = true
      · exact absurd (by rw [beq_iff_eq.mp hv]) h
      · simp [hv]

theorem normVal_ne_some_null (env : Env V) (fv : FieldVal V) :
    normVal env fv ≠ .opt (some env.null) := by
  cases fv with
  | req v => simp [normVal]
  | opt ov =>
    cases ov with
    | none => simp [normVal]
    | some v =>
      simp only [normVal]
      by_cases hv : (v == env.null) = true
      · simp [hv]
      · simp only [hv]
        intro e
        simp only [Bool.false_eq_true, if_false, FieldVal.opt.injEq, Option.some.injEq] at e
        exact hv (by simp [e])

theorem normVal_idem (env : Env V) (fv : FieldVal V) :
    normVal env (normVal env fv) = normVal env fv :=
  normVal_eq_self (normVal_ne_some_null env fv)

theorem normalise_eq_self {env : Env V} {f : Frame V}
    (hnn : ∀ fv ∈ f.fields, fv ≠ .opt (some env.null)) : normalise env f = f := by
  have : f.fields.map (normVal env) = f.fields := by
    have h := List.map_congr_left (f := normVal env) (g := id)
      (fun fv hfv => normVal_eq_self (hnn fv hfv))
    rw [h, List.map_id]
  cases f
  simp only [normalise] at this ⊢
  rw [this]

/-- typed equality holds except for the one ambiguity of the wire form: an Option field holding
`some null` reads back as `none` (both are written as null / absent). If no field holds
`opt (some env.null)` the frame itself comes back. (Required `Vec` fields with `skipEmpty` are
restored by the default; fields with `default` but without a skip are always written.) -/
theorem roundtrip_typed (env : Env V) (S : Schema) (derive : Nat → List V → List V) (f : Frame V)
    (o : Obj V)
    (hwf : wellFormed S = true) (henv : EnvOk env S) (ht : typed S f = true)
    (hc : EnvelopeConsistent S derive f) (he : encode env S f = some o)
    (hnn : ∀ fv ∈ f.fields, fv ≠ .opt (some env.null)) :
    decode env S derive o = some f := by
  rw [decode_encode env S derive f o hwf henv ht hc he, normalise_eq_self hnn]

/-! ### writing the frame that was read -/

theorem encodeField_normVal {env : Env V} {fd : Field} {fv : FieldVal V}
    (h : fd.skipNone = true → fv ≠ .opt (some env.null)) :
    encodeField env fd (normVal env fv) = encodeField env fd fv := by
  cases fv with
  | req v => rfl
  | opt ov =>
    cases ov with
    | none => rfl
    | some v =>
      simp only [normVal]
      by_cases hv : (v == env.null) = true
      · have hvn : v = env.null := beq_iff_eq.mp hv
        subst hvn
        have hs : fd.skipNone = false := by
          cases hsk : fd.skipNone with
          | false => rfl
          | true => exact absurd rfl (h hsk)
        simp [encodeField, hs]
      · simp [hv]

theorem encodeFields_normVal {env : Env V} {fds : List Field} {fvs : List (FieldVal V)}
    (h : ∀ p ∈ fds.zip fvs, p.1.skipNone = true → p.2 ≠ .opt (some env.null)) :
    encodeFields env fds (fvs.map (normVal env)) = encodeFields env fds fvs := by
  induction fds generalizing fvs with
  | nil => simp [encodeFields]
  | cons fd fds ih =>
    cases fvs with
    | nil => simp [encodeFields]
    | cons fv fvs =>
      simp only [List.map_cons, encodeFields]
      rw [encodeField_normVal (h (fd, fv) (by simp)), ih (fun p hp => h p (by simp [hp]))]

/-- **Write/read round trip.** For every well-formed schema and every typed frame: what was written
can be read back; the frame that comes back is the same variant (hence the same stream), and
writing it again produces exactly the same object — no field is lost or altered — PROVIDED no
`skip_serializing_if = "Option::is_none"` field holds `Some(null)` (`hsn`; see
`roundtrip_original_false` for why this is needed and `roundtrip_iff` for why nothing weaker
will do). -/
theorem roundtrip (env : Env V) (S : Schema) (derive : Nat → List V → List V) (f : Frame V)
    (o : Obj V)
    (hwf : wellFormed S = true) (henv : EnvOk env S) (ht : typed S f = true)
    (hc : EnvelopeConsistent S derive f) (he : encode env S f = some o)
    (hsn : ∀ v, S.variants[f.variant]? = some v →
      ∀ p ∈ v.fields.zip f.fields, p.1.skipNone = true → p.2 ≠ .opt (some env.null)) :
    ∃ f', decode env S derive o = some f' ∧ f'.variant = f.variant ∧ encode env S f' = some o := by
  refine ⟨normalise env f, decode_encode env S derive f o hwf henv ht hc he, rfl, ?_⟩
  rw [← he]
  unfold encode
  show (match S.variants[f.variant]? with
    | none => none
    | some v => some (S.envelope.zip f.envelope ++ [(S.tagField, env.tagV v.tag)] ++
        encodeFields env v.fields (f.fields.map (normVal env)))) = _
  cases hv : S.variants[f.variant]? with
  | none => rfl
  | some v =>
    simp only
    rw [encodeFields_normVal (hsn v hv)]

/-! ### `hsn` is exactly what `roundtrip` needs -/

theorem encodeFields_normVal_length (env : Env V) (fds : List Field) (fvs : List (FieldVal V)) :
    (encodeFields env fds (fvs.map (normVal env))).length ≤ (encodeFields env fds fvs).length := by
  induction fds generalizing fvs with
  | nil => simp [encodeFields]
  | cons fd fds ih =>
    cases fvs with
    | nil => simp [encodeFields]
    | cons fv fvs =>
      have ih' := ih fvs
      by_cases hbad : fd.skipNone = true → fv ≠ .opt (some env.null)
      · simp only [List.map_cons, encodeFields]
        rw [encodeField_normVal hbad]
        cases encodeField env fd fv with
        | none => exact ih'
        | some kv => simp only [List.length_cons]; omega
      · have hb : fd.skipNone = true ∧ fv = .opt (some env.null) := by
          by_cases h1 : fd.skipNone = true
          · by_cases h2 : fv = .opt (some env.null)
            · exact ⟨h1, h2⟩
            · exact absurd (fun _ => h2) hbad
          · exact absurd (fun h => absurd h h1) hbad
        obtain ⟨hs, rfl⟩ := hb
        simp only [List.map_cons, encodeFields, normVal, beq_self_eq_true, if_true, encodeField, hs,
          List.length_cons]
        omega

theorem encodeFields_normVal_inv {env : Env V} {fds : List Field} {fvs : List (FieldVal V)}
    (h : encodeFields env fds (fvs.map (normVal env)) = encodeFields env fds fvs) :
    ∀ p ∈ fds.zip fvs, p.1.skipNone = true → p.2 ≠ .opt (some env.null) := by
  induction fds generalizing fvs with
  | nil => intro p hp; simp at hp
  | cons fd fds ih =>
    cases fvs with
    | nil => intro p hp; simp at hp
    | cons fv fvs =>
      by_cases hbad : fd.skipNone = true → fv ≠ .opt (some env.null)
      · simp only [List.map_cons, encodeFields] at h
        rw [encodeField_normVal hbad] at h
        have htl : encodeFields env fds (fvs.map (normVal env)) = encodeFields env fds fvs := by
          cases hk : encodeField env fd fv with
          | none => simpa [hk] using h
          | some kv => simpa [hk] using h
        intro p hp
        simp only [List.zip_cons_cons, List.mem_cons] at hp
        rcases hp with rfl | hp
        · exact hbad
        · exact ih htl p hp
      · exfalso
        have hb : fd.skipNone = true ∧ fv = .opt (some env.null) := by
          by_cases h1 : fd.skipNone = true
          · by_cases h2 : fv = .opt (some env.null)
            · exact ⟨h1, h2⟩
            · exact absurd (fun _ => h2) hbad
          · exact absurd (fun h => absurd h h1) hbad
        obtain ⟨hs, rfl⟩ := hb
        have hl := congrArg List.length h
        have := encodeFields_normVal_length env fds fvs
        simp only [List.map_cons, encodeFields, normVal, beq_self_eq_true, if_true, encodeField, hs,
          List.length_cons] at hl
        omega

/-- the extra hypothesis of `roundtrip` is necessary and sufficient: writing the frame that was
read gives back the same object exactly when no skip-if-none field holds `some null` -/
theorem roundtrip_iff (env : Env V) (S : Schema) (derive : Nat → List V → List V) (f : Frame V)
    (o : Obj V)
    (hwf : wellFormed S = true) (henv : EnvOk env S) (ht : typed S f = true)
    (hc : EnvelopeConsistent S derive f) (he : encode env S f = some o) :
    (∃ f', decode env S derive o = some f' ∧ f'.variant = f.variant ∧ encode env S f' = some o) ↔
    (∀ v, S.variants[f.variant]? = some v →
      ∀ p ∈ v.fields.zip f.fields, p.1.skipNone = true → p.2 ≠ .opt (some env.null)) := by
  constructor
  · rintro ⟨f', hd, _, he'⟩
    rw [decode_encode env S derive f o hwf henv ht hc he, Option.some.injEq] at hd
    subst hd
    intro v hv
    rw [← he] at he'
    unfold encode at he'
    change (match S.variants[f.variant]? with
      | none => none
      | some v => some (S.envelope.zip f.envelope ++ [(S.tagField, env.tagV v.tag)] ++
          encodeFields env v.fields (f.fields.map (normVal env)))) = _ at he'
    simp only [hv, Option.some.injEq] at he'
    exact encodeFields_normVal_inv (List.append_cancel_left he')
  · exact roundtrip env S derive f o hwf henv ht hc he

/-! ### the unconditional form: one trip normalises, after that the frame is stable -/

omit [DecidableEq V] in
theorem typed_iff (S : Schema) (f : Frame V) :
    typed S f = true ↔ ∃ v, S.variants[f.variant]? = some v ∧
      f.envelope.length = S.envelope.length ∧ f.fields.length = v.fields.length ∧
      ∀ p ∈ v.fields.zip f.fields, fits p.1 p.2 = true := by
  unfold typed
  cases hv : S.variants[f.variant]? with
  | none => simp
  | some v =>
    simp only [Bool.and_eq_true, beq_iff_eq, List.all_eq_true, Option.some.injEq, exists_eq_left']
    constructor
    · rintro ⟨⟨h1, h2⟩, h3⟩
      refine ⟨h1, h2, ?_⟩
      intro p hp
      have := h3 p hp
      obtain ⟨fd, fv⟩ := p
      cases fv <;> simpa [fits] using this
    · rintro ⟨h1, h2, h3⟩
      refine ⟨⟨h1, h2⟩, ?_⟩
      intro p hp
      have := h3 p hp
      obtain ⟨fd, fv⟩ := p
      cases fv <;> simpa [fits] using this

theorem fits_normVal (env : Env V) (fd : Field) (fv : FieldVal V) :
    fits fd (normVal env fv) = fits fd fv := by
  cases fv with
  | req v => rfl
  | opt ov =>
    cases ov with
    | none => rfl
    | some v =>
      simp only [normVal]
      by_cases hv : (v == env.null) = true <;> simp [hv, fits]

theorem typed_normalise (env : Env V) {S : Schema} {f : Frame V} (ht : typed S f = true) :
    typed S (normalise env f) = true := by
  rw [typed_iff] at ht ⊢
  obtain ⟨v, hv, h1, h2, h3⟩ := ht
  refine ⟨v, hv, h1, by simpa [normalise] using h2, ?_⟩
  intro p hp
  simp only [normalise, List.zip_map_right, List.mem_map] at hp
  obtain ⟨q, hq, rfl⟩ := hp
  simp only [Prod.map_fst, Prod.map_snd, id_eq, fits_normVal]
  exact h3 q hq

/-- **Round trip, unconditionally.** What was written is read back as the normalised frame (same
envelope, same variant, `some null ↦ none` in Option fields); the normalised frame can be written,
and reading THAT gives the normalised frame again: after one trip over the wire a frame is stable. -/
theorem roundtrip_norm (env : Env V) (S : Schema) (derive : Nat → List V → List V) (f : Frame V)
    (o : Obj V)
    (hwf : wellFormed S = true) (henv : EnvOk env S) (ht : typed S f = true)
    (hc : EnvelopeConsistent S derive f) (he : encode env S f = some o) :
    decode env S derive o = some (normalise env f) ∧
    (normalise env f).variant = f.variant ∧ (normalise env f).envelope = f.envelope ∧
    ∃ o', encode env S (normalise env f) = some o' ∧
      decode env S derive o' = some (normalise env f) := by
  refine ⟨decode_encode env S derive f o hwf henv ht hc he, rfl, rfl, ?_⟩
  obtain ⟨v, hv, _⟩ := (typed_iff S f).mp ht
  have hv' : S.variants[(normalise env f).variant]? = some v := hv
  refine ⟨_, by unfold encode; rw [hv'], ?_⟩
  apply roundtrip_typed env S derive (normalise env f) _ hwf henv (typed_normalise env ht) hc
  · unfold encode; rw [hv']
  · intro fv hfv
    simp only [normalise, List.mem_map] at hfv
    obtain ⟨fv0, _, rfl⟩ := hfv
    exact normVal_ne_some_null env fv0

/-- `hnn` is exactly what `roundtrip_typed` needs -/
theorem roundtrip_typed_iff (env : Env V) (S : Schema) (derive : Nat → List V → List V)
    (f : Frame V) (o : Obj V)
    (hwf : wellFormed S = true) (henv : EnvOk env S) (ht : typed S f = true)
    (hc : EnvelopeConsistent S derive f) (he : encode env S f = some o) :
    decode env S derive o = some f ↔ ∀ fv ∈ f.fields, fv ≠ .opt (some env.null) := by
  constructor
  · intro hd
    rw [decode_encode env S derive f o hwf henv ht hc he, Option.some.injEq] at hd
    have hf : f.fields.map (normVal env) = f.fields := congrArg Frame.fields hd
    intro fv hfv
    rw [← hf, List.mem_map] at hfv
    obtain ⟨fv0, _, rfl⟩ := hfv
    exact normVal_ne_some_null env fv0
  · exact roundtrip_typed env S derive f o hwf henv ht hc he

/-! ### the counterexample: `roundtrip` without `hsn` is false

`reason: Option<Value>` with `#[serde(default, skip_serializing_if = "Option::is_none")]` holding
`Some(Value::Null)`: written as `"reason": null`, read back as `None`, written again as nothing. -/

namespace Cex

def fd : Field :=
  { name := 2, aliases := [], option := true, vec := false, skipNone := true, skipEmpty := false,
    default := true }

def S : Schema :=
  { envelope := [], readEnvelope := [], tagField := 0,
    variants := [{ tag := 1, aliases := [], fields := [fd], stream := 0 }] }

def env : Env Nat := { null := 0, emptyArr := 1, dflt := 2, tagV := id }

def derive : Nat → List Nat → List Nat := fun _ ev => ev

/-- `reason = Some(null)` -/
def f : Frame Nat := { envelope := [], variant := 0, fields := [.opt (some 0)] }

/-- `{"type": <tag 1>, "reason": null}` -/
def o : Obj Nat := [(0, 1), (2, 0)]

theorem wf : wellFormed S = true := by decide
theorem ty : typed S f = true := by decide
theorem enc : encode env S f = some o := by decide
theorem envOk : EnvOk env S := fun _ _ _ _ h => h
theorem cons : EnvelopeConsistent S derive f := fun _ _ => rfl

/-- what is read: `reason = None` -/
theorem dec : decode env S derive o = some { envelope := [], variant := 0, fields := [.opt none] } := by
  decide

/-- … which is written WITHOUT the `reason` key: a different object -/
theorem reenc : encode env S { envelope := [], variant := 0, fields := [.opt none] } = some [(0, 1)] := by
  decide

end Cex

/-- `roundtrip` exactly as first stated (without `hsn`) is false -/
theorem roundtrip_original_false :
    ¬ (∀ (env : Env Nat) (S : Schema) (derive : Nat → List Nat → List Nat) (f : Frame Nat)
        (o : Obj Nat),
        wellFormed S = true → EnvOk env S → typed S f = true → EnvelopeConsistent S derive f →
        encode env S f = some o →
        ∃ f', decode env S derive o = some f' ∧ f'.variant = f.variant ∧ encode env S f' = some o) := by
  intro h
  obtain ⟨f', hd, _, he⟩ := h Cex.env Cex.S Cex.derive Cex.f Cex.o Cex.wf Cex.envOk Cex.ty Cex.cons Cex.enc
  rw [Cex.dec, Option.some.injEq] at hd
  subst hd
  rw [Cex.reenc] at he
  revert he
  decide

end Rip.Wire
