import Rip.Model.Compaction
/-!
C09 lemmas: compaction cut points, the checkpoint that wins for a cut, planning, the auto job's
appended frames and the scheduler decision.
-/
namespace Rip.Compaction

/-! ### clamp -/

theorem clamp_le_hi (x lo hi : Nat) : clamp x lo hi ≤ hi := by
  unfold clamp; exact Nat.min_le_right _ _

/-! ### sortCuts -/

theorem insertCut_perm (c : Cut) (l : List Cut) : (insertCut c l).Perm (c :: l) := by
  induction l with
  | nil => exact List.Perm.refl _
  | cons d ds ih =>
    unfold insertCut
    split
    · exact List.Perm.refl _
    · exact ((List.perm_cons d).mpr ih).trans (List.Perm.swap c d ds)

/-- sortCuts is a permutation-preserving sort: same cuts, ascending by (toSeq, msgId) -/
theorem sortCuts_perm (cs : List Cut) : (sortCuts cs).Perm cs := by
  induction cs with
  | nil => exact List.Perm.refl _
  | cons c cs ih =>
    show (insertCut c (sortCuts cs)).Perm (c :: cs)
    exact (insertCut_perm c _).trans ((List.perm_cons c).mpr ih)

theorem sortCuts_length (cs : List Cut) : (sortCuts cs).length = cs.length :=
  (sortCuts_perm cs).length_eq

/-- order key of the job's creation order -/
def cutLe (c d : Cut) : Prop := c.toSeq < d.toSeq ∨ (c.toSeq = d.toSeq ∧ c.msgId ≤ d.msgId)

theorem cutLe_trans {a b c : Cut} (h1 : cutLe a b) (h2 : cutLe b c) : cutLe a c := by
  unfold cutLe at *; omega

theorem cutLe_total {a b : Cut} (h : ¬ cutLe a b) : cutLe b a := by
  unfold cutLe at *; omega

theorem insertCut_sorted (c : Cut) (l : List Cut) (h : l.Pairwise cutLe) :
    (insertCut c l).Pairwise cutLe := by
  induction l with
  | nil => exact List.pairwise_singleton _ _
  | cons d ds ih =>
    obtain ⟨hd, hds⟩ := List.pairwise_cons.mp h
    unfold insertCut
    split
    · next hc =>
      have hcd : cutLe c d := by
        simp only [Bool.or_eq_true, Bool.and_eq_true, decide_eq_true_eq, beq_iff_eq] at hc
        exact hc
      refine List.pairwise_cons.mpr ⟨?_, h⟩
      intro x hx
      rcases List.mem_cons.mp hx with rfl | hx
      · exact hcd
      · exact cutLe_trans hcd (hd x hx)
    · next hc =>
      have hdc : cutLe d c := by
        apply cutLe_total
        intro hcd
        apply hc
        simp only [Bool.or_eq_true, Bool.and_eq_true, decide_eq_true_eq, beq_iff_eq]
        exact hcd
      refine List.pairwise_cons.mpr ⟨?_, ih hds⟩
      intro x hx
      rcases List.mem_cons.mp ((insertCut_perm c ds).mem_iff.mp hx) with rfl | hx
      · exact hdc
      · exact hd x hx

/-- the job's creation order is ascending by (toSeq, msgId) -/
theorem sortCuts_sorted (cs : List Cut) : (sortCuts cs).Pairwise cutLe := by
  induction cs with
  | nil => exact List.Pairwise.nil
  | cons c cs ih => exact insertCut_sorted c _ ih

/-! ### bestCkpt -/

/-- one step of the `bestCkpt` fold -/
def ckStep (t : Nat) (best : Option (Nat × Nat × Nat)) (f : F) : Option (Nat × Nat × Nat) :=
  match f.kind with
  | .ckpt q =>
    if q > t then best else
    match best with
    | none => some (q, f.seq, f.id)
    | some (bq, bs, _) => if q > bq || (q == bq && f.seq > bs) then some (q, f.seq, f.id) else best
  | _ => best

theorem bestCkpt_eq (T : Thread) (t : Nat) : bestCkpt T t = T.foldl (ckStep t) none := rfl

/-- invariant of the fold over the frames `S` seen so far -/
def CkInv (S : List F) (t : Nat) (best : Option (Nat × Nat × Nat)) : Prop :=
  (best = none → ∀ g ∈ S, ∀ q, g.kind = .ckpt q → t < q) ∧
  (∀ q s i, best = some (q, s, i) →
    q ≤ t ∧ (∃ f ∈ S, f.kind = .ckpt q ∧ f.seq = s ∧ f.id = i) ∧
    (∀ g ∈ S, ∀ q', g.kind = .ckpt q' → q' ≤ t → q' ≤ q) ∧
    (∀ g ∈ S, g.kind = .ckpt q → g.seq ≤ s))

theorem ckStep_not_ckpt (t : Nat) (best : Option (Nat × Nat × Nat)) (f : F)
    (h : ∀ q, f.kind ≠ .ckpt q) : ckStep t best f = best := by
  unfold ckStep
  split
  · next q hq => exact absurd hq (h q)
  · rfl

theorem ckStep_ckpt (t : Nat) (best : Option (Nat × Nat × Nat)) (f : F) (q : Nat)
    (hq : f.kind = .ckpt q) :
    ckStep t best f = if q > t then best else
      match best with
      | none => some (q, f.seq, f.id)
      | some (bq, bs, _) =>
        if q > bq || (q == bq && f.seq > bs) then some (q, f.seq, f.id) else best := by
  unfold ckStep
  simp only [hq]

theorem ckInv_step (S : List F) (t : Nat) (best : Option (Nat × Nat × Nat)) (f : F)
    (h : CkInv S t best) : CkInv (S ++ [f]) t (ckStep t best f) := by
  by_cases hk : ∃ q, f.kind = .ckpt q
  · obtain ⟨q, hq⟩ := hk
    rw [ckStep_ckpt t best f q hq]
    by_cases hqt : q > t
    · rw [if_pos hqt]
      refine ⟨?_, ?_⟩
      · intro hn g hg q' hq'
        rcases List.mem_append.mp hg with hg | hg
        · exact h.1 hn g hg q' hq'
        · have : g = f := by simpa using hg
          subst this
          rw [hq] at hq'; injection hq' with e; omega
      · intro bq bs bi hb
        obtain ⟨h1, ⟨f', hf', h2⟩, h3, h4⟩ := h.2 bq bs bi hb
        refine ⟨h1, ⟨f', List.mem_append_left _ hf', h2⟩, ?_, ?_⟩
        · intro g hg q' hq' hle
          rcases List.mem_append.mp hg with hg | hg
          · exact h3 g hg q' hq' hle
          · have : g = f := by simpa using hg
            subst this
            rw [hq] at hq'; injection hq' with e; omega
        · intro g hg hq'
          rcases List.mem_append.mp hg with hg | hg
          · exact h4 g hg hq'
          · have : g = f := by simpa using hg
            subst this
            rw [hq] at hq'; injection hq' with e; omega
    · rw [if_neg hqt]
      cases best with
      | none =>
        refine ⟨fun hn => (by cases hn), ?_⟩
        intro bq bs bi hb
        simp only [Option.some.injEq, Prod.mk.injEq] at hb
        obtain ⟨rfl, rfl, rfl⟩ := hb
        refine ⟨by omega, ⟨f, by simp, hq, rfl, rfl⟩, ?_, ?_⟩
        · intro g hg q' hq' hle
          rcases List.mem_append.mp hg with hg | hg
          · have := h.1 rfl g hg q' hq'; omega
          · have : g = f := by simpa using hg
            subst this
            rw [hq] at hq'; injection hq' with e; omega
        · intro g hg hq'
          rcases List.mem_append.mp hg with hg | hg
          · have := h.1 rfl g hg q hq'; omega
          · have : g = f := by simpa using hg
            subst this; exact Nat.le_refl _
      | some b =>
        obtain ⟨bq, bs, bi⟩ := b
        obtain ⟨h1, ⟨f', hf', h2⟩, h3, h4⟩ := h.2 bq bs bi rfl
        show CkInv (S ++ [f]) t
          (if (decide (q > bq) || (q == bq && decide (f.seq > bs))) = true
            then some (q, f.seq, f.id) else some (bq, bs, bi))
        by_cases hc : (decide (q > bq) || (q == bq && decide (f.seq > bs))) = true
        · rw [if_pos hc]
          simp only [Bool.or_eq_true, Bool.and_eq_true, decide_eq_true_eq, beq_iff_eq] at hc
          refine ⟨fun hn => (by cases hn), ?_⟩
          intro cq cs ci hb
          simp only [Option.some.injEq, Prod.mk.injEq] at hb
          obtain ⟨rfl, rfl, rfl⟩ := hb
          refine ⟨by omega, ⟨f, by simp, hq, rfl, rfl⟩, ?_, ?_⟩
          · intro g hg q' hq' hle
            rcases List.mem_append.mp hg with hg | hg
            · have := h3 g hg q' hq' hle; omega
            · have : g = f := by simpa using hg
              subst this
              rw [hq] at hq'; injection hq' with e; omega
          · intro g hg hq'
            rcases List.mem_append.mp hg with hg | hg
            · have hle := h3 g hg q hq' (by omega)
              have hqq : q = bq := by omega
              subst hqq
              have := h4 g hg hq'; omega
            · have : g = f := by simpa using hg
              subst this; exact Nat.le_refl _
        · rw [if_neg hc]
          simp only [Bool.or_eq_true, Bool.and_eq_true, decide_eq_true_eq, beq_iff_eq] at hc
          refine ⟨fun hn => (by cases hn), ?_⟩
          intro cq cs ci hb
          simp only [Option.some.injEq, Prod.mk.injEq] at hb
          obtain ⟨rfl, rfl, rfl⟩ := hb
          refine ⟨h1, ⟨f', List.mem_append_left _ hf', h2⟩, ?_, ?_⟩
          · intro g hg q' hq' hle
            rcases List.mem_append.mp hg with hg | hg
            · exact h3 g hg q' hq' hle
            · have : g = f := by simpa using hg
              subst this
              rw [hq] at hq'; injection hq' with e; omega
          · intro g hg hq'
            rcases List.mem_append.mp hg with hg | hg
            · exact h4 g hg hq'
            · have : g = f := by simpa using hg
              subst this
              rw [hq] at hq'; injection hq' with e; omega
  · have hk' : ∀ q, f.kind ≠ .ckpt q := fun q hq => hk ⟨q, hq⟩
    rw [ckStep_not_ckpt t best f hk']
    refine ⟨?_, ?_⟩
    · intro hn g hg q' hq'
      rcases List.mem_append.mp hg with hg | hg
      · exact h.1 hn g hg q' hq'
      · have : g = f := by simpa using hg
        subst this; exact absurd hq' (hk' q')
    · intro bq bs bi hb
      obtain ⟨h1, ⟨f', hf', h2⟩, h3, h4⟩ := h.2 bq bs bi hb
      refine ⟨h1, ⟨f', List.mem_append_left _ hf', h2⟩, ?_, ?_⟩
      · intro g hg q' hq' hle
        rcases List.mem_append.mp hg with hg | hg
        · exact h3 g hg q' hq' hle
        · have : g = f := by simpa using hg
          subst this; exact absurd hq' (hk' q')
      · intro g hg hq'
        rcases List.mem_append.mp hg with hg | hg
        · exact h4 g hg hq'
        · have : g = f := by simpa using hg
          subst this; exact absurd hq' (hk' bq)

theorem ckInv_foldl (T S : List F) (t : Nat) (best : Option (Nat × Nat × Nat))
    (h : CkInv S t best) : CkInv (S ++ T) t (T.foldl (ckStep t) best) := by
  induction T generalizing S best with
  | nil => simpa using h
  | cons f T ih =>
    have := ih (S ++ [f]) (ckStep t best f) (ckInv_step S t best f h)
    simpa [List.append_assoc] using this

theorem ckInv_bestCkpt (T : Thread) (t : Nat) : CkInv T t (bestCkpt T t) := by
  have h0 : CkInv [] t none := ⟨fun _ g hg => (by cases hg), fun q s i hb => (by cases hb)⟩
  have := ckInv_foldl T [] t none h0
  simpa [bestCkpt_eq] using this

/-! ### mkCut -/

theorem mkCut_eq_some (T : Thread) (ord : Nat) (c : Cut) (h : mkCut T ord = some c) :
    ∃ m, (messages T)[ord - 1]? = some m ∧ c.ordinal = ord ∧ c.toSeq = m.seq ∧ c.msgId = m.id ∧
      c.already = (match bestCkpt T m.seq with | some (q, _, _) => q == m.seq | none => false) ∧
      c.latestCkpt = if c.already then (bestCkpt T m.seq).map (fun b => b.2.2) else none := by
  unfold mkCut at h
  split at h
  · cases h
  · next m hm =>
    simp only [Option.some.injEq] at h
    subst h
    exact ⟨m, hm, rfl, rfl, rfl, rfl, rfl⟩

theorem mkCut_isSome (T : Thread) (ord : Nat) (h0 : ord ≠ 0) (hle : ord ≤ (messages T).length) :
    ∃ c, mkCut T ord = some c ∧ c.ordinal = ord := by
  have hlt : ord - 1 < (messages T).length := by omega
  unfold mkCut
  rw [List.getElem?_eq_getElem hlt]
  exact ⟨_, rfl, rfl⟩

theorem mkCut_already_iff (T : Thread) (ord : Nat) (c : Cut) (h : mkCut T ord = some c) :
    c.already = true ↔ ∃ f ∈ T, f.kind = .ckpt c.toSeq := by
  obtain ⟨m, -, -, hts, -, hal, -⟩ := mkCut_eq_some T ord c h
  have inv := ckInv_bestCkpt T m.seq
  rw [hal, hts]
  cases hb : bestCkpt T m.seq with
  | none =>
    rw [hb] at inv
    constructor
    · intro h; cases h
    · rintro ⟨f, hf, hk⟩
      have := inv.1 rfl f hf m.seq hk
      omega
  | some b =>
    obtain ⟨q, s, i⟩ := b
    rw [hb] at inv
    obtain ⟨h1, ⟨f', hf', h2, -, -⟩, h3, -⟩ := inv.2 q s i rfl
    show (q == m.seq) = true ↔ _
    rw [beq_iff_eq]
    constructor
    · intro e; subst e; exact ⟨f', hf', h2⟩
    · rintro ⟨f, hf, hk⟩
      have := h3 f hf m.seq hk (Nat.le_refl _)
      omega

theorem mkCut_latest_wins (T : Thread) (ord : Nat) (c : Cut) (h : mkCut T ord = some c)
    (i : Nat) (hi : c.latestCkpt = some i) :
    ∃ f ∈ T, f.id = i ∧ f.kind = .ckpt c.toSeq ∧ ∀ g ∈ T, g.kind = .ckpt c.toSeq → g.seq ≤ f.seq := by
  obtain ⟨m, -, -, hts, -, hal, hlc⟩ := mkCut_eq_some T ord c h
  have inv := ckInv_bestCkpt T m.seq
  rw [hlc] at hi
  cases ha : c.already with
  | false => rw [ha] at hi; cases hi
  | true =>
    rw [ha] at hi hal
    simp only [if_true] at hi
    cases hb : bestCkpt T m.seq with
    | none => rw [hb] at hi; cases hi
    | some b =>
      obtain ⟨q, s, j⟩ := b
      rw [hb] at hi hal inv
      simp only [Option.map_some, Option.some.injEq] at hi
      subst hi
      have hq : q = m.seq := by
        have : (q == m.seq) = true := hal.symm
        exact beq_iff_eq.mp this
      subst hq
      obtain ⟨-, ⟨f, hf, h2, h2s, h2i⟩, -, h4⟩ := inv.2 _ s j rfl
      refine ⟨f, hf, h2i, by rw [hts]; exact h2, ?_⟩
      intro g hg hk
      rw [hts] at hk
      rw [h2s]; exact h4 g hg hk

/-! ### cutPoints -/

theorem mem_cutPoints (T : Thread) (stride limit : Nat) (c : Cut) :
    c ∈ cutPoints T stride limit ↔
      ∃ i, i < clamp limit 1 32 ∧ ((messages T).length / stride) * stride - i * stride ≠ 0 ∧
        mkCut T (((messages T).length / stride) * stride - i * stride) = some c := by
  unfold cutPoints
  simp only [List.mem_filterMap, List.mem_range]
  constructor
  · rintro ⟨i, hi, h⟩
    by_cases h0 : ((messages T).length / stride) * stride - i * stride = 0
    · rw [if_pos h0] at h; cases h
    · rw [if_neg h0] at h; exact ⟨i, hi, h0, h⟩
  · rintro ⟨i, hi, h0, h⟩
    exact ⟨i, hi, by rw [if_neg h0]; exact h⟩

/-- a cut point counts as checkpointed exactly when a checkpoint frame for that seq exists -/
theorem already_iff (T : Thread) (stride limit : Nat) (c : Cut) (hc : c ∈ cutPoints T stride limit) :
    c.already = true ↔ ∃ f ∈ T, f.kind = .ckpt c.toSeq := by
  obtain ⟨i, -, -, h⟩ := (mem_cutPoints T stride limit c).mp hc
  exact mkCut_already_iff T _ c h

/-- …and the winning checkpoint is the latest such frame by stream order (greatest seq) -/
theorem latest_wins (T : Thread) (stride limit : Nat) (c : Cut) (hc : c ∈ cutPoints T stride limit)
    (i : Nat) (hi : c.latestCkpt = some i) :
    ∃ f ∈ T, f.id = i ∧ f.kind = .ckpt c.toSeq ∧ ∀ g ∈ T, g.kind = .ckpt c.toSeq → g.seq ≤ f.seq := by
  obtain ⟨j, -, -, h⟩ := (mem_cutPoints T stride limit c).mp hc
  exact mkCut_latest_wins T _ c h i hi

/-- every cut point is a k·stride-th message of the thread, identified by that message's seq and id -/
theorem cut_is_kth_message (T : Thread) (stride limit : Nat) (hs : 0 < stride) (c : Cut)
    (hc : c ∈ cutPoints T stride limit) :
    ∃ k, 0 < k ∧ c.ordinal = k * stride ∧ c.ordinal ≤ (messages T).length ∧
      ∃ m, (messages T)[c.ordinal - 1]? = some m ∧ c.toSeq = m.seq ∧ c.msgId = m.id := by
  have _ := hs
  obtain ⟨i, -, h0, h⟩ := (mem_cutPoints T stride limit c).mp hc
  obtain ⟨m, hm, hord, hts, hid, -, -⟩ := mkCut_eq_some T _ c h
  have hmul : ((messages T).length / stride) * stride - i * stride
      = ((messages T).length / stride - i) * stride := (Nat.sub_mul _ _ _).symm
  have hle : ((messages T).length / stride) * stride ≤ (messages T).length :=
    Nat.div_mul_le_self _ _
  refine ⟨(messages T).length / stride - i, ?_, ?_, ?_, m, ?_, hts, hid⟩
  · rw [hmul] at h0
    apply Nat.pos_of_ne_zero
    intro hz; rw [hz, Nat.zero_mul] at h0; exact h0 rfl
  · rw [hord, hmul]
  · rw [hord]; omega
  · rw [hord]; exact hm

theorem cut_count_bounded (T : Thread) (stride limit : Nat) : (cutPoints T stride limit).length ≤ 32 := by
  unfold cutPoints
  refine Nat.le_trans (List.length_filterMap_le _ _) ?_
  rw [List.length_range]
  exact clamp_le_hi _ _ _

theorem filterMap_ordinals (T : Thread) (h : Nat → Nat) (l : List Nat)
    (hle : ∀ i ∈ l, h i ≤ (messages T).length) :
    (l.filterMap (fun i => if h i = 0 then none else mkCut T (h i))).map (·.ordinal) =
      (l.map h).filter (· ≠ 0) := by
  induction l with
  | nil => rfl
  | cons i l ih =>
    have ih' := ih (fun j hj => hle j (List.mem_cons_of_mem _ hj))
    by_cases h0 : h i = 0
    · rw [List.filterMap_cons_none (by rw [if_pos h0]), List.map_cons,
        List.filter_cons_of_neg (by simp [h0])]
      exact ih'
    · obtain ⟨c, hc, hord⟩ := mkCut_isSome T (h i) h0 (hle i List.mem_cons_self)
      rw [List.filterMap_cons_some (b := c) (by rw [if_neg h0]; exact hc), List.map_cons,
        List.map_cons, List.filter_cons_of_pos (by simp [h0]), ih', hord]

/-- the list is exactly the latest multiples, latest first, at most clamp limit 1 32 of them -/
theorem cut_ordinals (T : Thread) (stride limit : Nat) (hs : 0 < stride) :
    (cutPoints T stride limit).map (·.ordinal) =
      ((List.range (clamp limit 1 32)).map
        (fun i => ((messages T).length / stride) * stride - i * stride)).filter (· ≠ 0) := by
  have _ := hs
  unfold cutPoints
  exact filterMap_ordinals T (fun i => ((messages T).length / stride) * stride - i * stride) _
    (fun i _ => Nat.le_trans (Nat.sub_le _ _) (Nat.div_mul_le_self _ _))

/-! ### plan -/

/-- the plan is exactly the not-yet-checkpointed cut points among the latest 32, latest first, capped -/
theorem plan_exact (T : Thread) (stride maxNew : Nat) :
    plan T stride maxNew =
      ((cutPoints T stride 32).filter (fun c => !c.already)).take (clamp maxNew 1 32) ∧
    (plan T stride maxNew).length ≤ 32 ∧ ∀ c ∈ plan T stride maxNew, c.already = false := by
  refine ⟨rfl, ?_, ?_⟩
  · unfold plan
    rw [List.length_take]
    exact Nat.le_trans (Nat.min_le_left _ _) (clamp_le_hi _ _ _)
  · intro c hc
    unfold plan at hc
    have := (List.mem_filter.mp (List.mem_of_mem_take hc)).2
    simpa using this

theorem plan_subset_cutPoints (T : Thread) (stride maxNew : Nat) (c : Cut)
    (hc : c ∈ plan T stride maxNew) : c ∈ cutPoints T stride 32 := by
  unfold plan at hc
  exact (List.mem_filter.mp (List.mem_of_mem_take hc)).1

/-! ### jobFrames -/

/-- the checkpoint frames of a job, by recursion with an explicit offset -/
def ckFrames (fresh : Nat → Nat) (next : Nat) : Nat → List Cut → List F
  | _, [] => []
  | off, c :: cs =>
    ({ id := fresh off, seq := next + off, kind := .ckpt c.toSeq } : F) :: ckFrames fresh next (off + 1) cs

theorem mapIdx_eq_ckFrames (fresh : Nat → Nat) (next : Nat) (cs : List Cut) (off : Nat) :
    cs.mapIdx (fun i c => ({ id := fresh (off + i), seq := next + (off + i), kind := .ckpt c.toSeq } : F))
      = ckFrames fresh next off cs := by
  induction cs generalizing off with
  | nil => rfl
  | cons c cs ih =>
    rw [List.mapIdx_cons]
    show _ :: _ = _ :: _
    have := ih (off + 1)
    simp only [Nat.add_zero]
    congr 1
    rw [← this]
    congr 1
    funext i c
    simp only [Nat.add_assoc, Nat.add_comm 1 i]

theorem jobFrames_eq (next : Nat) (fresh : Nat → Nat) (job : Nat) (p : List Cut) :
    jobFrames next fresh job p =
      ckFrames fresh next 0 (sortCuts p) ++
        [{ id := fresh (sortCuts p).length, seq := next + (sortCuts p).length, kind := .jobEnded job }] := by
  have := mapIdx_eq_ckFrames fresh next (sortCuts p) 0
  simp only [Nat.zero_add] at this
  unfold jobFrames
  simp only [this]

theorem ckFrames_length (fresh : Nat → Nat) (next off : Nat) (cs : List Cut) :
    (ckFrames fresh next off cs).length = cs.length := by
  induction cs generalizing off with
  | nil => rfl
  | cons c cs ih => simp [ckFrames, ih]

theorem ckFrames_kinds (fresh : Nat → Nat) (next off : Nat) (cs : List Cut) :
    (ckFrames fresh next off cs).map (·.kind) = cs.map (fun c => K.ckpt c.toSeq) := by
  induction cs generalizing off with
  | nil => rfl
  | cons c cs ih => simp [ckFrames, ih]

theorem ckFrames_seqs (fresh : Nat → Nat) (next off : Nat) (cs : List Cut) :
    (ckFrames fresh next off cs).map (·.seq) = List.range' (next + off) cs.length := by
  induction cs generalizing off with
  | nil => rfl
  | cons c cs ih =>
    simp only [ckFrames, List.map_cons, List.length_cons, List.range'_succ, ih (off + 1)]
    rfl

theorem ckFrames_kind_of_mem (fresh : Nat → Nat) (next off : Nat) (cs : List Cut) (f : F)
    (hf : f ∈ ckFrames fresh next off cs) : ∃ q, f.kind = .ckpt q := by
  have : f.kind ∈ (ckFrames fresh next off cs).map (·.kind) := List.mem_map_of_mem hf
  rw [ckFrames_kinds] at this
  obtain ⟨c, -, e⟩ := List.mem_map.mp this
  exact ⟨c.toSeq, e.symm⟩

/-- `f` is a checkpoint frame -/
def isCk (f : F) : Bool := match f.kind with | .ckpt _ => true | _ => false

theorem ckFrames_filter_isCk (fresh : Nat → Nat) (next off : Nat) (cs : List Cut) :
    (ckFrames fresh next off cs).filter isCk = ckFrames fresh next off cs := by
  apply List.filter_eq_self.mpr
  intro f hf
  obtain ⟨q, hq⟩ := ckFrames_kind_of_mem fresh next off cs f hf
  simp [isCk, hq]

theorem ckFrames_filter_none (fresh : Nat → Nat) (next off : Nat) (cs : List Cut) (P : F → Bool)
    (hP : ∀ f q, f.kind = .ckpt q → P f = false) :
    (ckFrames fresh next off cs).filter P = [] := by
  apply List.filter_eq_nil_iff.mpr
  intro f hf
  obtain ⟨q, hq⟩ := ckFrames_kind_of_mem fresh next off cs f hf
  simp [hP f q hq]

/-! ### auto -/

theorem auto_frames_noop (T : Thread) (fresh : Nat → Nat) (job stride maxNew : Nat) (dry : Bool)
    (h : plan T stride maxNew = [] ∨ dry = true) : (auto T fresh job stride maxNew dry).2.2 = [] := by
  unfold auto
  have : ((plan T stride maxNew).isEmpty || dry) = true := by
    rcases h with h | h
    · simp [h]
    · simp [h]
  simp only [this, if_true]

theorem auto_frames_run (T : Thread) (fresh : Nat → Nat) (job stride maxNew : Nat)
    (hne : plan T stride maxNew ≠ []) :
    (auto T fresh job stride maxNew false).2.2 =
      ({ id := fresh 1000, seq := headSeq T, kind := .jobSpawned job } : F) ::
        jobFrames (headSeq T + 1) fresh job (plan T stride maxNew) := by
  unfold auto
  have : ((plan T stride maxNew).isEmpty || false) = false := by
    simp [hne]
  simp only [this]
  rfl

/-- auto: nothing to do or dry run ⇒ nothing is appended (idempotence / read-only) -/
theorem auto_noop_silent (T : Thread) (fresh : Nat → Nat) (job stride maxNew : Nat) (dry : Bool)
    (h : plan T stride maxNew = [] ∨ dry = true) : (auto T fresh job stride maxNew dry).2.2 = [] :=
  auto_frames_noop T fresh job stride maxNew dry h

/-- auto creates precisely the planned checkpoints, bracketed by one job-spawned and one job-ended frame -/
theorem auto_creates_plan (T : Thread) (fresh : Nat → Nat) (job stride maxNew : Nat)
    (hne : plan T stride maxNew ≠ []) :
    let fs := (auto T fresh job stride maxNew false).2.2
    fs.head?.map (·.kind) = some (.jobSpawned job) ∧ fs.getLast?.map (·.kind) = some (.jobEnded job) ∧
    (fs.filter (fun f => match f.kind with | .ckpt _ => true | _ => false)).map (·.kind) =
      (sortCuts (plan T stride maxNew)).map (fun c => K.ckpt c.toSeq) ∧
    fs.length = (plan T stride maxNew).length + 2 ∧
    (fs.filter (fun f => f.kind == .jobSpawned job)).length = 1 ∧
    (fs.filter (fun f => f.kind == .jobEnded job)).length = 1 := by
  intro fs
  have hfs : fs = ({ id := fresh 1000, seq := headSeq T, kind := .jobSpawned job } : F) ::
      (ckFrames fresh (headSeq T + 1) 0 (sortCuts (plan T stride maxNew)) ++
        [{ id := fresh (sortCuts (plan T stride maxNew)).length,
           seq := headSeq T + 1 + (sortCuts (plan T stride maxNew)).length, kind := .jobEnded job }]) := by
    show (auto T fresh job stride maxNew false).2.2 = _
    rw [auto_frames_run T fresh job stride maxNew hne, jobFrames_eq]
  refine ⟨?_, ?_, ?_, ?_, ?_, ?_⟩
  · rw [hfs]; rfl
  · rw [hfs, ← List.cons_append, List.getLast?_concat]; rfl
  · have hfun : (fun f : F => match f.kind with | .ckpt _ => true | _ => false) = isCk := rfl
    rw [hfun, hfs, List.filter_cons_of_neg (by simp [isCk]), List.filter_append,
      ckFrames_filter_isCk, List.filter_cons_of_neg (by simp [isCk]), List.filter_nil,
      List.append_nil, ckFrames_kinds]
  · rw [hfs]
    simp only [List.length_cons, List.length_append, ckFrames_length, sortCuts_length, List.length_nil]
  · rw [hfs, List.filter_cons_of_pos (by simp), List.filter_append,
      ckFrames_filter_none _ _ _ _ _ (by intro f q hq; simp [hq]),
      List.filter_cons_of_neg (by simp)]
    rfl
  · rw [hfs, List.filter_cons_of_neg (by simp), List.filter_append,
      ckFrames_filter_none _ _ _ _ _ (by intro f q hq; simp [hq]),
      List.filter_cons_of_pos (by simp)]
    rfl

theorem jobFrames_seqs (next : Nat) (fresh : Nat → Nat) (job : Nat) (p : List Cut) :
    (jobFrames next fresh job p).map (·.seq) = List.range' next (jobFrames next fresh job p).length := by
  rw [jobFrames_eq]
  simp only [List.map_append, ckFrames_seqs, List.map_cons, List.map_nil, List.length_append,
    ckFrames_length, List.length_cons, List.length_nil, Nat.add_zero, Nat.zero_add]
  rw [List.range'_concat]
  simp

/-- the appended frames continue the thread's numbering -/
theorem auto_seqs_contiguous (T : Thread) (fresh : Nat → Nat) (job stride maxNew : Nat) (dry : Bool) :
    ((auto T fresh job stride maxNew dry).2.2).map (·.seq) =
      List.range' (headSeq T) ((auto T fresh job stride maxNew dry).2.2).length := by
  by_cases h : plan T stride maxNew = [] ∨ dry = true
  · rw [auto_frames_noop T fresh job stride maxNew dry h]; rfl
  · have hne : plan T stride maxNew ≠ [] := fun e => h (Or.inl e)
    have hd : dry = false := by cases dry <;> simp_all
    subst hd
    rw [auto_frames_run T fresh job stride maxNew hne]
    simp only [List.map_cons, List.length_cons, jobFrames_seqs, List.range'_succ]

/-- after a completed auto run every planned cut point is checkpointed (so the same plan is not
made again: replay-safe / idempotent) -/
theorem auto_then_done (T : Thread) (fresh : Nat → Nat) (job stride maxNew : Nat) (c : Cut)
    (hc : c ∈ plan T stride maxNew) :
    ∃ f ∈ T ++ (auto T fresh job stride maxNew false).2.2, f.kind = .ckpt c.toSeq := by
  have hne : plan T stride maxNew ≠ [] := fun e => by rw [e] at hc; cases hc
  have hc' : c ∈ sortCuts (plan T stride maxNew) := (sortCuts_perm _).mem_iff.mpr hc
  have hk : K.ckpt c.toSeq ∈
      (ckFrames fresh (headSeq T + 1) 0 (sortCuts (plan T stride maxNew))).map (·.kind) := by
    rw [ckFrames_kinds]; exact List.mem_map_of_mem (f := fun c : Cut => K.ckpt c.toSeq) hc'
  obtain ⟨f, hf, e⟩ := List.mem_map.mp hk
  refine ⟨f, ?_, e⟩
  rw [auto_frames_run T fresh job stride maxNew hne, jobFrames_eq]
  exact List.mem_append_right _ (List.mem_cons_of_mem _ (List.mem_append_left _ hf))

/-! ### frames that are neither messages nor checkpoints -/

theorem messages_append_other (T : Thread) (f : F) (hf : f.kind ≠ .message) :
    messages (T ++ [f]) = messages T := by
  unfold messages
  have : isMsg f = false := by
    unfold isMsg
    split
    · next h => exact absurd h hf
    · rfl
  rw [List.filter_append, List.filter_cons_of_neg (by simp [this])]
  simp

theorem bestCkpt_append_other (T : Thread) (f : F) (t : Nat) (hk : ∀ q, f.kind ≠ .ckpt q) :
    bestCkpt (T ++ [f]) t = bestCkpt T t := by
  rw [bestCkpt_eq, bestCkpt_eq, List.foldl_append]
  exact ckStep_not_ckpt t _ f hk

theorem mkCut_append_other (T : Thread) (f : F) (ord : Nat)
    (hf : f.kind ≠ .message) (hk : ∀ q, f.kind ≠ .ckpt q) :
    mkCut (T ++ [f]) ord = mkCut T ord := by
  unfold mkCut
  simp only [messages_append_other T f hf, bestCkpt_append_other T f _ hk]

/-- compaction follows message count alone: frames that are not messages and not checkpoints do not
change cut points -/
theorem cuts_ignore_other_frames (T : Thread) (stride limit : Nat) (f : F)
    (hf : f.kind ≠ .message) (hk : ∀ q, f.kind ≠ .ckpt q) :
    cutPoints (T ++ [f]) stride limit = cutPoints T stride limit := by
  unfold cutPoints
  simp only [messages_append_other T f hf, mkCut_append_other T f _ hf hk]

/-! ### scheduler -/

/-- scheduler: noop and dry run append nothing -/
theorem schedule_noop_silent (T : Thread) (fresh : Nat → Nat) (job stride maxNew : Nat) (b e d : Bool)
    (h : plan T stride maxNew = [] ∨ d = true) : (schedule T fresh job stride maxNew b e d).2.2 = [] := by
  unfold schedule
  by_cases hp : (plan T stride maxNew).isEmpty = true
  · simp only [hp, if_true]
  · have hne : plan T stride maxNew ≠ [] := fun e => hp (by simp [e])
    have hd : d = true := by
      rcases h with h | h
      · exact absurd h hne
      · exact h
    simp only [hp, hd, if_true]
    rfl

/-- an in-flight job (when blocking) yields exactly one decision frame -/
theorem schedule_skipped (T : Thread) (fresh : Nat → Nat) (job stride maxNew : Nat) (e : Bool) (j : Nat)
    (hne : plan T stride maxNew ≠ []) (hj : inflight T = some j) :
    (schedule T fresh job stride maxNew true e false).1 = .skippedInflight ∧
    ((schedule T fresh job stride maxNew true e false).2.2).map (·.kind) = [.decided] := by
  have hp : (plan T stride maxNew).isEmpty = false := by simp [hne]
  unfold schedule
  simp only [hp, hj, if_true]
  exact ⟨rfl, rfl⟩

/-- otherwise job-spawned precedes the decision frame -/
theorem schedule_spawns (T : Thread) (fresh : Nat → Nat) (job stride maxNew : Nat) (b e : Bool)
    (hne : plan T stride maxNew ≠ []) (hj : b = false ∨ inflight T = none) :
    (((schedule T fresh job stride maxNew b e false).2.2).take 2).map (·.kind) =
      [.jobSpawned job, .decided] := by
  have hp : (plan T stride maxNew).isEmpty = false := by simp [hne]
  have hi : (if b = true then inflight T else none) = none := by
    rcases hj with h | h
    · simp [h]
    · simp [h]
  unfold schedule
  simp only [hp, hi]
  cases e <;> rfl

end Rip.Compaction
