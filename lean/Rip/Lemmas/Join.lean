import Rip.Model.Join
/-!
C06 lemmas: the history/live join is exact for the three join-safe emit orders, the producer does
not depend on the subscriber, and the subscriber can always complete.
-/
namespace Rip.Join

/-! ### list arithmetic for `output` -/

theorem range_split (a b : Nat) (h : a ≤ b) : List.range b = List.range a ++ List.range' a (b - a) := by
  have e : b = a + (b - a) := by omega
  have := List.range'_append_1 (s := 0) (m := a) (n := b - a)
  rw [Nat.zero_add, ← e] at this
  rw [List.range_eq_range', List.range_eq_range', this]

theorem drop_range (k n : Nat) (h : k ≤ n) : (List.range n).drop k = List.range' k (n - k) := by
  rw [range_split k n h]
  rw [List.drop_left' (by simp)]

theorem filter_gt_range'_nil (k m c : Nat) (h : k + m ≤ c + 1) :
    (List.range' k m).filter (fun x => x > c) = [] := by
  rw [List.filter_eq_nil_iff]
  intro x hx
  simp [List.mem_range'_1] at hx
  simp; omega

theorem filter_gt_range'_self (k m c : Nat) (h : c < k) :
    (List.range' k m).filter (fun x => x > c) = List.range' k m := by
  rw [List.filter_eq_self]
  intro x hx
  simp [List.mem_range'_1] at hx
  simp; omega

/-- the join arithmetic: history `0..h-1`, live = published `0..n-1` minus the first `k`, `k ≤ h ≤ n` -/
theorem join_lists (n h k : Nat) (hk : k ≤ h) (hn : h ≤ n) :
    (match (List.range h).getLast? with
     | none => List.range h ++ (List.range n).drop k
     | some last => List.range h ++ ((List.range n).drop k).filter (fun x => x > last)) = List.range n := by
  cases h with
  | zero =>
    have : k = 0 := by omega
    subst this
    simp
  | succ h' =>
    have hl : (List.range (h' + 1)).getLast? = some h' := by
      rw [List.range_succ]; simp
    rw [hl]
    simp only
    rw [drop_range k n (by omega)]
    have e : List.range' k (n - k) = List.range' k (h' + 1 - k) ++ List.range' (h' + 1) (n - (h' + 1)) := by
      have e1 : n - k = (h' + 1 - k) + (n - (h' + 1)) := by omega
      have e2 : k + (h' + 1 - k) = h' + 1 := by omega
      have := List.range'_append_1 (s := k) (m := h' + 1 - k) (n := n - (h' + 1))
      rw [e2, ← e1] at this
      exact this.symm
    rw [e, List.filter_append, filter_gt_range'_nil _ _ _ (by omega), filter_gt_range'_self _ _ _ (by omega)]
    simp only [List.nil_append]
    exact (range_split (h' + 1) n hn).symm

/-! ### the invariant -/

/-- per-shape table: `A p` / `B p` = 1 iff at micro-position `p` the current frame has already been
published / recorded; `H p` = the lock is held at position `p`; `L` = program length -/
structure Tab where
  A : Nat → Nat
  B : Nat → Nat
  H : Nat → Bool
  L : Nat

def Inv (T : Tab) (n : Nat) (s : S) : Prop :=
  s.frame ≤ n ∧ s.pos < T.L ∧ (s.frame = n → s.pos = 0) ∧
  s.published = List.range (s.frame + T.A s.pos) ∧
  s.recorded = List.range (s.frame + T.B s.pos) ∧
  s.held = T.H s.pos ∧ s.spc ≤ 2 ∧
  (1 ≤ s.spc → s.subAt ≤ s.frame + T.A s.pos) ∧
  (s.spc = 2 → ∃ h, s.history = List.range h ∧ h ≤ s.frame + T.B s.pos ∧ s.subAt ≤ h)

/-- a table is join-safe when the snapshot can only see "recorded ⊇ published" -/
structure Tab.Safe (T : Tab) : Prop where
  a0 : T.A 0 = 0
  b0 : T.B 0 = 0
  h0 : T.H 0 = false
  l0 : 0 < T.L
  ab : ∀ p, p < T.L → T.H p = false → T.A p ≤ T.B p

theorem inv_init (T : Tab) (hT : T.Safe) (n : Nat) : Inv T n init := by
  simp [Inv, init, hT.a0, hT.b0, hT.h0, hT.l0]

theorem inv_sub (T : Tab) (hT : T.Safe) (prog : List Micro) (n : Nat) (s : S) (h : Inv T n s) :
    Inv T n (step prog n s .subscriber) := by
  obtain ⟨h1, h2, h3, h4, h5, h6, h7, h8, h9⟩ := h
  unfold step
  simp only
  split
  · next h0 =>
    refine ⟨h1, h2, h3, h4, h5, h6, by simp, ?_, ?_⟩
    · intro _; simp [h4]
    · intro h; simp at h
  · next h0 =>
    split
    · exact ⟨h1, h2, h3, h4, h5, h6, h7, h8, h9⟩
    · next hh =>
      refine ⟨h1, h2, h3, h4, h5, h6, by simp, ?_, ?_⟩
      · intro _; exact h8 (by omega)
      · intro _
        refine ⟨s.frame + T.B s.pos, h5, Nat.le_refl _, ?_⟩
        have hf : T.H s.pos = false := by rw [← h6]; simpa using hh
        have := hT.ab _ h2 hf
        have := h8 (by omega)
        simp only
        omega
  · exact ⟨h1, h2, h3, h4, h5, h6, h7, h8, h9⟩

def tabRP : Tab := ⟨fun _ => 0, fun p => if 1 ≤ p then 1 else 0, fun _ => false, 2⟩
def tabLPR : Tab := ⟨fun p => if 2 ≤ p then 1 else 0, fun p => if 3 ≤ p then 1 else 0, fun p => decide (1 ≤ p), 4⟩
def tabLRP : Tab := ⟨fun p => if 3 ≤ p then 1 else 0, fun p => if 2 ≤ p then 1 else 0, fun p => decide (1 ≤ p), 4⟩

theorem tabRP_safe : tabRP.Safe := by
  refine ⟨rfl, rfl, rfl, by decide, ?_⟩
  intro p _ _; simp [tabRP]

theorem tabLPR_safe : tabLPR.Safe := by
  refine ⟨rfl, rfl, rfl, by decide, ?_⟩
  intro p _ h
  simp [tabLPR] at h ⊢
  subst h; simp

theorem tabLRP_safe : tabLRP.Safe := by
  refine ⟨rfl, rfl, rfl, by decide, ?_⟩
  intro p _ h
  simp [tabLRP] at h ⊢
  subst h; simp

theorem inv_prod_rp (n : Nat) (s : S) (h : Inv tabRP n s) :
    Inv tabRP n (step recThenPub n s .producer) := by
  obtain ⟨f, p, hd, pb, rc, spc, sa, hist⟩ := s
  obtain ⟨h1, h2, h3, h4, h5, h6, h7, h8, h9⟩ := h
  simp only [tabRP] at *
  by_cases hf : f ≥ n
  · simp only [step, hf, if_true]
    exact ⟨h1, h2, h3, h4, h5, h6, h7, h8, h9⟩
  · have hlt : f < n := by omega
    have hp : p = 0 ∨ p = 1 := by omega
    subst h4 h5 h6
    rcases hp with rfl | rfl <;>
    · simp [step, hf, recThenPub, Inv, List.range_succ]
      simp at h8 h9
      and_intros
      all_goals first
        | omega
        | (intro h; have := h8 h; omega)
        | (intro h; obtain ⟨x, a, b, c⟩ := h9 h; exact ⟨x, a, by omega, c⟩)

theorem inv_prod_lpr (n : Nat) (s : S) (h : Inv tabLPR n s) :
    Inv tabLPR n (step lockedPubRec n s .producer) := by
  obtain ⟨f, p, hd, pb, rc, spc, sa, hist⟩ := s
  obtain ⟨h1, h2, h3, h4, h5, h6, h7, h8, h9⟩ := h
  simp only [tabLPR] at *
  by_cases hf : f ≥ n
  · simp only [step, hf, if_true]
    exact ⟨h1, h2, h3, h4, h5, h6, h7, h8, h9⟩
  · have hlt : f < n := by omega
    have hp : p = 0 ∨ p = 1 ∨ p = 2 ∨ p = 3 := by omega
    subst h4 h5 h6
    rcases hp with rfl | rfl | rfl | rfl <;>
    · simp [step, hf, lockedPubRec, Inv, List.range_succ]
      simp at h8 h9
      and_intros
      all_goals first
        | omega
        | (intro h; have := h8 h; omega)
        | (intro h; obtain ⟨x, a, b, c⟩ := h9 h; exact ⟨x, a, by omega, c⟩)

theorem inv_prod_lrp (n : Nat) (s : S) (h : Inv tabLRP n s) :
    Inv tabLRP n (step lockedRecPub n s .producer) := by
  obtain ⟨f, p, hd, pb, rc, spc, sa, hist⟩ := s
  obtain ⟨h1, h2, h3, h4, h5, h6, h7, h8, h9⟩ := h
  simp only [tabLRP] at *
  by_cases hf : f ≥ n
  · simp only [step, hf, if_true]
    exact ⟨h1, h2, h3, h4, h5, h6, h7, h8, h9⟩
  · have hlt : f < n := by omega
    have hp : p = 0 ∨ p = 1 ∨ p = 2 ∨ p = 3 := by omega
    subst h4 h5 h6
    rcases hp with rfl | rfl | rfl | rfl <;>
    · simp [step, hf, lockedRecPub, Inv, List.range_succ]
      simp at h8 h9
      and_intros
      all_goals first
        | omega
        | (intro h; have := h8 h; omega)
        | (intro h; obtain ⟨x, a, b, c⟩ := h9 h; exact ⟨x, a, by omega, c⟩)

/-- a program together with a join-safe table whose invariant every step preserves -/
def Tracks (prog : List Micro) (T : Tab) : Prop :=
  T.Safe ∧ T.L = prog.length ∧ ∀ n s, Inv T n s → Inv T n (step prog n s .producer)

theorem tracks_rp : Tracks recThenPub tabRP := ⟨tabRP_safe, rfl, inv_prod_rp⟩
theorem tracks_lpr : Tracks lockedPubRec tabLPR := ⟨tabLPR_safe, rfl, inv_prod_lpr⟩
theorem tracks_lrp : Tracks lockedRecPub tabLRP := ⟨tabLRP_safe, rfl, inv_prod_lrp⟩

theorem safe_tracks (prog : List Micro) (hp : prog ∈ safeShapes) : ∃ T, Tracks prog T := by
  simp only [safeShapes, List.mem_cons, List.not_mem_nil, or_false] at hp
  rcases hp with rfl | rfl | rfl
  · exact ⟨_, tracks_rp⟩
  · exact ⟨_, tracks_lpr⟩
  · exact ⟨_, tracks_lrp⟩

theorem inv_step {prog : List Micro} {T : Tab} (hT : Tracks prog T) (n : Nat) (s : S) (w : Who)
    (h : Inv T n s) : Inv T n (step prog n s w) := by
  cases w with
  | producer => exact hT.2.2 n s h
  | subscriber => exact inv_sub T hT.1 prog n s h

theorem inv_foldl {prog : List Micro} {T : Tab} (hT : Tracks prog T) (n : Nat) (sched : List Who) (s : S)
    (h : Inv T n s) : Inv T n (sched.foldl (step prog n) s) := by
  induction sched generalizing s with
  | nil => exact h
  | cons w ws ih => exact ih _ (inv_step hT n s w h)

theorem inv_run {prog : List Micro} {T : Tab} (hT : Tracks prog T) (n : Nat) (sched : List Who) :
    Inv T n (run prog n sched) :=
  inv_foldl hT n sched init (inv_init T hT.1 n)

/-- a complete state satisfying the invariant delivers exactly `0..n-1` -/
theorem inv_complete_output {T : Tab} (hT : T.Safe) (n : Nat) (s : S) (h : Inv T n s)
    (hc : complete n s = true) : output s = List.range n := by
  obtain ⟨h1, h2, h3, h4, h5, h6, h7, h8, h9⟩ := h
  simp [complete] at hc
  obtain ⟨hf, hs⟩ := hc
  have hfn : s.frame = n := by omega
  have hp := h3 hfn
  obtain ⟨h, hh, hle, hsub⟩ := h9 hs
  rw [hp, hT.b0] at hle
  rw [hp, hT.a0, hfn] at h4
  unfold output
  rw [hh, h4]
  exact join_lists n h s.subAt hsub (by omega)

/-- For each join-safe emit order, for every number of frames and EVERY interleaving of producer and
subscriber steps (every attach moment relative to every emission): once the producer has emitted
all n frames and the subscriber has taken its snapshot, the subscriber delivers every frame exactly
once, in order: 0, 1, …, n-1. -/
theorem join_exact (prog : List Micro) (hp : prog ∈ safeShapes) (n : Nat) (sched : List Who)
    (hc : complete n (run prog n sched) = true) :
    output (run prog n sched) = List.range n := by
  obtain ⟨T, hT⟩ := safe_tracks prog hp
  exact inv_complete_output hT.1 n _ (inv_run hT n sched) hc

/-! ### the producer does not depend on the subscriber -/

/-- the producer's part of the state -/
def prodView (s : S) : Nat × Nat × Bool × List Nat × List Nat :=
  (s.frame, s.pos, s.held, s.published, s.recorded)

theorem prodView_sub (prog : List Micro) (n : Nat) (s : S) :
    prodView (step prog n s .subscriber) = prodView s := by
  unfold step
  simp only
  split
  · rfl
  · split <;> rfl
  · rfl

theorem prodView_prod (prog : List Micro) (n : Nat) (s t : S) (h : prodView s = prodView t) :
    prodView (step prog n s .producer) = prodView (step prog n t .producer) := by
  obtain ⟨f, p, hd, pb, rc, spc, sa, hist⟩ := s
  obtain ⟨f', p', hd', pb', rc', spc', sa', hist'⟩ := t
  simp only [prodView, Prod.mk.injEq] at h
  obtain ⟨rfl, rfl, rfl, rfl, rfl⟩ := h
  simp only [step]
  split
  · rfl
  · split
    · rfl
    · next m _ =>
      cases m <;> simp only <;> split <;> rfl

theorem prodView_foldl (prog : List Micro) (n : Nat) (sched : List Who) (s t : S)
    (h : prodView s = prodView t) :
    prodView (sched.foldl (step prog n) s) =
      prodView ((sched.filter (· == .producer)).foldl (step prog n) t) := by
  induction sched generalizing s t with
  | nil => exact h
  | cons w ws ih =>
    cases w with
    | producer =>
      have : (Who.producer == Who.producer) = true := by decide
      simp only [List.filter_cons, this, if_true, List.foldl_cons]
      exact ih _ _ (prodView_prod prog n s t h)
    | subscriber =>
      have : (Who.subscriber == Who.producer) = false := by decide
      simp only [List.filter_cons, this, List.foldl_cons]
      exact ih _ _ ((prodView_sub prog n s).trans h)

/-- the producer's progress does not depend on the subscriber: removing the subscriber's steps from
a schedule leaves published/recorded/frame/pos/held unchanged (so many concurrent subscribers, each
a separate copy of the subscriber actor, see the same producer) -/
theorem producer_independent (prog : List Micro) (n : Nat) (sched : List Who) :
    let a := run prog n sched
    let b := run prog n (sched.filter (· == .producer))
    a.frame = b.frame ∧ a.pos = b.pos ∧ a.held = b.held ∧ a.published = b.published ∧ a.recorded = b.recorded := by
  intro a b
  have h := prodView_foldl prog n sched init init rfl
  simp only [prodView, Prod.mk.injEq] at h
  exact h

/-! ### the subscriber can always complete -/

/-- one producer step of an unfinished producer advances the measure `frame * L + pos` by one -/
theorem prod_measure (prog : List Micro) (n : Nat) (s : S) (hL : s.pos < prog.length) (hf : s.frame < n) :
    (step prog n s .producer).pos < prog.length ∧
    (step prog n s .producer).frame * prog.length + (step prog n s .producer).pos
      = s.frame * prog.length + s.pos + 1 := by
  obtain ⟨f, p, hd, pb, rc, spc, sa, hist⟩ := s
  simp only at hL hf
  have hnf : ¬ f ≥ n := by omega
  simp only [step, hnf, if_false, List.getElem?_eq_getElem hL]
  generalize prog[p] = m
  cases m <;> simp only <;> split <;> simp only [Nat.succ_mul] <;> omega

theorem prod_iter (prog : List Micro) (n k : Nat) (s : S) (hL : s.pos < prog.length) :
    ((List.replicate k Who.producer).foldl (step prog n) s).frame ≥ n ∨
    (((List.replicate k Who.producer).foldl (step prog n) s).pos < prog.length ∧
     ((List.replicate k Who.producer).foldl (step prog n) s).frame * prog.length
        + ((List.replicate k Who.producer).foldl (step prog n) s).pos
      = s.frame * prog.length + s.pos + k) := by
  induction k with
  | zero => right; exact ⟨hL, rfl⟩
  | succ k ih =>
    rw [List.replicate_succ', List.foldl_append]
    generalize (List.replicate k Who.producer).foldl (step prog n) s = t at ih ⊢
    simp only [List.foldl_cons, List.foldl_nil]
    by_cases hge : t.frame ≥ n
    · left
      have : step prog n t .producer = t := by simp [step, hge]
      rw [this]; exact hge
    · rcases ih with h | ⟨h1, h2⟩
      · exact absurd h hge
      · right
        have := prod_measure prog n t h1 (by omega)
        refine ⟨this.1, ?_⟩
        rw [this.2, h2]; omega

/-- `n * L` producer steps finish the producer from any state -/
theorem prod_finishes (prog : List Micro) (n : Nat) (s : S) (hL : s.pos < prog.length) :
    ((List.replicate (n * prog.length) Who.producer).foldl (step prog n) s).frame ≥ n := by
  rcases prod_iter prog n (n * prog.length) s hL with h | ⟨h1, h2⟩
  · exact h
  · generalize (List.replicate (n * prog.length) Who.producer).foldl (step prog n) s = t at h1 h2 ⊢
    apply Classical.byContradiction
    intro hlt
    have h3 : (t.frame + 1) * prog.length ≤ n * prog.length := Nat.mul_le_mul_right _ (by omega)
    rw [Nat.succ_mul] at h3
    omega

/-- once the producer is done, two subscriber steps complete the subscriber -/
theorem sub_finishes {T : Tab} (hT : T.Safe) (prog : List Micro) (n : Nat) (s : S) (h : Inv T n s)
    (hf : s.frame ≥ n) :
    complete n (step prog n (step prog n s .subscriber) .subscriber) = true := by
  obtain ⟨h1, h2, h3, h4, h5, h6, h7, h8, h9⟩ := h
  have hp := h3 (by omega)
  rw [hp, hT.h0] at h6
  obtain ⟨f, p, hd, pb, rc, spc, sa, hist⟩ := s
  simp only at h6 h7 hf
  subst h6
  have hs : spc = 0 ∨ spc = 1 ∨ spc = 2 := by omega
  rcases hs with rfl | rfl | rfl <;> simp [step, complete, hf]

/-- the subscriber always terminates when scheduled after the producer is done (snapshot is not
blocked forever) — strong form: EVERY schedule prefix can be extended to a complete one (let the
producer finish, then schedule the subscriber twice) -/
theorem can_complete_from (prog : List Micro) (hp : prog ∈ safeShapes) (n : Nat) (sched : List Who) :
    complete n (run prog n
      (sched ++ (List.replicate (n * prog.length) Who.producer ++ [.subscriber, .subscriber]))) = true := by
  obtain ⟨T, hT⟩ := safe_tracks prog hp
  have hi := inv_run hT n sched
  unfold run at hi ⊢
  rw [List.foldl_append, List.foldl_append]
  generalize sched.foldl (step prog n) init = s0 at hi ⊢
  have hL : s0.pos < prog.length := by rw [← hT.2.1]; exact hi.2.1
  have hfin := prod_finishes prog n s0 hL
  have hi1 := inv_foldl hT n (List.replicate (n * prog.length) Who.producer) s0 hi
  generalize (List.replicate (n * prog.length) Who.producer).foldl (step prog n) s0 = s1 at hfin hi1 ⊢
  simp only [List.foldl_cons, List.foldl_nil]
  exact sub_finishes hT.1 prog n s1 hi1 hfin

/-- the subscriber always terminates when scheduled after the producer is done (snapshot is not
blocked forever): -/
theorem can_complete (prog : List Micro) (hp : prog ∈ safeShapes) (n : Nat) :
    ∃ sched, complete n (run prog n sched) = true :=
  ⟨_, can_complete_from prog hp n []⟩

/-- the hypothesis `prog ∈ safeShapes` of `join_exact` is needed: the publish-then-locked-record order
is not in `safeShapes`, and a complete run of it delivers nothing instead of `[0]` -/
example : pubThenLockedRec ∉ safeShapes ∧
    complete 1 (run pubThenLockedRec 1
      [.producer, .subscriber, .subscriber, .producer, .producer, .producer]) = true ∧
    output (run pubThenLockedRec 1
      [.producer, .subscriber, .subscriber, .producer, .producer, .producer]) ≠ List.range 1 := by
  decide

end Rip.Join
