/-
C11 theorems about the workspace-lock LTS of `Rip.Model.WsLTS`, for the repaired system
(`kill = true`): under every schedule at most one workspace mutation is in progress, the running
effect belongs to the permit holder, the side-effects frames are a duplicate-free prefix of the
order in which the mutations began (equal once everybody is done), a frame is only written after
its effect ended, and from every reachable state some schedule completes all programs.
-/
import Rip.Model.WsLTS

namespace Rip.WsLTS

set_option linter.unusedSimpArgs false
set_option linter.unusedVariables false

/-! ### generic helpers -/

theorem run_append (kill : Bool) (progs : List (List Op)) (s₁ s₂ : List Act) :
    run kill progs (s₁ ++ s₂) = s₂.foldl (act kill) (run kill progs s₁) := by
  simp [run, List.foldl_append]

/-- a step-preserved predicate holds along every schedule -/
theorem foldl_inv {P : S → Prop} (kill : Bool) (hstep : ∀ s x, P s → P (act kill s x)) :
    ∀ (sched : List Act) (s : S), P s → P (sched.foldl (act kill) s)
  | [], _, h => h
  | x :: rest, s, h => foldl_inv kill hstep rest (act kill s x) (hstep s x h)

theorem get_lt {as : List A} {i : Nat} {a : A} (h : as[i]? = some a) : i < as.length := by
  have := List.getElem?_eq_some_iff.mp h
  exact this.1

theorem get_set_self {as : List A} {i : Nat} {a : A} (a' : A) (h : as[i]? = some a) :
    (as.set i a')[i]? = some a' := by
  simp [List.getElem?_set, get_lt h]

theorem get_set_ne {as : List A} {i j : Nat} (a' : A) (h : i ≠ j) :
    (as.set i a')[j]? = as[j]? := List.getElem?_set_ne h

/-! ### what a program counter means -/

/-- the actor holds the permit: it is past the acquire of a mutating op -/
def inCrit (a : A) : Bool :=
  match a.prog with
  | .mutate _ _ :: _ => decide (1 ≤ a.pc)
  | _ => false

/-- the mutation of a linked run has begun and its side-effects frame is not yet written -/
def midLinked (a : A) : Bool :=
  match a.prog with
  | .mutate _ true :: _ => decide (2 ≤ a.pc ∧ a.pc ≤ 4)
  | _ => false

/-- the effect that is in progress according to the program counters -/
def runOf (h : Option Nat) (as : List A) : List (Nat × Nat) :=
  match h with
  | none => []
  | some i =>
    match as[i]? with
    | none => []
    | some a => if a.pc = 2 then [(i, a.opNo)] else []

/-- the linked mutation that began and whose side-effects frame is still to come -/
def pendOf (h : Option Nat) (as : List A) : List (Nat × Nat) :=
  match h with
  | none => []
  | some i =>
    match as[i]? with
    | none => []
    | some a => if midLinked a then [(i, a.opNo)] else []

theorem runOf_self {as : List A} {i : Nat} {a : A} (a' : A) (h : as[i]? = some a) :
    runOf (some i) (as.set i a') = if a'.pc = 2 then [(i, a'.opNo)] else [] := by
  simp [runOf, get_set_self a' h]

theorem pendOf_self {as : List A} {i : Nat} {a : A} (a' : A) (h : as[i]? = some a) :
    pendOf (some i) (as.set i a') = if midLinked a' then [(i, a'.opNo)] else [] := by
  simp [pendOf, get_set_self a' h]

theorem runOf_get {as : List A} {i : Nat} {a : A} (h : as[i]? = some a) :
    runOf (some i) as = if a.pc = 2 then [(i, a.opNo)] else [] := by
  simp [runOf, h]

theorem pendOf_get {as : List A} {i : Nat} {a : A} (h : as[i]? = some a) :
    pendOf (some i) as = if midLinked a then [(i, a.opNo)] else [] := by
  simp [pendOf, h]

theorem runOf_other {as : List A} {i : Nat} (a' : A) (h : Option Nat) (hne : h ≠ some i) :
    runOf h (as.set i a') = runOf h as := by
  cases h with
  | none => rfl
  | some j =>
    have : i ≠ j := fun e => hne (by rw [e])
    simp [runOf, get_set_ne a' this]

theorem pendOf_other {as : List A} {i : Nat} (a' : A) (h : Option Nat) (hne : h ≠ some i) :
    pendOf h (as.set i a') = pendOf h as := by
  cases h with
  | none => rfl
  | some j =>
    have : i ≠ j := fun e => hne (by rw [e])
    simp [pendOf, get_set_ne a' this]

/-! ### the invariant -/

structure Inv (s : S) : Prop where
  /-- whoever is inside a critical section holds the permit (hence at most one actor is) -/
  h1 : ∀ i a, s.as[i]? = some a → inCrit a = true → s.holder = some i
  /-- the permit is held only by an actor inside its critical section -/
  h2 : ∀ i, s.holder = some i → ∃ a, s.as[i]? = some a ∧ inCrit a = true
  /-- exactly the holder's effect is in progress, exactly between its begin and its end -/
  rn : s.running = runOf s.holder s.as
  mx : s.maxRunning ≤ 1
  /-- the mutation order is the frame order plus the one mutation still awaiting its frame -/
  pd : s.mutOrder = s.sideFx ++ pendOf s.holder s.as
  /-- call numbers in the mutation order are in the actor's past, or its current began call -/
  mo : ∀ j k, (j, k) ∈ s.mutOrder →
    ∃ a, s.as[j]? = some a ∧ (k < a.opNo ∨ (k = a.opNo ∧ 2 ≤ a.pc))
  /-- a frame belongs to a past call, or to the current one whose frame step is done -/
  sf : ∀ j k, (j, k) ∈ s.sideFx →
    ∃ a, s.as[j]? = some a ∧ (k < a.opNo ∨ (k = a.opNo ∧ 5 ≤ a.pc ∧ inCrit a = true))
  nd : s.mutOrder.Nodup

theorem inv_init (progs : List (List Op)) : Inv (init progs) := by
  refine ⟨?_, ?_, ?_, ?_, ?_, ?_, ?_, ?_⟩ <;> simp [init, runOf, pendOf]
  intro i a h
  unfold inCrit
  split <;> simp_all

/-- an actor's own move: the call number grows, or the program counter grows within the call -/
def Mono (a a' : A) : Prop :=
  a.opNo < a'.opNo ∨ (a.opNo = a'.opNo ∧ a.pc ≤ a'.pc ∧ (inCrit a = true → inCrit a' = true))

theorem mo_keep {as : List A} {i : Nat} {a a' : A} (hi : as[i]? = some a) (hm : Mono a a')
    {j k : Nat} (h : ∃ b, as[j]? = some b ∧ (k < b.opNo ∨ (k = b.opNo ∧ 2 ≤ b.pc))) :
    ∃ b, (as.set i a')[j]? = some b ∧ (k < b.opNo ∨ (k = b.opNo ∧ 2 ≤ b.pc)) := by
  obtain ⟨b, hb, hk⟩ := h
  by_cases hij : i = j
  · subst hij
    rw [hi] at hb
    cases hb
    refine ⟨a', get_set_self a' hi, ?_⟩
    unfold Mono at hm
    omega
  · exact ⟨b, by rw [get_set_ne a' hij]; exact hb, hk⟩

theorem sf_keep {as : List A} {i : Nat} {a a' : A} (hi : as[i]? = some a) (hm : Mono a a')
    {j k : Nat}
    (h : ∃ b, as[j]? = some b ∧ (k < b.opNo ∨ (k = b.opNo ∧ 5 ≤ b.pc ∧ inCrit b = true))) :
    ∃ b, (as.set i a')[j]? = some b ∧ (k < b.opNo ∨ (k = b.opNo ∧ 5 ≤ b.pc ∧ inCrit b = true)) := by
  obtain ⟨b, hb, hk⟩ := h
  by_cases hij : i = j
  · subst hij
    rw [hi] at hb
    cases hb
    refine ⟨a', get_set_self a' hi, ?_⟩
    unfold Mono at hm
    rcases hm with hm | ⟨h1, h2, h3⟩
    · omega
    · rcases hk with hk | ⟨hk1, hk2, hk3⟩
      · omega
      · exact Or.inr ⟨by omega, by omega, h3 hk3⟩
  · exact ⟨b, by rw [get_set_ne a' hij]; exact hb, hk⟩

/-- a move of an actor that is outside its critical section before and after -/
theorem inv_noncrit {s : S} (hI : Inv s) {i : Nat} {a : A} (hi : s.as[i]? = some a) (a' : A)
    (r : Nat) (hc : inCrit a = false) (hc' : inCrit a' = false) (hm : Mono a a') :
    Inv (setA { s with readers := r } i a') := by
  have hne : s.holder ≠ some i := by
    intro h
    obtain ⟨b, hb, hbc⟩ := hI.h2 i h
    rw [hi] at hb; cases hb; simp [hc] at hbc
  refine ⟨?_, ?_, ?_, ?_, ?_, ?_, ?_, ?_⟩ <;> simp only [setA]
  · intro j b hj hb
    by_cases hij : i = j
    · subst hij; rw [get_set_self a' hi] at hj; cases hj; simp [hc'] at hb
    · rw [get_set_ne a' hij] at hj; exact hI.h1 j b hj hb
  · intro j hj
    have hij : i ≠ j := fun e => hne (by rw [e]; exact hj)
    rw [get_set_ne a' hij]; exact hI.h2 j hj
  · rw [runOf_other a' _ hne]; exact hI.rn
  · exact hI.mx
  · rw [pendOf_other a' _ hne]; exact hI.pd
  · intro j k hjk; exact mo_keep hi hm (hI.mo j k hjk)
  · intro j k hjk; exact sf_keep hi hm (hI.sf j k hjk)
  · exact hI.nd

/-- a move of the actor that holds the permit, or that takes the free permit -/
theorem inv_crit {s : S} (hI : Inv s) {i : Nat} {a : A} (hi : s.as[i]? = some a) (a' : A)
    (hh : s.holder = none ∨ s.holder = some i) (hm : Mono a a')
    (h' : Option Nat) (r' : List (Nat × Nat)) (rd' : Nat) (m' f' : List (Nat × Nat)) (x' : Nat)
    (Hh : h' = if inCrit a' = true then some i else none)
    (Hr : r' = runOf h' (s.as.set i a'))
    (Hx : x' ≤ 1)
    (Hp : m' = f' ++ pendOf h' (s.as.set i a'))
    (Hm : ∀ p ∈ m', p ∈ s.mutOrder ∨ (p = (i, a'.opNo) ∧ 2 ≤ a'.pc))
    (Hf : ∀ p ∈ f', p ∈ s.sideFx ∨ (p = (i, a'.opNo) ∧ 5 ≤ a'.pc ∧ inCrit a' = true))
    (Hn : m'.Nodup) :
    Inv { holder := h', running := r', readers := rd', mutOrder := m', sideFx := f',
          maxRunning := x', as := s.as.set i a' } := by
  refine ⟨?_, ?_, Hr, Hx, Hp, ?_, ?_, Hn⟩
  · intro j b hj hb
    show h' = some j
    by_cases hij : i = j
    · subst hij
      rw [get_set_self a' hi] at hj; cases hj
      simp [Hh, hb]
    · have hj' : s.as[j]? = some b := by rw [← get_set_ne a' hij]; exact hj
      have := hI.h1 j b hj' hb
      rcases hh with hh | hh <;> rw [hh] at this <;> simp at this
      exact absurd this hij
  · intro j hj
    have hj : h' = some j := hj
    rw [Hh] at hj
    by_cases hc : inCrit a' = true
    · simp [hc] at hj
      subst hj
      exact ⟨a', get_set_self a' hi, hc⟩
    · simp [hc] at hj
  · intro j k hjk
    rcases Hm _ hjk with h | ⟨h1, h2⟩
    · exact mo_keep hi hm (hI.mo j k h)
    · cases h1
      exact ⟨a', get_set_self a' hi, Or.inr ⟨rfl, h2⟩⟩
  · intro j k hjk
    rcases Hf _ hjk with h | ⟨h1, h2⟩
    · exact sf_keep hi hm (hI.sf j k h)
    · cases h1
      exact ⟨a', get_set_self a' hi, Or.inr ⟨rfl, h2⟩⟩

@[simp] theorem inCrit_mut (c l : Bool) (rest : List Op) (pc opNo : Nat) :
    inCrit ⟨.mutate c l :: rest, pc, opNo⟩ = decide (1 ≤ pc) := rfl

@[simp] theorem midLinked_mut (c l : Bool) (rest : List Op) (pc opNo : Nat) :
    midLinked ⟨.mutate c l :: rest, pc, opNo⟩ = (l && decide (2 ≤ pc ∧ pc ≤ 4)) := by
  cases l <;> simp [midLinked]

@[simp] theorem inCrit_ro (rest : List Op) (pc opNo : Nat) :
    inCrit ⟨.readOnly :: rest, pc, opNo⟩ = false := rfl

@[simp] theorem inCrit_zero (prog : List Op) (opNo : Nat) : inCrit ⟨prog, 0, opNo⟩ = false := by
  unfold inCrit; split <;> simp

theorem nodup_snoc {α} {l : List α} {x : α} (h : l.Nodup) (hx : x ∉ l) : (l ++ [x]).Nodup := by
  rw [List.nodup_append]
  refine ⟨h, by simp, ?_⟩
  intro a ha b hb
  simp at hb
  subst hb
  intro e; subst e; exact hx ha

theorem Inv.run_of {s : S} (hI : Inv s) {i : Nat} {a : A} (hi : s.as[i]? = some a)
    (hh : s.holder = some i) :
    s.running = if a.pc = 2 then [(i, a.opNo)] else [] := by
  have := hI.rn
  rw [hh, runOf_get hi] at this
  exact this

theorem Inv.pend_of {s : S} (hI : Inv s) {i : Nat} {a : A} (hi : s.as[i]? = some a)
    (hh : s.holder = some i) :
    s.mutOrder = s.sideFx ++ if midLinked a = true then [(i, a.opNo)] else [] := by
  have := hI.pd
  rw [hh, pendOf_get hi] at this
  exact this

theorem Inv.new_call {s : S} (hI : Inv s) {i : Nat} {a : A} (hi : s.as[i]? = some a)
    (hpc : a.pc < 2) : (i, a.opNo) ∉ s.mutOrder := by
  intro h
  obtain ⟨b, hb, hk⟩ := hI.mo _ _ h
  rw [hi] at hb; cases hb
  omega

theorem inv_stepA {s : S} (hI : Inv s) {i : Nat} {prog : List Op} {pc opNo : Nat}
    (hi : s.as[i]? = some ⟨prog, pc, opNo⟩) : Inv (stepA s i ⟨prog, pc, opNo⟩) := by
  cases prog with
  | nil => exact hI
  | cons op rest =>
    cases op with
    | readOnly =>
      cases pc with
      | zero =>
        exact inv_noncrit hI hi _ _ (by simp) (by simp) (Or.inr ⟨rfl, by simp, by simp⟩)
      | succ n =>
        exact inv_noncrit hI hi _ _ (by simp) (by simp) (Or.inl (by simp))
    | mutate c l =>
      match pc with
      | 0 =>
        simp only [stepA]
        split
        · rename_i hh
          have hr : s.running = [] := by have := hI.rn; simpa [hh, runOf] using this
          have hp : s.mutOrder = s.sideFx := by have := hI.pd; simpa [hh, pendOf] using this
          refine inv_crit hI hi _ (Or.inl hh) ?_ _ _ _ _ _ _ ?_ ?_ ?_ ?_ ?_ ?_ ?_
          · exact Or.inr ⟨rfl, by simp, by simp⟩
          · simp
          · simp [hr, runOf_self _ hi]
          · exact hI.mx
          · simp [pendOf_self _ hi, hp]
          · intro p hp; exact Or.inl hp
          · intro p hp; exact Or.inl hp
          · exact hI.nd
        · exact hI
      | 1 =>
        have hh : s.holder = some i := hI.h1 i _ hi (by simp)
        have hr := hI.run_of hi hh
        have hp := hI.pend_of hi hh
        have hnew := hI.new_call hi (by simp)
        simp at hr hp hnew
        simp only [stepA]
        refine inv_crit hI hi _ (Or.inr hh) ?_ _ _ _ _ _ _ ?_ ?_ ?_ ?_ ?_ ?_ ?_
        · exact Or.inr ⟨rfl, by simp, by simp⟩
        · simp [setA, hh]
        · simp [setA, hh, hr, runOf_self _ hi]
        · have := hI.mx
          simp [setA, hr]; omega
        · cases l <;> simp [setA, hh, pendOf_self _ hi, hp]
        · intro p hp
          cases l <;> simp [setA] at hp ⊢
          · exact Or.inl hp
          · exact hp
        · intro p hp; exact Or.inl hp
        · have := hI.nd
          cases l <;> simp [setA]
          · exact this
          · exact nodup_snoc this hnew
      | 2 =>
        have hh : s.holder = some i := hI.h1 i _ hi (by simp)
        have hr := hI.run_of hi hh
        have hp := hI.pend_of hi hh
        simp at hr hp
        simp only [stepA]
        refine inv_crit hI hi _ (Or.inr hh) ?_ _ _ _ _ _ _ ?_ ?_ ?_ ?_ ?_ ?_ ?_
        · exact Or.inr ⟨rfl, by simp, by simp⟩
        · simp [hh]
        · simp [hh, hr, runOf_self _ hi]
        · exact hI.mx
        · simpa [hh, pendOf_self _ hi] using hp
        · intro p hp; exact Or.inl hp
        · intro p hp; exact Or.inl hp
        · exact hI.nd
      | 3 =>
        have hh : s.holder = some i := hI.h1 i _ hi (by simp)
        have hr := hI.run_of hi hh
        have hp := hI.pend_of hi hh
        simp at hr hp
        simp only [stepA]
        refine inv_crit hI hi _ (Or.inr hh) ?_ _ _ _ _ _ _ ?_ ?_ ?_ ?_ ?_ ?_ ?_
        · exact Or.inr ⟨rfl, by simp, by simp⟩
        · simp [hh]
        · simp [hh, hr, runOf_self _ hi]
        · exact hI.mx
        · simpa [hh, pendOf_self _ hi] using hp
        · intro p hp; exact Or.inl hp
        · intro p hp; exact Or.inl hp
        · exact hI.nd
      | 4 =>
        have hh : s.holder = some i := hI.h1 i _ hi (by simp)
        have hr := hI.run_of hi hh
        have hp := hI.pend_of hi hh
        simp at hr hp
        simp only [stepA]
        refine inv_crit hI hi _ (Or.inr hh) ?_ _ _ _ _ _ _ ?_ ?_ ?_ ?_ ?_ ?_ ?_
        · exact Or.inr ⟨rfl, by simp, by simp⟩
        · simp [hh]
        · simp [hh, hr, runOf_self _ hi]
        · exact hI.mx
        · cases l <;> simpa [hh, pendOf_self _ hi] using hp
        · intro p hp; exact Or.inl hp
        · intro p hp
          cases l <;> simp at hp ⊢
          · exact Or.inl hp
          · exact hp
        · exact hI.nd
      | n + 5 =>
        have hh : s.holder = some i := hI.h1 i _ hi (by simp)
        have hr := hI.run_of hi hh
        have hp := hI.pend_of hi hh
        simp at hr hp
        simp only [stepA]
        refine inv_crit hI hi _ (Or.inr hh) ?_ _ _ _ _ _ _ ?_ ?_ ?_ ?_ ?_ ?_ ?_
        · exact Or.inl (by simp)
        · simp
        · simp [hr, runOf]
        · exact hI.mx
        · simpa [pendOf] using hp
        · intro p hp; exact Or.inl hp
        · intro p hp; exact Or.inl hp
        · exact hI.nd

theorem runOf_cases (h : Option Nat) (as : List A) :
    runOf h as = [] ∨ ∃ p, runOf h as = [p] := by
  unfold runOf
  split
  · exact Or.inl rfl
  · split
    · exact Or.inl rfl
    · split
      · exact Or.inr ⟨_, rfl⟩
      · exact Or.inl rfl

theorem runOf_mem {h : Option Nat} {as : List A} {p : Nat × Nat} (hp : p ∈ runOf h as) :
    ∃ a, h = some p.1 ∧ as[p.1]? = some a ∧ a.pc = 2 ∧ a.opNo = p.2 := by
  unfold runOf at hp
  split at hp
  · simp at hp
  · rename_i i
    split at hp
    · simp at hp
    · rename_i a ha
      split at hp
      · simp at hp
        subst hp
        exact ⟨a, rfl, ha, by assumption, rfl⟩
      · simp at hp

theorem Inv.running_mem {s : S} (hI : Inv s) {p : Nat × Nat} (hp : p ∈ s.running) :
    ∃ a, s.holder = some p.1 ∧ s.as[p.1]? = some a ∧ a.pc = 2 ∧ a.opNo = p.2 := by
  rw [hI.rn] at hp; exact runOf_mem hp

/-- a command whose runner has moved on is not in `running` any more (it was killed) -/
theorem inv_zombie {s : S} (hI : Inv s) (i k : Nat) : Inv (act true s (.zombieEnd i k)) := by
  have key : (∀ a, s.as[i]? = some a → ¬(a.opNo = k ∧ a.pc = 2)) →
      Inv { s with running := s.running.filter (· != (i, k)) } := by
    intro hno
    have hnot : (i, k) ∉ s.running := by
      intro hm
      obtain ⟨a, _, ha, hpc, hk⟩ := hI.running_mem hm
      exact hno a ha ⟨hk, hpc⟩
    have hf : s.running.filter (· != (i, k)) = s.running := by
      rw [List.filter_eq_self]
      intro p hp
      have : p ≠ (i, k) := fun e => hnot (e ▸ hp)
      simpa using this
    refine ⟨hI.h1, hI.h2, ?_, hI.mx, hI.pd, hI.mo, hI.sf, hI.nd⟩
    show s.running.filter (· != (i, k)) = runOf s.holder s.as
    rw [hf]; exact hI.rn
  simp only [act]
  split
  · rename_i a ha
    split
    · exact hI
    · rename_i hn
      exact key (fun b hb => by rw [ha] at hb; cases hb; exact hn)
  · rename_i ha
    exact key (fun b hb => by rw [ha] at hb; cases hb)

theorem inv_act (s : S) (x : Act) (hI : Inv s) : Inv (act true s x) := by
  cases x with
  | step i =>
    simp only [act]
    split
    · rename_i a hi
      obtain ⟨prog, pc, opNo⟩ := a
      exact inv_stepA hI hi
    · exact hI
  | timeout i =>
    simp only [act]
    split
    · rename_i a hi
      obtain ⟨prog, pc, opNo⟩ := a
      split
      · rename_i l rest hp
        simp only at hp
        subst hp
        split
        · rename_i hpc
          simp only at hpc
          subst hpc
          exact inv_stepA hI hi
        · exact hI
      · exact hI
    · exact hI
  | zombieEnd i k => exact inv_zombie hI i k

theorem inv_run (progs : List (List Op)) (sched : List Act) : Inv (run true progs sched) :=
  foldl_inv true inv_act sched _ (inv_init progs)

/-! ### the theorems about every schedule -/

/-- regression for the guard on `zombieEnd`: it cannot erase the entry of a live effect -/
example :
    (run true [[.mutate false false]] [.step 0, .step 0, .zombieEnd 0 0]).running = [(0, 0)] := by
  decide

theorem Inv.running_le {s : S} (hI : Inv s) : s.running.length ≤ 1 := by
  have h := hI.rn
  rcases runOf_cases s.holder s.as with h0 | ⟨p, hp⟩
  · simp [h, h0]
  · simp [h, hp]

/-- no two workspace-mutating executions are ever in progress at the same time — any number of
actors, any programs, EVERY interleaving, timeouts firing at any moment -/
theorem mutex (progs : List (List Op)) (sched : List Act) :
    (run true progs sched).running.length ≤ 1 ∧ (run true progs sched).maxRunning ≤ 1 :=
  ⟨(inv_run progs sched).running_le, (inv_run progs sched).mx⟩

/-- with the repair the `running` list is exact: it is the holder's call when the holder is between
the begin and the end of its effect, and empty otherwise -/
theorem running_exact (progs : List (List Op)) (sched : List Act) :
    (run true progs sched).running =
      runOf (run true progs sched).holder (run true progs sched).as :=
  (inv_run progs sched).rn

/-- an effect in progress is always accounted for in `running` -/
theorem effect_visible (progs : List (List Op)) (sched : List Act) (i : Nat) (a : A) (c l : Bool)
    (rest : List Op) :
    (run true progs sched).as[i]? = some a → a.prog = .mutate c l :: rest → a.pc = 2 →
    (i, a.opNo) ∈ (run true progs sched).running := by
  intro hi hp hpc
  have hc : inCrit a = true := by simp [inCrit, hp, hpc]
  have hh := (inv_run progs sched).h1 i a hi hc
  rw [running_exact, hh, runOf_get hi]
  simp [hpc]

/-- whoever's effect is running holds the permit -/
theorem running_is_holder (progs : List (List Op)) (sched : List Act) (i k : Nat)
    (h : (i, k) ∈ (run true progs sched).running) : (run true progs sched).holder = some i := by
  obtain ⟨a, hh, _⟩ := (inv_run progs sched).running_mem h
  exact hh

/-- the side-effects frames appear in exactly the order in which the mutations really began: the
frame list is a prefix of the mutation order (equal once everybody has finished) -/
theorem order_agrees_prefix (progs : List (List Op)) (sched : List Act) :
    (run true progs sched).sideFx <+: (run true progs sched).mutOrder := by
  rw [(inv_run progs sched).pd]
  exact List.prefix_append _ _

theorem allDone_get {s : S} (hd : allDone s = true) {i : Nat} {a : A} (hi : s.as[i]? = some a) :
    a.prog = [] := by
  unfold allDone at hd
  rw [List.all_eq_true] at hd
  have := hd a (List.mem_of_getElem? hi)
  simpa using this

theorem pendOf_allDone {s : S} (hd : allDone s = true) : pendOf s.holder s.as = [] := by
  unfold pendOf
  split
  · rfl
  · split
    · rfl
    · rename_i a ha
      have := allDone_get hd ha
      simp [midLinked, this]

theorem order_agrees (progs : List (List Op)) (sched : List Act)
    (hd : allDone (run true progs sched) = true) :
    (run true progs sched).sideFx = (run true progs sched).mutOrder := by
  rw [(inv_run progs sched).pd, pendOf_allDone hd]
  simp

/-- exactly one side-effects frame per mutating call of an attached run, none otherwise: no call
appears twice -/
theorem one_frame_per_call (progs : List (List Op)) (sched : List Act) :
    (run true progs sched).sideFx.Nodup ∧ (run true progs sched).mutOrder.Nodup := by
  have hn := (inv_run progs sched).nd
  refine ⟨?_, hn⟩
  rw [(inv_run progs sched).pd, List.nodup_append] at hn
  exact hn.1

/-- the side-effects frame is written after the effect ended and before the permit is released:
whenever call (i,k) has its frame in `sideFx`, it is not running any more -/
theorem frame_after_effect (progs : List (List Op)) (sched : List Act) (i k : Nat)
    (h : (i, k) ∈ (run true progs sched).sideFx) : (i, k) ∉ (run true progs sched).running := by
  intro hr
  obtain ⟨a, _, ha, hpc, hk⟩ := (inv_run progs sched).running_mem hr
  obtain ⟨b, hb, hkb⟩ := (inv_run progs sched).sf i k h
  simp only at ha hk
  rw [ha] at hb; cases hb
  omega

/-- … and while actor `i` is still in call `k` (it has not released yet) it holds the permit -/
theorem frame_before_release (progs : List (List Op)) (sched : List Act) (i k : Nat) (a : A)
    (h : (i, k) ∈ (run true progs sched).sideFx) (ha : (run true progs sched).as[i]? = some a)
    (hk : a.opNo = k) : (run true progs sched).holder = some i ∧ 5 ≤ a.pc := by
  obtain ⟨b, hb, hkb⟩ := (inv_run progs sched).sf i k h
  rw [ha] at hb; cases hb
  rcases hkb with hkb | ⟨_, h5, hc⟩
  · omega
  · exact ⟨(inv_run progs sched).h1 i a ha hc, h5⟩

/-! ### deadlock freedom -/

def opCost : Op → Nat
  | .readOnly => 2
  | .mutate _ _ => 6

/-- micro-steps actor `a` still has to take -/
def cost (a : A) : Nat :=
  match a.prog with
  | [] => 0
  | .readOnly :: rest => (2 - min a.pc 1) + (rest.map opCost).sum
  | .mutate _ _ :: rest => (6 - min a.pc 5) + (rest.map opCost).sum

def measure (s : S) : Nat := (s.as.map cost).sum

theorem cost_zero (prog : List Op) (n : Nat) : cost ⟨prog, 0, n⟩ = (prog.map opCost).sum := by
  cases prog with
  | nil => rfl
  | cons op rest => cases op <;> simp [cost, opCost]

theorem sum_set_lt {as : List A} {i : Nat} {a a' : A} (hi : as[i]? = some a)
    (hlt : cost a' < cost a) : ((as.set i a').map cost).sum < (as.map cost).sum := by
  induction as generalizing i with
  | nil => simp at hi
  | cons b bs ih =>
    cases i with
    | zero =>
      simp at hi
      subst hi
      simp; omega
    | succ n =>
      simp at hi
      have := ih hi
      simp only [List.set_cons_succ, List.map_cons, List.sum_cons]; omega

theorem stepA_decr {s : S} {i : Nat} {prog : List Op} {pc opNo : Nat}
    (hi : s.as[i]? = some ⟨prog, pc, opNo⟩) (hne : prog ≠ [])
    (hen : inCrit ⟨prog, pc, opNo⟩ = true ∨ s.holder = none) :
    measure (stepA s i ⟨prog, pc, opNo⟩) < measure s := by
  cases prog with
  | nil => exact absurd rfl hne
  | cons op rest =>
    cases op with
    | readOnly =>
      cases pc with
      | zero => exact sum_set_lt hi (by simp [cost])
      | succ n => exact sum_set_lt hi (by rw [cost_zero]; simp [cost])
    | mutate c l =>
      match pc with
      | 0 =>
        have hh : s.holder = none := by simpa using hen
        simp only [stepA, hh]
        exact sum_set_lt hi (by simp [cost])
      | 1 => exact sum_set_lt hi (by simp [cost])
      | 2 => exact sum_set_lt hi (by simp [cost])
      | 3 => exact sum_set_lt hi (by simp [cost])
      | 4 => exact sum_set_lt hi (by simp [cost])
      | n + 5 => exact sum_set_lt hi (by rw [cost_zero]; simp [cost])

theorem inCrit_prog_ne {a : A} (h : inCrit a = true) : a.prog ≠ [] := by
  intro e
  simp [inCrit, e] at h

/-- unless everybody is done, some actor has an enabled step that makes progress -/
theorem progress {s : S} (hI : Inv s) (hd : allDone s = false) :
    ∃ i, measure (act true s (.step i)) < measure s := by
  cases hh : s.holder with
  | some i =>
    obtain ⟨a, hi, hc⟩ := hI.h2 i hh
    obtain ⟨prog, pc, opNo⟩ := a
    refine ⟨i, ?_⟩
    simp only [act, hi]
    exact stepA_decr hi (inCrit_prog_ne hc) (Or.inl hc)
  | none =>
    have : ∃ a ∈ s.as, a.prog ≠ [] := by
      unfold allDone at hd
      have := List.all_eq_false.mp hd
      obtain ⟨a, ha, hp⟩ := this
      exact ⟨a, ha, by simpa using hp⟩
    obtain ⟨a, ha, hp⟩ := this
    obtain ⟨i, hi⟩ := List.getElem?_of_mem ha
    obtain ⟨prog, pc, opNo⟩ := a
    refine ⟨i, ?_⟩
    simp only [act, hi]
    exact stepA_decr hi hp (Or.inr hh)

theorem finish_from (n : Nat) : ∀ s : S, Inv s → measure s ≤ n →
    ∃ more : List Act, allDone (more.foldl (act true) s) = true := by
  induction n with
  | zero =>
    intro s hI hm
    cases hd : allDone s with
    | true => exact ⟨[], hd⟩
    | false =>
      obtain ⟨i, hi⟩ := progress hI hd
      omega
  | succ n ih =>
    intro s hI hm
    cases hd : allDone s with
    | true => exact ⟨[], hd⟩
    | false =>
      obtain ⟨i, hi⟩ := progress hI hd
      obtain ⟨more, hmore⟩ := ih (act true s (.step i)) (inv_act s _ hI) (by omega)
      exact ⟨.step i :: more, hmore⟩

/-- deadlock freedom for the lock: from any reachable state, letting every actor run in turn
finishes everything (a schedule completing all programs exists) -/
theorem can_finish (progs : List (List Op)) (sched : List Act) :
    ∃ more, allDone (run true progs (sched ++ more)) = true := by
  obtain ⟨more, h⟩ := finish_from _ (run true progs sched) (inv_run progs sched) (Nat.le_refl _)
  exact ⟨more, by rw [run_append]; exact h⟩

end Rip.WsLTS
