import Rip.Model.Paths
namespace Rip.Paths
open Rip.Proto Rip.Patch

/-- the segments that `components` turns into something other than nothing -/
theorem mem_components_parent (s : Bytes) (h : (components s).any (· == .parentDir) = false) :
    ∀ seg ∈ splitSlash s, seg ≠ [46, 46] := by
  intro seg hseg heq
  subst heq
  have : Component.parentDir ∈ components s := by
    unfold components
    simp only [List.mem_append, List.mem_filterMap]
    right
    exact ⟨[46, 46], hseg, by decide⟩
  have h2 : (components s).any (· == .parentDir) = true := by
    simp only [List.any_eq_true, beq_iff_eq]
    exact ⟨_, this, rfl⟩
  rw [h] at h2
  cases h2

theorem osStep_prefix (root cur : Path) (seg : Bytes) (hp : root <+: cur) (hne : seg ≠ [46, 46]) :
    root <+: osStep cur seg := by
  unfold osStep
  split
  · exact hp
  · exact List.IsPrefix.trans hp (List.prefix_append _ _)

theorem foldl_osStep_prefix (root : Path) (segs : List Bytes) (cur : Path) (hp : root <+: cur)
    (hne : ∀ seg ∈ segs, seg ≠ [46, 46]) : root <+: segs.foldl osStep cur := by
  induction segs generalizing cur with
  | nil => exact hp
  | cons s ss ih =>
    simp only [List.foldl_cons]
    exact ih _ (osStep_prefix root cur s hp (hne s (by simp))) (fun seg hs => hne seg (by simp [hs]))

end Rip.Paths
