import Rip.Lemmas.SeekIndex
/-
The other half of seek-index transparency: an index whose entries all point at the frames they name
is USED (the window read answers, it is not refused), and the index that `rebuild` writes for a
contiguous sidecar is such an index and passes the loader. Together with `window_checked`: on a
sidecar that holds the thread, a missing or rejected index file costs a rebuild and nothing else.
-/
namespace Rip.SeekIndex

/-- every entry points at the start of the frame it names -/
def AllValid (ls : List Line) (es : List Entry) : Prop := ∀ e ∈ es, entryValid ls e = true

theorem linesFrom_zero (ls : List Line) : linesFrom ls 0 = some ls := by
  cases ls <;> simp [linesFrom]

theorem fileLen_pos_cons (l : Line) (rest : List Line) : 0 < fileLen (l :: rest) := by
  simp [fileLen, Line.size]; omega

theorem entryValid_at (pre : List Line) (l : Line) (rest : List Line) :
    entryValid (pre ++ l :: rest) ⟨l.seq, fileLen pre⟩ = true := by
  unfold entryValid
  simp only [linesFrom_fileLen, fileLen_append, Bool.and_eq_true, decide_eq_true_eq, beq_self_eq_true, and_true]
  have := fileLen_pos_cons l rest
  omega

theorem bestEntry_mem (es : List Entry) (t : Nat) (e : Entry) (h : bestEntry es t = some e) : e ∈ es := by
  unfold bestEntry at h
  have hm := List.mem_of_getLast? h
  exact (List.mem_filter.mp hm).1

/-- with valid entries a scan start is always found, and it is a line start -/
theorem startOffset_of_valid (ls : List Line) (es : List Entry) (t : Nat) (hv : AllValid ls es) :
    ∃ off rest, startOffset true ls es t = some off ∧ linesFrom ls off = some rest := by
  unfold startOffset
  split
  · exact ⟨0, ls, rfl, linesFrom_zero ls⟩
  · rename_i e he
    have hval := hv e (bestEntry_mem es t e he)
    obtain ⟨pre, l, rest, h1, h2, _⟩ := entryValid_split ls e hval
    refine ⟨e.off, l :: rest, by simp [hval], ?_⟩
    rw [h2, h1]; exact linesFrom_fileLen pre (l :: rest)

theorem windowWith_of_valid (budget : Nat) (ls : List Line) (es : List Entry) (fromSeq limit : Nat)
    (hv : AllValid ls es) : ∃ r, windowWith true budget ls es fromSeq limit = some r := by
  obtain ⟨off, rest, h1, h2⟩ := startOffset_of_valid ls es fromSeq hv
  have hb : boundaryPos true ls es fromSeq = some (boundaryGo fromSeq (fileLen ls) off rest) := by
    unfold boundaryPos; simp [h1, h2]
  obtain ⟨off2, rest2, h3, h4⟩ :=
    startOffset_of_valid ls es (startSeq ls (boundaryGo fromSeq (fileLen ls) off rest) fromSeq limit budget) hv
  refine ⟨forwardGo (startSeq ls (boundaryGo fromSeq (fileLen ls) off rest) fromSeq limit budget) fromSeq
    (boundaryGo fromSeq (fileLen ls) off rest) off2 rest2, ?_⟩
  unfold windowWith
  simp only [hb, h3, h4]

/-! ### what `rebuild` writes -/

/-- a contiguous sidecar from `exp` on: line i carries seq `exp + i` -/
def ContigFrom : Nat → List Line → Prop
  | _, [] => True
  | exp, l :: ls => l.seq = exp ∧ ContigFrom (exp + 1) ls

theorem rebuildGo_some (stride : Nat) (off exp : Nat) (ls : List Line) (hc : ContigFrom exp ls) :
    ∃ es, rebuildGo stride off exp ls = some es := by
  induction ls generalizing off exp with
  | nil => exact ⟨[], rfl⟩
  | cons x xs ih =>
    obtain ⟨h1, h2⟩ := hc
    obtain ⟨es, hes⟩ := ih (off + x.size) (exp + 1) h2
    simp only [rebuildGo, h1, bne_self_eq_false, Bool.false_eq_true, if_false, hes]
    exact ⟨_, rfl⟩

/-- every entry written by the rebuild is at or above the running offset and seq, and the list is
monotonic in both -/
theorem rebuildGo_props (stride : Nat) (pre : List Line) (exp : Nat) (ls : List Line)
    (hc : ContigFrom exp ls) (es : List Entry)
    (h : rebuildGo stride (fileLen pre) exp ls = some es) :
    AllValid (pre ++ ls) es ∧ (∀ e ∈ es, exp ≤ e.seq ∧ fileLen pre ≤ e.off) ∧
      monoBy (·.seq) es = true ∧ monoBy (·.off) es = true := by
  induction ls generalizing pre exp es with
  | nil =>
    simp [rebuildGo] at h; subst h
    exact ⟨by intro e he; simp at he, by intro e he; simp at he, rfl, rfl⟩
  | cons x xs ih =>
    obtain ⟨h1, h2⟩ := hc
    simp only [rebuildGo, h1, bne_self_eq_false, Bool.false_eq_true, if_false] at h
    have hlen : fileLen pre + x.size = fileLen (pre ++ [x]) := by
      simp [fileLen_append, fileLen]
    rw [hlen] at h
    split at h
    · simp at h
    · rename_i es' hes'
      obtain ⟨iv, ib, ims, imo⟩ := ih (pre ++ [x]) (exp + 1) h2 es' hes'
      have happ : pre ++ [x] ++ xs = pre ++ x :: xs := by simp
      rw [happ] at iv
      have hlen2 : fileLen pre ≤ fileLen (pre ++ [x]) := by rw [← hlen]; omega
      simp only [Option.some.injEq] at h
      by_cases hm : (exp % stride == 0) = true
      · simp only [hm, if_true] at h
        subst h
        refine ⟨?_, ?_, ?_, ?_⟩
        · intro e he
          rcases List.mem_cons.mp he with rfl | he
          · have := entryValid_at pre x xs
            rw [h1] at this; exact this
          · exact iv e he
        · intro e he
          rcases List.mem_cons.mp he with rfl | he
          · exact ⟨Nat.le_refl _, Nat.le_refl _⟩
          · have := ib e he; omega
        · cases es' with
          | nil => rfl
          | cons b rest =>
            have := ib b (by simp)
            simp only [monoBy, Bool.and_eq_true, decide_eq_true_eq]
            exact ⟨by omega, ims⟩
        · cases es' with
          | nil => rfl
          | cons b rest =>
            have := ib b (by simp)
            simp only [monoBy, Bool.and_eq_true, decide_eq_true_eq]
            exact ⟨by omega, imo⟩
      · simp only [hm] at h
        simp only [Bool.false_eq_true, if_false] at h
        subst h
        exact ⟨iv, fun e he => by have := ib e he; omega, ims, imo⟩

/-- the first frame of a contiguous sidecar always gets an entry: the rebuilt index is not empty -/
theorem rebuild_nonempty (stride : Nat) (l : Line) (ls : List Line) (hc : ContigFrom 0 (l :: ls))
    (es : List Entry) (h : rebuild stride (l :: ls) = some es) : es ≠ [] := by
  unfold rebuild at h
  obtain ⟨h1, _⟩ := hc
  simp only [rebuildGo, h1, bne_self_eq_false, Bool.false_eq_true, if_false] at h
  split at h
  · simp at h
  · simp only [Nat.zero_mod, beq_self_eq_true, if_true, Option.some.injEq] at h
    subst h; simp

/-- **a missing or rejected index file costs a rebuild and nothing else**: on a non-empty contiguous
sidecar the window read through a missing or loader-rejected index answers -/
theorem window_rebuilt_answers (stride budget : Nat) (l : Line) (ls : List Line)
    (hc : ContigFrom 0 (l :: ls)) (file : Option (List Entry))
    (hrej : match file with | some es => loadOk es = false | none => True)
    (fromSeq limit : Nat) :
    ∃ r, window true stride budget (l :: ls) file fromSeq limit = some r := by
  obtain ⟨es, hes⟩ := rebuildGo_some stride 0 0 (l :: ls) hc
  have hes' : rebuild stride (l :: ls) = some es := hes
  have hp := rebuildGo_props stride [] 0 (l :: ls) hc es (by simpa [fileLen] using hes)
  obtain ⟨hv, _, hms, hmo⟩ := hp
  simp only [List.nil_append] at hv
  have hne := rebuild_nonempty stride l ls hc es hes'
  have hload : loadOk es = true := by
    unfold loadOk
    cases es with
    | nil => exact absurd rfl hne
    | cons a t => simp [hms, hmo]
  have hlast : ∃ e, es.getLast? = some e ∧ entryValid (l :: ls) e = true := by
    cases hg : es.getLast? with
    | none => simp [List.getLast?_eq_none_iff] at hg; exact absurd hg hne
    | some e => exact ⟨e, rfl, hv e (List.mem_of_getLast? hg)⟩
  obtain ⟨e, hge, hve⟩ := hlast
  have hens : ensure stride (l :: ls) file = some es := by
    unfold ensure
    cases file with
    | none => simp [hes', hload, hge, hve]
    | some fes =>
      simp only at hrej
      simp [hrej, hes', hload, hge, hve]
  obtain ⟨r, hr⟩ := windowWith_of_valid budget (l :: ls) es fromSeq limit hv
  exact ⟨r, by unfold window; simp [hens, hr]⟩

theorem contig_sorted (exp : Nat) (ls : List Line) (hc : ContigFrom exp ls) :
    Sorted ls ∧ ∀ a ∈ ls, exp ≤ a.seq := by
  induction ls generalizing exp with
  | nil => exact ⟨List.Pairwise.nil, by intro a ha; simp at ha⟩
  | cons x xs ih =>
    obtain ⟨h1, h2⟩ := hc
    obtain ⟨hs, hb⟩ := ih (exp + 1) h2
    refine ⟨?_, ?_⟩
    · unfold Sorted
      rw [List.pairwise_cons]
      exact ⟨fun a ha => by have := hb a ha; omega, hs⟩
    · intro a ha
      rcases List.mem_cons.mp ha with rfl | ha
      · omega
      · have := hb a ha; omega

/-- … and what it answers is the index-free read -/
theorem window_rebuilt_exact (stride budget : Nat) (l : Line) (ls : List Line)
    (hc : ContigFrom 0 (l :: ls)) (file : Option (List Entry))
    (hrej : match file with | some es => loadOk es = false | none => True)
    (fromSeq limit : Nat) :
    window true stride budget (l :: ls) file fromSeq limit = some (windowLinear budget (l :: ls) fromSeq limit) := by
  obtain ⟨r, hr⟩ := window_rebuilt_answers stride budget l ls hc file hrej fromSeq limit
  rw [hr, window_checked stride budget (l :: ls) file fromSeq limit (contig_sorted 0 _ hc).1 r hr]

/-- an index whose entries all point at the frames they name is used, and answers the index-free read -/
theorem windowWith_valid_exact (budget : Nat) (ls : List Line) (es : List Entry) (fromSeq limit : Nat)
    (hs : Sorted ls) (hv : AllValid ls es) :
    windowWith true budget ls es fromSeq limit = some (windowLinear budget ls fromSeq limit) := by
  obtain ⟨r, hr⟩ := windowWith_of_valid budget ls es fromSeq limit hv
  rw [hr, windowWith_checked budget ls es fromSeq limit hs r hr]

end Rip.SeekIndex
