import Rip.Model.Rebuild
/-
C06 / C04 (a reader rebuilds the sidecar while appenders append): with the fall-back of
`replay_events` under the seq lock (`locked = true`, the code as it is) a readable sidecar never lacks
a frame that was already broadcast, for every number of appenders and readers and every schedule;
when nobody holds the lock a readable sidecar is the log; what a reader returns is a prefix of the
log. With the log read and the rewrite outside the lock (`locked = false`, the code as it was) a
broadcast frame is lost (`missed_unlocked`).
-/
namespace Rip.Rebuild

/-- the start states considered: the sidecar in step with the log, or unreadable with any content -/
def Start (s : S) : Prop :=
  ∃ n sideOk junk apps readers, s = init n sideOk junk apps readers

/-! ### the invariant -/

/-- invariant of the reachable states with the rewrite under the lock -/
structure Inv (s : S) : Prop where
  /-- frames are their seq -/
  logR : s.log = List.range s.log.length
  /-- an appender past the take holds the lock and has a frame to append; past the log write the
  log is not empty -/
  app : ∀ (i pc left : Nat), s.ps[i]? = some (.app pc left) →
    pc ≤ 4 ∧ (pc ≠ 0 → 0 < left ∧ s.lock = some i) ∧ (pc = 2 ∨ pc = 3 → 0 < s.log.length)
  /-- a reader inside the fall-back holds the lock; its snapshot is the log while it holds the lock
  and a prefix of the log once it is done -/
  rd : ∀ (i pc : Nat) (snap : List Nat), s.ps[i]? = some (.rd pc snap) →
    (2 ≤ pc ∧ pc ≤ 4 → s.lock = some i) ∧ (pc = 3 ∨ pc = 4 → snap = s.log) ∧
    (5 ≤ pc → snap <+: s.log)
  /-- a readable sidecar is the log, except between an appender's log write and its sidecar write,
  where it lacks exactly the last frame -/
  side : s.sideOk = true →
    (s.side = s.log ∧ ∀ (i left : Nat), s.ps[i]? ≠ some (.app 2 left)) ∨
    (s.side ++ [s.log.length - 1] = s.log ∧ ∃ (i left : Nat), s.ps[i]? = some (.app 2 left))
  /-- published frames are in the log, and the last frame of the log is not published before the
  appender that wrote it has written the sidecar -/
  pub : ∀ f ∈ s.published, f < s.log.length ∧
    ∀ (i pc left : Nat), s.ps[i]? = some (.app pc left) → pc = 2 ∨ pc = 3 → f + 1 < s.log.length

theorem get_set_self {ps : List P} {i : Nat} {p p' : P} (h : ps[i]? = some p) :
    (ps.set i p')[i]? = some p' := by
  have hlt := (List.getElem?_eq_some_iff.mp h).1
  simp [hlt]

theorem inv_init (n : Nat) (sideOk : Bool) (junk : List Nat) (apps : List Nat) (readers : Nat) :
    Inv (init n sideOk junk apps readers) := by
  have hps : ∀ (i : Nat) (p : P), (init n sideOk junk apps readers).ps[i]? = some p →
      (∃ k, p = .app 0 k) ∨ p = .rd 0 [] := by
    intro i p h
    have hm := List.mem_of_getElem? h
    simp only [init, List.mem_append, List.mem_map, List.mem_replicate] at hm
    rcases hm with ⟨k, _, rfl⟩ | ⟨_, rfl⟩
    · exact Or.inl ⟨k, rfl⟩
    · exact Or.inr rfl
  refine ⟨by simp [init], ?_, ?_, ?_, ?_⟩
  · intro i pc left h
    rcases hps i _ h with ⟨k, hk⟩ | hk
    · cases hk; simp
    · cases hk
  · intro i pc snap h
    rcases hps i _ h with ⟨k, hk⟩ | hk
    · cases hk
    · cases hk; simp
  · intro hok
    have hok' : sideOk = true := hok
    left
    refine ⟨by simp [init, hok'], ?_⟩
    intro i left h
    rcases hps i _ h with ⟨k, hk⟩ | hk <;> cases hk
  · intro f hf
    simp [init] at hf


theorem get_set_ne (ps : List P) (i : Nat) (p' : P) (j : Nat) (h : j ≠ i) :
    ps[j]? = (ps.set i p')[j]? := by
  rw [List.getElem?_set_ne (Ne.symm h)]

/-! ### one step -/

/-- one quantified field of the invariant, after `setP`, by case analysis on the index -/
local macro "inv_field" : tactic => `(tactic| (intros; simp only [setP, List.mem_append, List.mem_singleton] at *; grind only [= List.getElem?_set]))

/-- an appender takes the lock -/
theorem inv_app0 {s : S} (h : Inv s) {i left : Nat} (hi : s.ps[i]? = some (.app 0 left))
    (hl : left ≠ 0) (hk : s.lock = none) :
    Inv (setP { s with lock := some i } i (.app 1 left)) := by
  obtain ⟨h1, h2, h3, h4, h5⟩ := h
  have hs := get_set_self (p' := P.app 1 left) hi
  refine ⟨h1, ?_, ?_, ?_, ?_⟩ <;> inv_field

theorem prefix_snoc {a b : List Nat} (x : Nat) (h : a <+: b) : a <+: b ++ [x] :=
  List.IsPrefix.trans h (List.prefix_append _ _)

/-- an appender writes the log -/
theorem inv_app1 {s : S} (h : Inv s) {i left : Nat} (hi : s.ps[i]? = some (.app 1 left))
    (hl : left ≠ 0) :
    Inv (setP { s with log := s.log ++ [s.log.length] } i (.app 2 left)) := by
  obtain ⟨h1, h2, h3, h4, h5⟩ := h
  have hs := get_set_self (p' := P.app 2 left) hi
  have hpre := @prefix_snoc
  have hlen : (s.log ++ [s.log.length]).length = s.log.length + 1 := by simp
  refine ⟨?_, ?_, ?_, ?_, ?_⟩
  · simp only [setP, List.length_append, List.length_singleton, List.range_succ]
    rw [← h1]
  all_goals inv_field

/-- an appender writes the sidecar -/
theorem inv_app2 {s : S} (h : Inv s) {i left : Nat} (hi : s.ps[i]? = some (.app 2 left)) :
    Inv (setP { s with side := s.side ++ [s.log.length - 1] } i (.app 3 left)) := by
  obtain ⟨h1, h2, h3, h4, h5⟩ := h
  have hs := get_set_self (p' := P.app 3 left) hi
  refine ⟨h1, ?_, ?_, ?_, ?_⟩ <;> inv_field

/-- an appender broadcasts -/
theorem inv_app3 {s : S} (h : Inv s) {i left : Nat} (hi : s.ps[i]? = some (.app 3 left))
    (hl : left ≠ 0) :
    Inv (setP { s with published := s.published ++ [s.log.length - 1] } i (.app 4 left)) := by
  obtain ⟨h1, h2, h3, h4, h5⟩ := h
  have hs := get_set_self (p' := P.app 4 left) hi
  refine ⟨h1, ?_, ?_, ?_, ?_⟩ <;> inv_field

/-- an appender releases the lock -/
theorem inv_app4 {s : S} (h : Inv s) {i left : Nat} (hi : s.ps[i]? = some (.app 4 left)) :
    Inv (setP { s with lock := none } i (.app 0 (left - 1))) := by
  obtain ⟨h1, h2, h3, h4, h5⟩ := h
  have hs := get_set_self (p' := P.app 0 (left - 1)) hi
  refine ⟨h1, ?_, ?_, ?_, ?_⟩ <;> inv_field

/-- a reader answers from the readable sidecar -/
theorem inv_rd0_ok {s : S} (h : Inv s) {i : Nat} {snap : List Nat}
    (hi : s.ps[i]? = some (.rd 0 snap)) (hok : s.sideOk = true) :
    Inv (setP s i (.rd 5 s.side)) := by
  obtain ⟨h1, h2, h3, h4, h5⟩ := h
  have hs := get_set_self (p' := P.rd 5 s.side) hi
  have hne := get_set_ne s.ps i (P.rd 5 s.side)
  have hpre : s.side <+: s.log := by
    rcases h4 hok with ⟨h, _⟩ | ⟨h, _⟩
    · rw [h]; exact List.prefix_refl _
    · rw [← h]; exact List.prefix_append _ _
  refine ⟨h1, ?_, ?_, ?_, ?_⟩ <;> inv_field

/-- a reader finds the sidecar unreadable -/
theorem inv_rd0_bad {s : S} (h : Inv s) {i : Nat} {snap : List Nat}
    (hi : s.ps[i]? = some (.rd 0 snap)) :
    Inv (setP s i (.rd 1 snap)) := by
  obtain ⟨h1, h2, h3, h4, h5⟩ := h
  have hs := get_set_self (p' := P.rd 1 snap) hi
  have hne := get_set_ne s.ps i (P.rd 1 snap)
  refine ⟨h1, ?_, ?_, ?_, ?_⟩ <;> inv_field

/-- a reader takes the lock -/
theorem inv_rd1 {s : S} (h : Inv s) {i : Nat} {snap : List Nat}
    (hi : s.ps[i]? = some (.rd 1 snap)) (hk : s.lock = none) :
    Inv (setP { s with lock := some i } i (.rd 2 snap)) := by
  obtain ⟨h1, h2, h3, h4, h5⟩ := h
  have hs := get_set_self (p' := P.rd 2 snap) hi
  refine ⟨h1, ?_, ?_, ?_, ?_⟩ <;> inv_field

/-- a reader under the lock finds the sidecar readable again, answers from it and releases -/
theorem inv_rd2_ok {s : S} (h : Inv s) {i : Nat} {snap : List Nat}
    (hi : s.ps[i]? = some (.rd 2 snap)) (hok : s.sideOk = true) :
    Inv (setP { s with lock := none } i (.rd 5 s.side)) := by
  obtain ⟨h1, h2, h3, h4, h5⟩ := h
  have hs := get_set_self (p' := P.rd 5 s.side) hi
  have hpre : s.side <+: s.log := by
    rcases h4 hok with ⟨h, _⟩ | ⟨h, _⟩
    · rw [h]; exact List.prefix_refl _
    · rw [← h]; exact List.prefix_append _ _
  refine ⟨h1, ?_, ?_, ?_, ?_⟩ <;> inv_field

/-- a reader under the lock reads the log -/
theorem inv_rd2_bad {s : S} (h : Inv s) {i : Nat} {snap : List Nat}
    (hi : s.ps[i]? = some (.rd 2 snap)) (hok : s.sideOk = false) :
    Inv (setP s i (.rd 3 s.log)) := by
  obtain ⟨h1, h2, h3, h4, h5⟩ := h
  have hs := get_set_self (p' := P.rd 3 s.log) hi
  refine ⟨h1, ?_, ?_, ?_, ?_⟩ <;> inv_field

/-- a reader under the lock rewrites the sidecar from its snapshot -/
theorem inv_rd3 {s : S} (h : Inv s) {i : Nat} {snap : List Nat}
    (hi : s.ps[i]? = some (.rd 3 snap)) :
    Inv (setP { s with side := snap, sideOk := true } i (.rd 4 snap)) := by
  obtain ⟨h1, h2, h3, h4, h5⟩ := h
  have hs := get_set_self (p' := P.rd 4 snap) hi
  refine ⟨h1, ?_, ?_, ?_, ?_⟩ <;> inv_field

/-- a reader releases the lock -/
theorem inv_rd4 {s : S} (h : Inv s) {i : Nat} {snap : List Nat}
    (hi : s.ps[i]? = some (.rd 4 snap)) :
    Inv (setP { s with lock := none } i (.rd 5 snap)) := by
  obtain ⟨h1, h2, h3, h4, h5⟩ := h
  have hs := get_set_self (p' := P.rd 5 snap) hi
  have hrefl := List.prefix_refl s.log
  refine ⟨h1, ?_, ?_, ?_, ?_⟩ <;> inv_field

theorem inv_step {s : S} (h : Inv s) (i : Nat) : Inv (step true s i) := by
  cases hi : s.ps[i]? with
  | none => simpa [step, hi] using h
  | some p =>
    cases p with
    | app pc left =>
      by_cases hl : left = 0
      · simpa [step, hi, hl] using h
      · have hpc := (h.app i pc left hi).1
        match pc, hi, hpc with
        | 0, hi, _ =>
          cases hk : s.lock with
          | none =>
            have hs : step true s i = setP { s with lock := some i } i (.app 1 left) := by
              simp [step, hi, hl, hk]
            rw [hs]; exact inv_app0 h hi hl hk
          | some k =>
            have hs : step true s i = s := by simp [step, hi, hl, hk]
            rw [hs]; exact h
        | 1, hi, _ =>
          have hs : step true s i = setP { s with log := s.log ++ [s.log.length] } i (.app 2 left) := by
            simp [step, hi, hl]
          rw [hs]; exact inv_app1 h hi hl
        | 2, hi, _ =>
          have hs : step true s i =
              setP { s with side := s.side ++ [s.log.length - 1] } i (.app 3 left) := by
            simp [step, hi, hl]
          rw [hs]; exact inv_app2 h hi
        | 3, hi, _ =>
          have hs : step true s i =
              setP { s with published := s.published ++ [s.log.length - 1] } i (.app 4 left) := by
            simp [step, hi, hl]
          rw [hs]; exact inv_app3 h hi hl
        | 4, hi, _ =>
          have hs : step true s i = setP { s with lock := none } i (.app 0 (left - 1)) := by
            simp [step, hi, hl]
          rw [hs]; exact inv_app4 h hi
        | n + 5, _, hpc => omega
    | rd pc snap =>
      match pc, hi with
      | 0, hi =>
        cases hok : s.sideOk with
        | true =>
          have hs : step true s i = setP s i (.rd 5 s.side) := by simp [step, hi, hok]
          rw [hs]; exact inv_rd0_ok h hi hok
        | false =>
          have hs : step true s i = setP s i (.rd 1 snap) := by simp [step, hi, hok]
          rw [hs]; exact inv_rd0_bad h hi
      | 1, hi =>
        cases hk : s.lock with
        | none =>
          have hs : step true s i = setP { s with lock := some i } i (.rd 2 snap) := by
            simp [step, hi, hk]
          rw [hs]; exact inv_rd1 h hi hk
        | some k =>
          have hs : step true s i = s := by simp [step, hi, hk]
          rw [hs]; exact h
      | 2, hi =>
        cases hok : s.sideOk with
        | true =>
          have hs : step true s i = setP { s with lock := none } i (.rd 5 s.side) := by
            simp [step, hi, hok]
          rw [hs]; exact inv_rd2_ok h hi hok
        | false =>
          have hs : step true s i = setP s i (.rd 3 s.log) := by simp [step, hi, hok]
          rw [hs]; exact inv_rd2_bad h hi hok
      | 3, hi =>
        have hs : step true s i = setP { s with side := snap, sideOk := true } i (.rd 4 snap) := by
          simp [step, hi]
        rw [hs]; exact inv_rd3 h hi
      | 4, hi =>
        have hs : step true s i = setP { s with lock := none } i (.rd 5 snap) := by
          simp [step, hi]
        rw [hs]; exact inv_rd4 h hi
      | n + 5, hi =>
        have hs : step true s i = s := by simp [step, hi]
        rw [hs]; exact h

theorem inv_foldl (sched : List Nat) : ∀ {s : S}, Inv s → Inv (sched.foldl (step true) s) := by
  induction sched with
  | nil => intro s h; exact h
  | cons i is ih => intro s h; exact ih (inv_step h i)

theorem inv_run (n : Nat) (sideOk : Bool) (junk : List Nat) (apps : List Nat) (readers : Nat)
    (sched : List Nat) : Inv (run true (init n sideOk junk apps readers) sched) :=
  inv_foldl sched (inv_init n sideOk junk apps readers)

/-- every state reached from a start state satisfies the invariant -/
theorem inv_of_start {s0 : S} (h0 : Start s0) (sched : List Nat) : Inv (run true s0 sched) := by
  obtain ⟨n, sideOk, junk, apps, readers, rfl⟩ := h0
  exact inv_run n sideOk junk apps readers sched

/-! ### what the invariant says -/

/-- a readable sidecar is a prefix of the log -/
theorem inv_side_prefix {s : S} (h : Inv s) (hok : s.sideOk = true) : s.side <+: s.log := by
  rcases h.side hok with ⟨h, _⟩ | ⟨h, _⟩
  · rw [h]; exact List.prefix_refl _
  · rw [← h]; exact List.prefix_append _ _

theorem inv_missed {s : S} (h : Inv s) : missed s = [] := by
  unfold missed
  split
  · rename_i hok
    rw [List.filter_eq_nil_iff]
    intro f hf
    have hlt := (h.pub f hf).1
    have hmem : f ∈ s.side := by
      rcases h.side hok with ⟨hsl, _⟩ | ⟨hsl, j, left, hj⟩
      · rw [hsl, h.logR]; exact List.mem_range.mpr hlt
      · have h2 := (h.pub f hf).2 j 2 left hj (Or.inl rfl)
        have hlog : f ∈ s.log := by rw [h.logR]; exact List.mem_range.mpr hlt
        rw [← hsl, List.mem_append, List.mem_singleton] at hlog
        rcases hlog with hm | hm
        · exact hm
        · omega
    simpa using hmem
  · rfl

theorem inv_idle {s : S} (h : Inv s) (hk : s.lock = none) (hok : s.sideOk = true) :
    s.side = s.log := by
  rcases h.side hok with ⟨hsl, _⟩ | ⟨_, j, left, hj⟩
  · exact hsl
  · have := ((h.app j 2 left hj).2.1 (by omega)).2
    rw [hk] at this
    cases this

/-! ### the theorems -/

/-- MAIN: with the rewrite under the lock nothing that was broadcast is ever missing from a readable
sidecar — for any number of appenders and readers and every schedule -/
theorem no_missed_locked (n : Nat) (sideOk : Bool) (junk : List Nat) (apps : List Nat) (readers : Nat)
    (sched : List Nat) :
    missed (run true (init n sideOk junk apps readers) sched) = [] :=
  inv_missed (inv_run n sideOk junk apps readers sched)

/-- when nobody holds the lock, a readable sidecar IS the log (cache transparency under concurrency) -/
theorem side_eq_log_when_idle (n : Nat) (sideOk : Bool) (junk : List Nat) (apps : List Nat) (readers : Nat)
    (sched : List Nat) :
    let s := run true (init n sideOk junk apps readers) sched
    s.lock = none → s.sideOk = true → s.side = s.log := by
  intro s hk hok
  exact inv_idle (inv_run n sideOk junk apps readers sched) hk hok

/-- what a reader returns (`snap` at pc 5) is a prefix of the log as it is when it returns -/
theorem reader_answer_prefix (n : Nat) (sideOk : Bool) (junk : List Nat) (apps : List Nat) (readers : Nat)
    (sched : List Nat) (i : Nat) (snap : List Nat) :
    let s := run true (init n sideOk junk apps readers) sched
    s.ps[i]? = some (.rd 5 snap) → snap <+: s.log := by
  intro s hi
  exact (inv_run n sideOk junk apps readers sched).rd i 5 snap hi |>.2.2 (Nat.le_refl _)

/-- the same three facts for any start state in the sense of `Start` -/
theorem no_missed_of_start {s0 : S} (h0 : Start s0) (sched : List Nat) :
    missed (run true s0 sched) = [] :=
  inv_missed (inv_of_start h0 sched)

/-! ### the code as it was -/

/-- the code as it was (`locked = false`): reader 1 reads the log, appender 0 appends and broadcasts
frame 3, reader 1 rewrites the sidecar from its stale snapshot — frame 3 is lost to late subscribers -/
theorem missed_unlocked :
    missed (run false (init 3 false [] [1] 1) [1, 1, 0, 0, 0, 0, 0, 1, 1]) = [3] := by decide

theorem same_schedule_locked :
    missed (run true (init 3 false [] [1] 1) [1, 1, 0, 0, 0, 0, 0, 1, 1, 1, 1, 1, 0, 0, 0, 0, 0]) = [] ∧
    (run true (init 3 false [] [1] 1) [1, 1, 0, 0, 0, 0, 0, 1, 1, 1, 1, 1, 0, 0, 0, 0, 0]).side = [0, 1, 2, 3] := by decide

end Rip.Rebuild
