/-
C14: theorems about the checkpoint / rewind model (`Rip.Checkpoint`) and the cover lemma for the
patch engine (`spec_changes_only_named`): a patch changes no file other than the ones it names.
-/
import Rip.Model.Checkpoint
import Rip.Lemmas.PatchAtomic
import Rip.Lemmas.PatchExact

/-! ## patches change only the files they name -/

namespace Rip.Patch
open Rip.Proto

/-- the component paths an operation names -/
def namedComps : Op → List Path
  | .add p _ => [p.comps]
  | .delete p => [p.comps]
  | .update p m _ => p.comps :: (match m with | some t => [t.comps] | none => [])

theorem opSpec_changes_only_named {fs fs' : FS} {op : Op} (h : opSpec fs op = some fs') :
    ∀ q, q ∉ namedComps op → fs'.file q = fs.file q := by
  cases op with
  | add p c =>
    simp only [opSpec] at h
    split at h
    · cases h
    · cases hc : fs.createDirAll p.comps.dropLast with
      | none =>
        rw [hc] at h
        cases h
      | some fsA =>
        rw [hc] at h
        obtain ⟨_, hfile, _⟩ := createDirAll_some hc
        obtain ⟨_, _, _, rfl⟩ := write_some (fs := fsA) h
        intro q hq
        have hne : q ≠ p.comps := by
          intro he
          apply hq
          simp [namedComps, he]
        rw [setFile_file, if_neg hne]
        exact hfile q
  | delete p =>
    simp only [opSpec] at h
    split at h
    · cases h
    · split at h
      · cases h
        intro q hq
        have hne : q ≠ p.comps := by
          intro he
          apply hq
          simp [namedComps, he]
        rw [setFile_file, if_neg hne]
      · cases h
  | update p m hunks =>
    simp only [opSpec] at h
    split at h
    · cases h
    · split at h
      · cases h
      · split at h
        · cases h
        · split at h
          · cases h
          · split at h
            · cases h
            · rename_i fsA hw
              obtain ⟨_, _, _, rfl⟩ := write_some hw
              split at h
              · cases h
                intro q hq
                have hne : q ≠ p.comps := by
                  intro he
                  apply hq
                  simp [namedComps, he]
                rw [setFile_file, if_neg hne]
              · rename_i t
                split at h
                · cases h
                · cases hc : (fs.setFile p.comps (some _)).createDirAll t.comps.dropLast with
                  | none =>
                    rw [hc] at h
                    cases h
                  | some fsB =>
                    rw [hc] at h
                    obtain ⟨_, hfile, _⟩ := createDirAll_some hc
                    obtain ⟨bytes, _, _, _, _, rfl⟩ := rename_some (fs := fsB) h
                    intro q hq
                    have hne : q ≠ p.comps := by
                      intro he
                      apply hq
                      simp [namedComps, he]
                    have hne2 : q ≠ t.comps := by
                      intro he
                      apply hq
                      simp [namedComps, he]
                    rw [setFile_file, if_neg hne2, setFile_file, if_neg hne, hfile, setFile_file,
                      if_neg hne]

/-- a patch changes no file other than the ones it names (so an automatic checkpoint of the named
paths covers every file the patch can change) -/
theorem spec_changes_only_named (fs fs' : FS) (ops : List Op) (h : specRun fs ops = some fs') :
    ∀ q, q ∉ (ops.map namedComps).flatten → fs'.file q = fs.file q := by
  induction ops generalizing fs with
  | nil =>
    simp only [specRun] at h
    cases h
    intro _ _
    rfl
  | cons op ops ih =>
    simp only [specRun] at h
    cases ho : opSpec fs op with
    | none =>
      rw [ho] at h
      cases h
    | some fsA =>
      rw [ho] at h
      intro q hq
      simp only [List.map_cons, List.flatten_cons, List.mem_append, not_or] at hq
      rw [ih fsA h q hq.2]
      exact opSpec_changes_only_named ho q hq.1

end Rip.Patch

/-! ## checkpoint / rewind -/

namespace Rip.Checkpoint
open Rip.Proto Rip.Patch Rip.Paths

theorem exists_false {fs : FS} {p : Path} (h : ¬ fs.exists p = true) :
    fs.file p = none ∧ fs.dir p = false := by
  simp only [FS.exists, Bool.or_eq_true, not_or] at h
  refine ⟨?_, by simpa using h.2⟩
  cases hf : fs.file p with
  | none => rfl
  | some b => simp [hf] at h

/-! ### what `create` records -/

/-- what a checkpoint entry taken on `fs` looks like -/
def Rec (fs : FS) (e : Entry) : Prop :=
  e.mustDir = false ∧ e.content = fs.file e.path ∧ (e.content = none → fs.dir e.path = false)

theorem snapshotOne_false {fs : FS} {p : Path} {e : Entry} (h : snapshotOne fs p false = .ok e) :
    Rec fs e := by
  unfold snapshotOne at h
  simp only [Bool.false_eq_true, if_false] at h
  split at h
  · split at h
    · rename_i b hb
      cases h
      exact ⟨rfl, hb.symm, fun hn => by cases hn⟩
    · cases h
  · rename_i hex
    cases h
    obtain ⟨h1, h2⟩ := exists_false hex
    exact ⟨rfl, h1.symm, fun _ => h2⟩

theorem snapshotAll_rec {fs : FS} : ∀ (ps : List (Path × Bool)) (ck : Ckpt),
    (∀ pm ∈ ps, pm.2 = false) → snapshotAll fs ps = .ok ck → ∀ e ∈ ck, Rec fs e := by
  intro ps
  induction ps with
  | nil =>
    intro ck _ h
    simp only [snapshotAll] at h
    cases h
    intro e he
    cases he
  | cons pm ps ih =>
    intro ck hm h
    obtain ⟨p, m⟩ := pm
    have hmf : m = false := hm (p, m) (by simp)
    subst hmf
    simp only [snapshotAll] at h
    split at h
    · cases h
    · rename_i e0 h0
      split at h
      · cases h
      · rename_i es hes
        cases h
        intro e he
        rcases List.mem_cons.mp he with rfl | he
        · exact snapshotOne_false h0
        · exact ih es (fun pm hpm => hm pm (List.mem_cons_of_mem _ hpm)) hes e he

theorem validateAll_false {rootRaw : Bytes} : ∀ (raws : List Bytes) (ps : List (Path × Bool)),
    validateAll rootRaw raws = .ok ps → ∀ pm ∈ ps, pm.2 = false := by
  intro raws
  induction raws with
  | nil =>
    intro ps h
    simp only [validateAll] at h
    cases h
    intro pm hpm
    cases hpm
  | cons raw raws ih =>
    intro ps h
    simp only [validateAll] at h
    split at h
    · cases h
    · split at h
      · cases h
      · rename_i ps0 hps0
        cases h
        intro pm hpm
        rcases List.mem_cons.mp hpm with rfl | hpm
        · rfl
        · exact ih ps0 hps0 pm hpm

theorem create_rec {rootRaw : Bytes} {fs0 : FS} {raws : List Bytes} {ck : Ckpt}
    (h : create rootRaw fs0 raws = .ok ck) : ∀ e ∈ ck, Rec fs0 e := by
  unfold create at h
  split at h
  · cases h
  · rename_i ps hps
    exact snapshotAll_rec ps ck (validateAll_false raws ps hps) h

/-- a checkpoint records, for every covered path, exactly the file content at checkpoint time -/
theorem create_records (rootRaw : Bytes) (fs0 : FS) (raws : List Bytes) (ck : Ckpt)
    (h : create rootRaw fs0 raws = .ok ck) :
    ∀ e ∈ ck, e.content = fs0.file e.path ∧ e.mustDir = false :=
  fun e he => ⟨(create_rec h e he).2.1, (create_rec h e he).1⟩

/-- in a checkpoint of a well-formed file system, no covered path lies strictly above a covered
path that held a file -/
theorem rec_no_cover_below {fs0 : FS} (hwf0 : WF fs0) {e1 e2 : Entry} (h1 : Rec fs0 e1)
    (h2 : Rec fs0 e2) (hc : e2.content ≠ none) (hpre : e1.path <+: e2.path)
    (hne : e1.path ≠ e2.path) : False := by
  have hf2 : fs0.file e2.path ≠ none := by
    rw [← h2.2.1]
    exact hc
  have hd : fs0.dir e1.path = true := hwf0.2.2 e2.path (Or.inl hf2) e1.path hpre hne
  cases hc1 : e1.content with
  | none =>
    rw [h1.2.2 hc1] at hd
    cases hd
  | some b =>
    have hf1 : fs0.file e1.path ≠ none := by
      rw [← h1.2.1, hc1]
      simp
    rw [hwf0.2.1 _ hf1] at hd
    cases hd

/-! ### one step of the apply phase -/

/-- the step `applyEntries` performs for one entry: resulting file system, and whether it succeeded -/
def stepE (fs : FS) (e : Entry) : FS × Bool :=
  match e.content with
  | some b =>
    match fs.createDirAll e.path.dropLast with
    | none => (fs, false)
    | some fs1 =>
      match fs1.write e.path b with
      | none => (fs1, false)
      | some fs2 => (fs2, true)
  | none =>
    if e.mustDir then (fs, true)
    else if fs.exists e.path then
      match fs.removeFile e.path with
      | none => (fs, false)
      | some fs1 => (fs1, true)
    else (fs, true)

theorem applyEntries_cons (fs : FS) (e : Entry) (es : Ckpt) :
    applyEntries fs (e :: es) =
      match stepE fs e with
      | (fs2, true) => applyEntries fs2 es
      | (fs2, false) => (fs2, false) := by
  rw [applyEntries]
  unfold stepE
  cases e.content with
  | none =>
    simp only
    split
    · rfl
    · split
      · cases fs.removeFile e.path <;> rfl
      · rfl
  | some b =>
    simp only
    cases fs.createDirAll e.path.dropLast with
    | none => rfl
    | some fsA =>
      simp only
      cases fsA.write e.path b <;> rfl

theorem stepE_facts {fs fs2 : FS} {e : Entry} {ok : Bool} (h : stepE fs e = (fs2, ok)) :
    (∀ q, q ≠ e.path → fs2.file q = fs.file q) ∧
    (∀ q, fs.dir q = true → fs2.dir q = true) ∧
    (∀ q, fs2.dir q = true → fs.dir q = true ∨ (e.content ≠ none ∧ q <+: e.path.dropLast)) ∧
    (ok = true → e.mustDir = false → fs2.file e.path = e.content) := by
  unfold stepE at h
  split at h
  · rename_i b hb
    split at h
    · cases h
      exact ⟨fun _ _ => rfl, fun _ hq => hq, fun _ hq => Or.inl hq, fun h => by cases h⟩
    · rename_i fsA hc
      obtain ⟨_, hfile, hdir⟩ := createDirAll_some hc
      have hnew : ∀ q, fsA.dir q = true →
          fs.dir q = true ∨ (e.content ≠ none ∧ q <+: e.path.dropLast) := by
        intro q hq
        rcases (hdir q).mp hq with h1 | h1
        · exact Or.inl h1
        · exact Or.inr ⟨by rw [hb]; simp, h1⟩
      split at h
      · cases h
        exact ⟨fun q _ => hfile q, fun q hq => (hdir q).mpr (Or.inl hq), hnew,
          fun h => by cases h⟩
      · rename_i fsB hw
        obtain ⟨_, _, _, rfl⟩ := write_some hw
        cases h
        refine ⟨?_, ?_, ?_, ?_⟩
        · intro q hq
          rw [setFile_file, if_neg hq]
          exact hfile q
        · intro q hq
          rw [setFile_dir]
          exact (hdir q).mpr (Or.inl hq)
        · intro q hq
          rw [setFile_dir] at hq
          exact hnew q hq
        · intro _ _
          rw [setFile_file, if_pos rfl, hb]
  · rename_i hn
    split at h
    · rename_i hm
      cases h
      refine ⟨fun _ _ => rfl, fun _ hq => hq, fun _ hq => Or.inl hq, ?_⟩
      intro _ hm'
      rw [hm'] at hm
      cases hm
    · split at h
      · split at h
        · cases h
          exact ⟨fun _ _ => rfl, fun _ hq => hq, fun _ hq => Or.inl hq, fun h => by cases h⟩
        · rename_i fsA hr
          obtain ⟨_, rfl⟩ := removeFile_some hr
          cases h
          refine ⟨?_, fun _ hq => hq, fun _ hq => Or.inl hq, ?_⟩
          · intro q hq
            rw [setFile_file, if_neg hq]
          · intro _ _
            rw [setFile_file, if_pos rfl, hn]
      · rename_i hex
        cases h
        refine ⟨fun _ _ => rfl, fun _ hq => hq, fun _ hq => Or.inl hq, ?_⟩
        intro _ _
        rw [hn]
        exact (exists_false hex).1

/-- the apply phase changes `file` only at covered paths -/
theorem applyEntries_untouched : ∀ (es : Ckpt) (fs fs' : FS) (ok : Bool),
    applyEntries fs es = (fs', ok) → ∀ q, (∀ e ∈ es, e.path ≠ q) → fs'.file q = fs.file q := by
  intro es
  induction es with
  | nil =>
    intro fs fs' ok h q _
    simp only [applyEntries] at h
    cases h
    rfl
  | cons e es ih =>
    intro fs fs' ok h q hq
    rw [applyEntries_cons] at h
    have hqe : q ≠ e.path := fun he => hq e (by simp) he.symm
    cases hs : stepE fs e with
    | mk fs2 b =>
      rw [hs] at h
      obtain ⟨a1, _, _, _⟩ := stepE_facts hs
      cases b with
      | true =>
        simp only at h
        rw [ih fs2 fs' ok h q (fun e' he' => hq e' (List.mem_cons_of_mem _ he'))]
        exact a1 q hqe
      | false =>
        simp only at h
        cases h
        exact a1 q hqe

/-- a successful apply phase leaves every covered path with the recorded content, provided entries
with equal paths carry equal content (`f`) -/
theorem applyEntries_exact (f : Path → Option Bytes) : ∀ (es : Ckpt) (fs fs' : FS),
    (∀ e ∈ es, e.mustDir = false ∧ e.content = f e.path) →
    applyEntries fs es = (fs', true) → ∀ e ∈ es, fs'.file e.path = f e.path := by
  intro es
  induction es with
  | nil =>
    intro fs fs' _ _ e he
    cases he
  | cons e0 es ih =>
    intro fs fs' hrec h e he
    rw [applyEntries_cons] at h
    cases hs : stepE fs e0 with
    | mk fs2 b =>
      rw [hs] at h
      cases b with
      | false =>
        simp only at h
        cases h
      | true =>
        simp only at h
        have hrec' : ∀ e ∈ es, e.mustDir = false ∧ e.content = f e.path :=
          fun e' he' => hrec e' (List.mem_cons_of_mem _ he')
        by_cases hin : ∃ e' ∈ es, e'.path = e.path
        · obtain ⟨e', he', hp⟩ := hin
          rw [← hp]
          exact ih fs2 fs' hrec' h e' he'
        · have hq : ∀ e' ∈ es, e'.path ≠ e.path := fun e' he' hp => hin ⟨e', he', hp⟩
          rw [applyEntries_untouched es fs2 fs' true h e.path hq]
          rcases List.mem_cons.mp he with rfl | he
          · obtain ⟨_, _, _, a4⟩ := stepE_facts hs
            rw [a4 rfl (hrec e (by simp)).1]
            exact (hrec e (by simp)).2
          · exact absurd rfl (hq e he)

/-- rewind restores exactly: after a successful rewind from ANY later state fs1, every covered path
has the content it had when the checkpoint was taken (present with those bytes, or absent) -/
theorem rewind_exact (rootRaw : Bytes) (fs0 fs1 fs' : FS) (raws : List Bytes) (ck : Ckpt)
    (hc : create rootRaw fs0 raws = .ok ck) (hr : rewind fs1 ck = (true, fs')) :
    ∀ e ∈ ck, fs'.file e.path = fs0.file e.path := by
  unfold rewind at hr
  split at hr
  · cases hr
  · split at hr
    · rename_i fsm ha
      cases hr
      apply applyEntries_exact fs0.file ck fs1 fs' _ ha
      intro e he
      exact ⟨(create_rec hc e he).1, (create_rec hc e he).2.1⟩
    · cases hr

/-! ### the pre-read phase -/

/-- the value `preRead` records for one entry (`none`: the read fails) -/
def curOf (fs : FS) (e : Entry) : Option (Option Bytes) :=
  if e.mustDir then (if fs.dir e.path then none else some none)
  else if fs.exists e.path then (match fs.file e.path with | some b => some (some b) | none => none)
  else some none

theorem preRead_cons (fs : FS) (e : Entry) (es : Ckpt) :
    preRead fs (e :: es) =
      match curOf fs e with
      | none => none
      | some v =>
        match preRead fs es with
        | none => none
        | some rest => some ((e.path, v) :: rest) := rfl

theorem preRead_keys {fs : FS} : ∀ (ck : Ckpt) (undo : List (Path × Option Bytes)),
    preRead fs ck = some undo → undo.map Prod.fst = ck.map Entry.path := by
  intro ck
  induction ck with
  | nil =>
    intro undo h
    simp only [preRead] at h
    cases h
    rfl
  | cons e es ih =>
    intro undo h
    rw [preRead_cons] at h
    split at h
    · cases h
    · split at h
      · cases h
      · rename_i rest hrest
        cases h
        simp only [List.map_cons]
        rw [ih rest hrest]

theorem curOf_false {fs : FS} {e : Entry} {v : Option Bytes} (hm : e.mustDir = false)
    (h : curOf fs e = some v) :
    v = fs.file e.path ∧ (fs.dir e.path = true → fs.file e.path ≠ none) := by
  unfold curOf at h
  rw [hm] at h
  simp only [Bool.false_eq_true, if_false] at h
  split at h
  · split at h
    · rename_i b hb
      cases h
      refine ⟨hb.symm, fun _ => ?_⟩
      rw [hb]
      simp
    · cases h
  · rename_i hex
    cases h
    obtain ⟨h1, h2⟩ := exists_false hex
    refine ⟨h1.symm, fun hd => ?_⟩
    rw [h2] at hd
    cases hd

theorem preRead_some {fs : FS} : ∀ (ck : Ckpt) (undo : List (Path × Option Bytes)),
    (∀ e ∈ ck, e.mustDir = false) → preRead fs ck = some undo →
    (∀ pv ∈ undo, (∃ e ∈ ck, e.path = pv.1) ∧ pv.2 = fs.file pv.1) ∧
    (∀ e ∈ ck, fs.dir e.path = true → fs.file e.path ≠ none) := by
  intro ck
  induction ck with
  | nil =>
    intro undo _ h
    simp only [preRead] at h
    cases h
    exact ⟨fun _ h => (by cases h), fun _ h => (by cases h)⟩
  | cons e es ih =>
    intro undo hm h
    rw [preRead_cons] at h
    split at h
    · cases h
    · rename_i v hv
      split at h
      · cases h
      · rename_i rest hrest
        cases h
        obtain ⟨c1, c2⟩ := curOf_false (hm e (by simp)) hv
        obtain ⟨i1, i2⟩ := ih rest (fun e' he' => hm e' (List.mem_cons_of_mem _ he')) hrest
        refine ⟨?_, ?_⟩
        · intro pv hpv
          rcases List.mem_cons.mp hpv with rfl | hpv
          · exact ⟨⟨e, by simp, rfl⟩, c1⟩
          · obtain ⟨⟨e', he', hp⟩, hval⟩ := i1 pv hpv
            exact ⟨⟨e', List.mem_cons_of_mem _ he', hp⟩, hval⟩
        · intro e' he'
          rcases List.mem_cons.mp he' with rfl | he'
          · exact c2
          · exact i2 e' he'

/-! ### one step of the rollback -/

/-- `create_dir_all(parent)` with the error ignored -/
def mkPar (fs : FS) (p : Path) : FS :=
  match fs.createDirAll p.dropLast with
  | some f => f
  | none => fs

def stepR (fs : FS) (p : Path) (v : Option Bytes) : FS :=
  match v with
  | some b =>
    match (mkPar fs p).write p b with
    | some f => f
    | none => mkPar fs p
  | none =>
    match fs.removeFile p with
    | some f => f
    | none => fs

theorem rollback_cons (fs : FS) (p : Path) (v : Option Bytes) (rest : List (Path × Option Bytes)) :
    rollback fs ((p, v) :: rest) = rollback (stepR fs p v) rest := by
  cases v <;> rfl

theorem mkPar_facts (fs : FS) (p : Path) :
    (∀ q, (mkPar fs p).file q = fs.file q) ∧
    (∀ q, fs.dir q = true → (mkPar fs p).dir q = true) ∧
    (∀ q, (mkPar fs p).dir q = true → fs.dir q = true ∨ q <+: p.dropLast) := by
  unfold mkPar
  cases hc : fs.createDirAll p.dropLast with
  | none => exact ⟨fun _ => rfl, fun _ h => h, fun _ h => Or.inl h⟩
  | some f =>
    obtain ⟨_, hfile, hdir⟩ := createDirAll_some hc
    exact ⟨hfile, fun q hq => (hdir q).mpr (Or.inl hq), fun q hq => (hdir q).mp hq⟩

theorem stepR_facts (fs : FS) (p : Path) (v : Option Bytes) :
    (∀ q, q ≠ p → (stepR fs p v).file q = fs.file q) ∧
    (∀ q, fs.dir q = true → (stepR fs p v).dir q = true) ∧
    (∀ q, (stepR fs p v).dir q = true → fs.dir q = true ∨ (v ≠ none ∧ q <+: p.dropLast)) ∧
    (v = none → (stepR fs p v).file p = none) ∧
    (∀ b, v = some b → p ≠ [] → fs.dir p = false → fs.dir p.dropLast = true →
      (stepR fs p v).file p = some b) := by
  cases v with
  | none =>
    unfold stepR
    simp only
    cases hr : fs.removeFile p with
    | some f =>
      obtain ⟨_, rfl⟩ := removeFile_some hr
      refine ⟨?_, fun _ h => h, fun _ h => Or.inl h, ?_, ?_⟩
      · intro q hq
        rw [setFile_file, if_neg hq]
      · intro _
        rw [setFile_file, if_pos rfl]
      · intro b hb
        cases hb
    | none =>
      refine ⟨fun _ _ => rfl, fun _ h => h, fun _ h => Or.inl h, ?_, ?_⟩
      · intro _
        unfold FS.removeFile at hr
        split at hr
        · cases hr
        · rename_i hn
          cases hf : fs.file p with
          | none => rfl
          | some b => simp [hf] at hn
      · intro b hb
        cases hb
  | some b =>
    obtain ⟨m1, m2, m3⟩ := mkPar_facts fs p
    have hnew : ∀ q, (mkPar fs p).dir q = true →
        fs.dir q = true ∨ ((some b : Option Bytes) ≠ none ∧ q <+: p.dropLast) := by
      intro q hq
      rcases m3 q hq with h1 | h1
      · exact Or.inl h1
      · exact Or.inr ⟨by simp, h1⟩
    unfold stepR
    simp only
    cases hw : (mkPar fs p).write p b with
    | none =>
      refine ⟨fun q _ => m1 q, m2, hnew, fun h => (by cases h), ?_⟩
      intro b' hb' hp hd hpar
      exfalso
      have hd' : (mkPar fs p).dir p = false := by
        cases hx : (mkPar fs p).dir p with
        | false => rfl
        | true =>
          rcases m3 p hx with h1 | h1
          · rw [hd] at h1
            cases h1
          · exact absurd h1 (not_prefix_dropLast hp)
      rw [write_eq_some b hp hd' (m2 _ hpar)] at hw
      cases hw
    | some f =>
      obtain ⟨_, _, _, rfl⟩ := write_some hw
      refine ⟨?_, ?_, ?_, fun h => (by cases h), ?_⟩
      · intro q hq
        rw [setFile_file, if_neg hq]
        exact m1 q
      · intro q hq
        rw [setFile_dir]
        exact m2 q hq
      · intro q hq
        rw [setFile_dir] at hq
        exact hnew q hq
      · intro b' hb' _ _ _
        cases hb'
        rw [setFile_file, if_pos rfl]

/-- the rollback changes `file` only at the keys of the undo list -/
theorem rollback_untouched : ∀ (undo : List (Path × Option Bytes)) (fs : FS) (q : Path),
    q ∉ undo.map Prod.fst → (rollback fs undo).file q = fs.file q := by
  intro undo
  induction undo with
  | nil =>
    intro fs q _
    rfl
  | cons pv rest ih =>
    intro fs q hq
    obtain ⟨p, v⟩ := pv
    simp only [List.map_cons, List.mem_cons, not_or] at hq
    rw [rollback_cons, ih _ q hq.2]
    exact (stepR_facts fs p v).1 q hq.1

/-- rewind touches only covered paths (success or failure) -/
theorem rewind_only_covered (fs1 fs' : FS) (ck : Ckpt) (ok : Bool)
    (hr : rewind fs1 ck = (ok, fs')) :
    ∀ q, (∀ e ∈ ck, e.path ≠ q) → fs'.file q = fs1.file q := by
  intro q hq
  unfold rewind at hr
  split at hr
  · cases hr
    rfl
  · rename_i undo hu
    split at hr
    · rename_i fsm ha
      cases hr
      exact applyEntries_untouched ck fs1 _ _ ha q hq
    · rename_i fsm ha
      cases hr
      have hk : q ∉ undo.map Prod.fst := by
        rw [preRead_keys ck undo hu]
        intro hmem
        obtain ⟨e, he, hp⟩ := List.mem_map.mp hmem
        exact hq e he hp
      rw [rollback_untouched undo fsm q hk]
      exact applyEntries_untouched ck fs1 _ _ ha q hq

/-! ### a failed rewind restores every file -/

/-- invariant of both phases of a failing rewind, relative to the state `fs1` it started from:
directories only grow, no covered path is a directory, files off the cover are untouched -/
structure PInv (fs1 fs : FS) (cov : Path → Prop) : Prop where
  dirs : ∀ q, fs1.dir q = true → fs.dir q = true
  ndir : ∀ q, cov q → fs.dir q = false
  same : ∀ q, ¬ cov q → fs.file q = fs1.file q

theorem PInv_stepE {fs1 fs fs2 : FS} {cov : Path → Prop} {e : Entry} {ok : Bool}
    (hi : PInv fs1 fs cov) (hcov : cov e.path)
    (hnb : e.content ≠ none → ∀ q, q <+: e.path.dropLast → ¬ cov q)
    (h : stepE fs e = (fs2, ok)) : PInv fs1 fs2 cov := by
  obtain ⟨a1, a2, a3, _⟩ := stepE_facts h
  refine ⟨fun q hq => a2 q (hi.dirs q hq), ?_, ?_⟩
  · intro q hq
    cases hd : fs2.dir q with
    | false => rfl
    | true =>
      exfalso
      rcases a3 q hd with h1 | ⟨h1, h2⟩
      · rw [hi.ndir q hq] at h1
        cases h1
      · exact hnb h1 q h2 hq
  · intro q hq
    rw [a1 q (fun he => hq (he ▸ hcov))]
    exact hi.same q hq

theorem PInv_applyEntries {fs1 : FS} {cov : Path → Prop} : ∀ (es : Ckpt) (fs fs' : FS) (ok : Bool),
    (∀ e ∈ es, cov e.path ∧ (e.content ≠ none → ∀ q, q <+: e.path.dropLast → ¬ cov q)) →
    PInv fs1 fs cov → applyEntries fs es = (fs', ok) → PInv fs1 fs' cov := by
  intro es
  induction es with
  | nil =>
    intro fs fs' ok _ hi h
    simp only [applyEntries] at h
    cases h
    exact hi
  | cons e es ih =>
    intro fs fs' ok hes hi h
    rw [applyEntries_cons] at h
    obtain ⟨hcov, hnb⟩ := hes e (by simp)
    cases hs : stepE fs e with
    | mk fs2 b =>
      rw [hs] at h
      have hi2 := PInv_stepE hi hcov hnb hs
      cases b with
      | true =>
        simp only at h
        exact ih fs2 fs' ok (fun e' he' => hes e' (List.mem_cons_of_mem _ he')) hi2 h
      | false =>
        simp only at h
        cases h
        exact hi2

theorem PInv_stepR {fs1 fs : FS} {cov : Path → Prop} {p : Path} {v : Option Bytes}
    (hwf1 : WF fs1) (hcnd : ∀ q, cov q → fs1.dir q = false)
    (hi : PInv fs1 fs cov) (hcov : cov p) (hv : v = fs1.file p) :
    PInv fs1 (stepR fs p v) cov ∧ (stepR fs p v).file p = fs1.file p := by
  obtain ⟨r1, r2, r3, r4, r5⟩ := stepR_facts fs p v
  refine ⟨⟨fun q hq => r2 q (hi.dirs q hq), ?_, ?_⟩, ?_⟩
  · intro q hq
    cases hd : (stepR fs p v).dir q with
    | false => rfl
    | true =>
      exfalso
      rcases r3 q hd with h1 | ⟨h1, h2⟩
      · rw [hi.ndir q hq] at h1
        cases h1
      · have hf : fs1.file p ≠ none := by
          rw [← hv]
          exact h1
        have hp : p ≠ [] := by
          intro hp
          apply hf
          rw [hp]
          exact WF_root_not_file hwf1
        have hqp : q <+: p := h2.trans (List.dropLast_prefix p)
        have hne : q ≠ p := by
          intro he
          rw [he] at h2
          exact not_prefix_dropLast hp h2
        have := hwf1.2.2 p (Or.inl hf) q hqp hne
        rw [hcnd q hq] at this
        cases this
  · intro q hq
    rw [r1 q (fun he => hq (he ▸ hcov))]
    exact hi.same q hq
  · cases hvv : v with
    | none =>
      rw [← hvv, r4 hvv, ← hv, hvv]
    | some b =>
      have hf : fs1.file p ≠ none := by
        rw [← hv, hvv]
        simp
      have hp : p ≠ [] := by
        intro hp
        apply hf
        rw [hp]
        exact WF_root_not_file hwf1
      have hpar : fs1.dir p.dropLast = true :=
        hwf1.2.2 p (Or.inl hf) _ (List.dropLast_prefix p) (dropLast_ne hp)
      rw [← hvv, r5 b hvv hp (hi.ndir p hcov) (hi.dirs _ hpar), ← hv, hvv]

theorem rollback_restores {fs1 : FS} {cov : Path → Prop} (hwf1 : WF fs1)
    (hcnd : ∀ q, cov q → fs1.dir q = false) :
    ∀ (undo : List (Path × Option Bytes)) (fs : FS),
      (∀ pv ∈ undo, cov pv.1 ∧ pv.2 = fs1.file pv.1) → PInv fs1 fs cov →
      ∀ q, q ∈ undo.map Prod.fst → (rollback fs undo).file q = fs1.file q := by
  intro undo
  induction undo with
  | nil =>
    intro fs _ _ q hq
    cases hq
  | cons pv rest ih =>
    intro fs hu hi q hq
    obtain ⟨p, v⟩ := pv
    obtain ⟨hcov, hv⟩ := hu (p, v) (by simp)
    obtain ⟨hi2, hval⟩ := PInv_stepR hwf1 hcnd hi hcov hv
    rw [rollback_cons]
    by_cases hin : q ∈ rest.map Prod.fst
    · exact ih _ (fun pv hpv => hu pv (List.mem_cons_of_mem _ hpv)) hi2 q hin
    · rw [rollback_untouched rest _ q hin]
      simp only [List.map_cons, List.mem_cons] at hq
      rcases hq with rfl | hq
      · exact hval
      · exact absurd hq hin

/-- a rewind that fails leaves every file as it was -/
theorem rewind_fail_noop (rootRaw : Bytes) (fs0 fs1 fs' : FS) (raws : List Bytes) (ck : Ckpt)
    (hwf0 : WF fs0) (hwf1 : WF fs1)
    (hc : create rootRaw fs0 raws = .ok ck) (hr : rewind fs1 ck = (false, fs')) :
    ∀ q, fs'.file q = fs1.file q := by
  have hrec := create_rec hc
  unfold rewind at hr
  split at hr
  · cases hr
    intro _
    rfl
  · rename_i undo hu
    split at hr
    · cases hr
    · rename_i fsm ha
      cases hr
      obtain ⟨u1, u2⟩ := preRead_some ck undo (fun e he => (hrec e he).1) hu
      -- no covered path is a directory in `fs1`
      have hcnd : ∀ q, (∃ e ∈ ck, e.path = q) → fs1.dir q = false := by
        rintro q ⟨e, he, rfl⟩
        cases hd : fs1.dir e.path with
        | false => rfl
        | true =>
          have := hwf1.2.1 _ (u2 e he hd)
          rw [hd] at this
          cases this
      have hinit : PInv fs1 fs1 (fun q => ∃ e ∈ ck, e.path = q) :=
        ⟨fun _ h => h, hcnd, fun _ _ => rfl⟩
      have hes : ∀ e ∈ ck, (∃ e' ∈ ck, e'.path = e.path) ∧
          (e.content ≠ none → ∀ q, q <+: e.path.dropLast → ¬ ∃ e' ∈ ck, e'.path = q) := by
        intro e he
        refine ⟨⟨e, he, rfl⟩, ?_⟩
        rintro hcn q hq ⟨e', he', rfl⟩
        have hp : e.path ≠ [] := by
          intro hp
          apply hcn
          rw [(hrec e he).2.1, hp]
          exact WF_root_not_file hwf0
        have hne : e'.path ≠ e.path := by
          intro heq
          rw [heq] at hq
          exact not_prefix_dropLast hp hq
        exact rec_no_cover_below hwf0 (hrec e' he') (hrec e he) hcn
          (hq.trans (List.dropLast_prefix _)) hne
      have hmid := PInv_applyEntries ck fs1 fsm false hes hinit ha
      intro q
      by_cases hq : q ∈ undo.map Prod.fst
      · exact rollback_restores hwf1 hcnd undo fsm u1 hmid q hq
      · rw [rollback_untouched undo fsm q hq]
        apply hmid.same
        rintro ⟨e, he, rfl⟩
        apply hq
        rw [preRead_keys ck undo hu]
        exact List.mem_map_of_mem he

end Rip.Checkpoint
