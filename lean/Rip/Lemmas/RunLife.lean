import Rip.Model.RunLife
/-!
C07 lemmas: the frames of one run (`Rip.RunLife.trace`) obey the thread lifecycle grammar
`message, run_spawned, [selection, compiled], side-effects*, [cursor], run_ended`; the session
stream is `started, …, ended` with exactly one start and one end; `run_ended` is the last frame and
directly follows the terminal session frame; and the acceptor `lifecycleOk` is sound and complete
for that regular language.
-/
namespace Rip.RunLife

/-! ### projections -/

@[simp] theorem threadOf_nil : threadOf [] = [] := rfl
@[simp] theorem sessionOf_nil : sessionOf [] = [] := rfl
@[simp] theorem threadOf_append (a b : List Fr) : threadOf (a ++ b) = threadOf a ++ threadOf b := by
  simp [threadOf, List.filterMap_append]
@[simp] theorem sessionOf_append (a b : List Fr) : sessionOf (a ++ b) = sessionOf a ++ sessionOf b := by
  simp [sessionOf, List.filterMap_append]
@[simp] theorem threadOf_cons_s (k : SK) (l : List Fr) : threadOf (.session k :: l) = threadOf l := by
  simp [threadOf]
@[simp] theorem threadOf_cons_t (k : TK) (l : List Fr) : threadOf (.thread k :: l) = k :: threadOf l := by
  simp [threadOf]
@[simp] theorem sessionOf_cons_s (k : SK) (l : List Fr) : sessionOf (.session k :: l) = k :: sessionOf l := by
  simp [sessionOf]
@[simp] theorem sessionOf_cons_t (k : TK) (l : List Fr) : sessionOf (.thread k :: l) = sessionOf l := by
  simp [sessionOf]
@[simp] theorem threadOf_rep_s (n : Nat) (k : SK) : threadOf (rep n (.session k)) = [] := by
  induction n with
  | zero => rfl
  | succ n ih =>
    have : rep (n + 1) (.session k) = .session k :: rep n (.session k) := by
      simp [rep, List.replicate_succ]
    rw [this, threadOf_cons_s, ih]
@[simp] theorem sessionOf_rep_s (n : Nat) (k : SK) : sessionOf (rep n (.session k)) = List.replicate n k := by
  induction n with
  | zero => rfl
  | succ n ih =>
    have : rep (n + 1) (.session k) = .session k :: rep n (.session k) := by
      simp [rep, List.replicate_succ]
    rw [this, sessionOf_cons_s, ih, List.replicate_succ]

/-! ### the two predicates -/

/-- a list of thread kinds that is only side-effects frames -/
def AllSide (l : List TK) : Prop := ∀ k ∈ l, k = .sideFx
/-- a list of session kinds with neither a start nor an end frame -/
def Mid (l : List SK) : Prop := ∀ k ∈ l, k ≠ .started ∧ k ≠ .ended

theorem allSide_nil : AllSide [] := by intro k hk; cases hk
theorem mid_nil : Mid [] := by intro k hk; cases hk
theorem AllSide.append {a b : List TK} (ha : AllSide a) (hb : AllSide b) : AllSide (a ++ b) := by
  intro k hk; rcases List.mem_append.mp hk with h | h
  · exact ha k h
  · exact hb k h
theorem Mid.append {a b : List SK} (ha : Mid a) (hb : Mid b) : Mid (a ++ b) := by
  intro k hk; rcases List.mem_append.mp hk with h | h
  · exact ha k h
  · exact hb k h
theorem allSide_single : AllSide [.sideFx] := by
  intro k hk; rcases List.mem_singleton.mp hk with rfl; rfl
theorem mid_cons {k : SK} {l : List SK} (h1 : k ≠ .started) (h2 : k ≠ .ended) (hl : Mid l) : Mid (k :: l) := by
  intro x hx; rcases List.mem_cons.mp hx with h | h
  · subst h; exact ⟨h1, h2⟩
  · exact hl x h
theorem mid_replicate (n : Nat) (k : SK) (h1 : k ≠ .started) (h2 : k ≠ .ended) : Mid (List.replicate n k) := by
  intro x hx; rw [(List.mem_replicate.mp hx).2]; exact ⟨h1, h2⟩
theorem allSide_replicate (n : Nat) : AllSide (List.replicate n .sideFx) := by
  intro x hx; exact (List.mem_replicate.mp hx).2
theorem allSide_eq_replicate {l : List TK} (h : AllSide l) : l = List.replicate l.length .sideFx :=
  List.eq_replicate_iff.mpr ⟨rfl, h⟩

/-! ### tools and turns -/

theorem tool_thread (linked inLoop : Bool) (t : Tool) : AllSide (threadOf (toolFrames linked inLoop t)) := by
  obtain ⟨needsLock, barred, frames⟩ := t
  cases linked <;> cases inLoop <;> cases barred <;> cases needsLock <;>
    simp [toolFrames, allSide_nil, allSide_single]

theorem tool_session (linked inLoop : Bool) (t : Tool) : Mid (sessionOf (toolFrames linked inLoop t)) := by
  have h2 : Mid [SK.tool, SK.tool] := mid_cons (by decide) (by decide) (mid_cons (by decide) (by decide) mid_nil)
  have hn : Mid (SK.tool :: List.replicate t.frames SK.tool) :=
    mid_cons (by decide) (by decide) (mid_replicate _ _ (by decide) (by decide))
  obtain ⟨needsLock, barred, frames⟩ := t
  cases linked <;> cases inLoop <;> cases barred <;> cases needsLock <;>
    simp [toolFrames] <;> first | exact h2 | exact hn

theorem tools_thread (linked : Bool) (ts : List Tool) :
    AllSide (threadOf (ts.map (toolFrames linked true)).flatten) := by
  induction ts with
  | nil => exact allSide_nil
  | cons t ts ih =>
    rw [List.map_cons, List.flatten_cons, threadOf_append]
    exact (tool_thread linked true t).append ih
theorem tools_session (linked : Bool) (ts : List Tool) :
    Mid (sessionOf (ts.map (toolFrames linked true)).flatten) := by
  induction ts with
  | nil => exact mid_nil
  | cons t ts ih =>
    rw [List.map_cons, List.flatten_cons, sessionOf_append]
    exact (tool_session linked true t).append ih

theorem turn_thread (linked : Bool) (t : Turn) : AllSide (threadOf (turnFrames linked t)) := by
  rw [turnFrames, threadOf_append, threadOf_rep_s, List.nil_append]
  exact tools_thread linked t.tools
theorem turn_session (linked : Bool) (t : Turn) : Mid (sessionOf (turnFrames linked t)) := by
  rw [turnFrames, sessionOf_append, sessionOf_rep_s]
  exact (mid_replicate _ _ (by decide) (by decide)).append (tools_session linked t.tools)

theorem turns_thread (linked : Bool) (ts : List Turn) :
    AllSide (threadOf (ts.map (turnFrames linked)).flatten) := by
  induction ts with
  | nil => exact allSide_nil
  | cons t ts ih =>
    rw [List.map_cons, List.flatten_cons, threadOf_append]
    exact (turn_thread linked t).append ih
theorem turns_session (linked : Bool) (ts : List Turn) :
    Mid (sessionOf (ts.map (turnFrames linked)).flatten) := by
  induction ts with
  | nil => exact mid_nil
  | cons t ts ih =>
    rw [List.map_cons, List.flatten_cons, sessionOf_append]
    exact (turn_session linked t).append ih

/-- an unattached run's tools write no thread frame at all -/
theorem tool_thread_unlinked (inLoop : Bool) (t : Tool) : threadOf (toolFrames false inLoop t) = [] := by
  obtain ⟨needsLock, barred, frames⟩ := t
  cases inLoop <;> cases barred <;> simp [toolFrames]
theorem turns_thread_unlinked (ts : List Turn) : threadOf (ts.map (turnFrames false)).flatten = [] := by
  induction ts with
  | nil => rfl
  | cons t ts ih =>
    rw [List.map_cons, List.flatten_cons, threadOf_append, ih, List.append_nil,
      turnFrames, threadOf_append, threadOf_rep_s, List.nil_append]
    induction t.tools with
    | nil => rfl
    | cons u us ih2 =>
      rw [List.map_cons, List.flatten_cons, threadOf_append, ih2, tool_thread_unlinked]; rfl

/-! ### the acceptor -/

/-- the optional `selection, compiled` prefix the acceptor strips -/
def stripSel : List TK → List TK
  | .selDecided :: .compiled :: r => r
  | r => r
/-- the optional `cursor` the acceptor strips -/
def stripCur : List TK → List TK
  | .cursor :: r => r
  | r => r

theorem lifecycleOk_cons (rest : List TK) :
    lifecycleOk (.message :: .runSpawned :: rest) =
      (stripCur ((stripSel rest).dropWhile (· == .sideFx)) == [.runEnded]) := rfl

theorem lifecycleOk_true_head {l : List TK} (h : lifecycleOk l = true) :
    ∃ rest, l = .message :: .runSpawned :: rest := by
  match l, h with
  | .message :: .runSpawned :: rest, _ => exact ⟨rest, rfl⟩

theorem dropWhile_allSide (l rest : List TK) (h : AllSide l) :
    (l ++ rest).dropWhile (· == .sideFx) = rest.dropWhile (· == .sideFx) := by
  induction l with
  | nil => rfl
  | cons k l ih =>
    have hk : k = .sideFx := h k (List.mem_cons_self ..)
    subst hk
    rw [List.cons_append, List.dropWhile_cons]
    simp only [beq_self_eq_true, if_true]
    exact ih (fun k hk => h k (List.mem_cons_of_mem _ hk))

/-- `dropWhile (· == sideFx)` strips exactly a block of side-effects frames and stops at another kind -/
theorem dropWhile_side_spec (l : List TK) : ∃ n, l = List.replicate n .sideFx ++ l.dropWhile (· == .sideFx) ∧
    ∀ k r, l.dropWhile (· == .sideFx) = k :: r → k ≠ .sideFx := by
  induction l with
  | nil => exact ⟨0, rfl, by intro k r h; cases h⟩
  | cons a l ih =>
    by_cases ha : a = .sideFx
    · subst ha
      obtain ⟨n, h1, h2⟩ := ih
      refine ⟨n + 1, ?_, ?_⟩
      · rw [List.dropWhile_cons]; simp only [beq_self_eq_true, if_true]
        rw [List.replicate_succ, List.cons_append, ← h1]
      · rw [List.dropWhile_cons]; simp only [beq_self_eq_true, if_true]; exact h2
    · have hb : (a == TK.sideFx) = false := by simpa using ha
      refine ⟨0, ?_, ?_⟩
      · rw [List.dropWhile_cons]; simp [hb]
      · intro k r h
        rw [List.dropWhile_cons] at h; simp only [hb] at h
        cases h; exact ha

/-- completeness: the acceptor accepts every word of the lifecycle language -/
theorem lifecycle_accepts (sel cur : Bool) (side : List TK) (h : AllSide side) :
    lifecycleOk ([.message, .runSpawned] ++ (if sel then [.selDecided, .compiled] else []) ++ side ++
      (if cur then [.cursor] else []) ++ [.runEnded]) = true := by
  have hsel : ∀ rest : List TK, (rest = [.runEnded] ∨ rest = [.cursor, .runEnded]) →
      stripSel (side ++ rest) = side ++ rest := by
    intro rest hr
    cases side with
    | nil => rcases hr with hr | hr <;> subst hr <;> rfl
    | cons k side =>
      have : k = .sideFx := h k (List.mem_cons_self ..)
      subst this; rfl
  have key : ∀ rest : List TK, (rest = [.runEnded] ∨ rest = [.cursor, .runEnded]) →
      (stripCur ((side ++ rest).dropWhile (· == .sideFx)) == [TK.runEnded]) = true := by
    intro rest hr
    rw [dropWhile_allSide side rest h]
    rcases hr with hr | hr <;> subst hr <;> decide
  have norm : ∀ a c : List TK, [TK.message, TK.runSpawned] ++ a ++ side ++ c ++ [TK.runEnded] =
      TK.message :: TK.runSpawned :: (a ++ (side ++ (c ++ [TK.runEnded]))) := by
    intro a c; simp
  rw [norm, lifecycleOk_cons]
  cases sel <;> cases cur
  · show (stripCur ((stripSel (side ++ [.runEnded])).dropWhile (· == .sideFx)) == [TK.runEnded]) = true
    rw [hsel _ (Or.inl rfl)]; exact key _ (Or.inl rfl)
  · show (stripCur ((stripSel (side ++ [.cursor, .runEnded])).dropWhile (· == .sideFx)) == [TK.runEnded]) = true
    rw [hsel _ (Or.inr rfl)]; exact key _ (Or.inr rfl)
  · exact key _ (Or.inl rfl)
  · exact key _ (Or.inr rfl)

/-- the part of the grammar after the optional `selection, compiled` -/
theorem tail_sound (l : List TK) (h : (stripCur (l.dropWhile (· == .sideFx)) == [TK.runEnded]) = true) :
    ∃ (cur : Bool) (n : Nat), l = List.replicate n .sideFx ++ (if cur then [.cursor] else []) ++ [.runEnded] := by
  obtain ⟨n, h1, _⟩ := dropWhile_side_spec l
  have h' : stripCur (l.dropWhile (· == .sideFx)) = [TK.runEnded] := by simpa using h
  generalize l.dropWhile (· == .sideFx) = d at h1 h'
  match d, h' with
  | .cursor :: r, h' =>
    have : r = [TK.runEnded] := h'
    subst this
    exact ⟨true, n, by rw [h1]; simp⟩
  | [.runEnded], _ => exact ⟨false, n, by rw [h1]; simp⟩

/-- soundness: everything the acceptor accepts is a word of the lifecycle language -/
theorem lifecycleOk_sound (l : List TK) (h : lifecycleOk l = true) : ∃ (sel cur : Bool) (n : Nat),
    l = [.message, .runSpawned] ++ (if sel then [.selDecided, .compiled] else []) ++ List.replicate n .sideFx ++
      (if cur then [.cursor] else []) ++ [.runEnded] := by
  obtain ⟨rest, rfl⟩ := lifecycleOk_true_head h
  rw [lifecycleOk_cons] at h
  by_cases hs : ∃ r, rest = .selDecided :: .compiled :: r
  · obtain ⟨r, rfl⟩ := hs
    obtain ⟨cur, n, hr⟩ := tail_sound r h
    exact ⟨true, cur, n, by rw [hr]; simp⟩
  · have : stripSel rest = rest := by
      unfold stripSel
      split
      · next r => exact absurd ⟨r, rfl⟩ hs
      · rfl
    rw [this] at h
    obtain ⟨cur, n, hr⟩ := tail_sound rest h
    exact ⟨false, cur, n, by rw [hr]; simp⟩

/-- the acceptor decides exactly the lifecycle language -/
theorem lifecycleOk_iff (l : List TK) : lifecycleOk l = true ↔ ∃ (sel cur : Bool) (n : Nat),
    l = [.message, .runSpawned] ++ (if sel then [.selDecided, .compiled] else []) ++ List.replicate n .sideFx ++
      (if cur then [.cursor] else []) ++ [.runEnded] := by
  constructor
  · exact lifecycleOk_sound l
  · rintro ⟨sel, cur, n, rfl⟩
    exact lifecycle_accepts sel cur _ (allSide_replicate n)

/-! ### the body of a run -/

/-- thread view of the body: optional (selection, compiled), side effects, optional cursor -/
theorem body_thread (r : Run) : ∃ (sel cur : Bool) (side : List TK), AllSide side ∧
    threadOf (body r) = (if sel then [.selDecided, .compiled] else []) ++ side ++ (if cur then [.cursor] else []) := by
  obtain ⟨input, linked, provider, compileOk, turns, completed, hasCursor⟩ := r
  cases input with
  | tool t => exact ⟨false, false, threadOf (toolFrames linked false t), tool_thread _ _ _, by simp [body]⟩
  | checkpoint n => exact ⟨false, false, [], allSide_nil, by simp [body]⟩
  | prompt =>
    cases provider
    · exact ⟨false, false, [], allSide_nil, by simp [body]⟩
    · cases linked
      · exact ⟨false, false, threadOf ((turns.map (turnFrames false)).flatten), turns_thread _ _, by simp [body]⟩
      · cases compileOk
        · exact ⟨false, false, [], allSide_nil, by simp [body]⟩
        · refine ⟨true, completed && hasCursor, threadOf ((turns.map (turnFrames true)).flatten),
            turns_thread _ _, ?_⟩
          cases completed <;> cases hasCursor <;> simp [body]

theorem body_session (r : Run) : ∃ mid, Mid mid ∧ sessionOf (body r) = mid ++ [.ended] := by
  have hout : Mid [SK.output] := mid_cons (by decide) (by decide) mid_nil
  obtain ⟨input, linked, provider, compileOk, turns, completed, hasCursor⟩ := r
  cases input with
  | tool t =>
    exact ⟨sessionOf (toolFrames linked false t) ++ [.output], (tool_session _ _ _).append hout, by simp [body]⟩
  | checkpoint n =>
    exact ⟨List.replicate n .tool ++ [.output], (mid_replicate _ _ (by decide) (by decide)).append hout,
      by simp [body]⟩
  | prompt =>
    cases provider
    · exact ⟨[.output], hout, by simp [body]⟩
    · cases linked
      · exact ⟨sessionOf ((turns.map (turnFrames false)).flatten), turns_session _ _, by simp [body]⟩
      · cases compileOk
        · exact ⟨[], mid_nil, by simp [body]⟩
        · refine ⟨sessionOf ((turns.map (turnFrames true)).flatten), turns_session _ _, ?_⟩
          cases completed <;> cases hasCursor <;> simp [body]

theorem body_ends (r : Run) : ∃ pre, body r = pre ++ [.session .ended] := by
  obtain ⟨input, linked, provider, compileOk, turns, completed, hasCursor⟩ := r
  cases input with
  | tool t => exact ⟨toolFrames linked false t ++ [.session .output], by simp [body]⟩
  | checkpoint n => exact ⟨rep n (.session .tool) ++ [.session .output], by simp [body]⟩
  | prompt =>
    cases provider
    · exact ⟨[.session .output], by simp [body]⟩
    · cases hc : (linked && !compileOk)
      · exact ⟨_, by simp only [body, hc]; rfl⟩
      · exact ⟨[], by simp [body, hc]⟩

/-! ### main theorems -/

/-- and more explicitly -/
theorem thread_shape (r : Run) (h : r.linked = true) : ∃ (sel cur : Bool) (side : List TK), AllSide side ∧
    threadOf (trace r) = [.message, .runSpawned] ++ (if sel then [.selDecided, .compiled] else []) ++ side ++
      (if cur then [.cursor] else []) ++ [.runEnded] := by
  obtain ⟨sel, cur, side, hs, hb⟩ := body_thread r
  exact ⟨sel, cur, side, hs, by simp [trace, h, hb]⟩

/-- thread view of an attached run obeys the lifecycle grammar -/
theorem thread_lifecycle (r : Run) (h : r.linked = true) : lifecycleOk (threadOf (trace r)) = true := by
  obtain ⟨sel, cur, side, hs, hb⟩ := thread_shape r h
  rw [hb]; exact lifecycle_accepts sel cur side hs

theorem allSide_count {side : List TK} (hs : AllSide side) {k : TK} (hk : k ≠ .sideFx) : side.count k = 0 := by
  rw [List.count_eq_zero]
  intro hm; exact hk (hs k hm)

/-- exactly one run_spawned, one message, one run_ended per attached run -/
theorem one_of_each (r : Run) (h : r.linked = true) :
    (threadOf (trace r)).count .message = 1 ∧ (threadOf (trace r)).count .runSpawned = 1 ∧
    (threadOf (trace r)).count .runEnded = 1 := by
  obtain ⟨sel, cur, side, hs, hb⟩ := thread_shape r h
  have h1 : side.count .message = 0 := allSide_count hs (by decide)
  have h2 : side.count .runSpawned = 0 := allSide_count hs (by decide)
  have h3 : side.count .runEnded = 0 := allSide_count hs (by decide)
  rw [hb]
  cases sel <;> cases cur <;> simp [List.count_append, h1, h2, h3]

/-- a run that is not attached writes nothing on any thread -/
theorem thread_unlinked (r : Run) (h : r.linked = false) : threadOf (trace r) = [] := by
  obtain ⟨input, linked, provider, compileOk, turns, completed, hasCursor⟩ := r
  simp only at h
  subst h
  cases input with
  | tool t => simp [trace, body, tool_thread_unlinked]
  | checkpoint n => simp [trace, body]
  | prompt => cases provider <;> simp [trace, body, turns_thread_unlinked]

/-- the session stream starts with its start frame, ends with exactly one end frame -/
theorem session_shape (r : Run) : ∃ mid, Mid mid ∧ sessionOf (trace r) = .started :: mid ++ [.ended] := by
  obtain ⟨mid, hm, hb⟩ := body_session r
  refine ⟨mid, hm, ?_⟩
  cases h : r.linked <;> simp [trace, h, hb]

/-- consequently the session stream has exactly one start frame and exactly one end frame -/
theorem session_one_of_each (r : Run) :
    (sessionOf (trace r)).count .started = 1 ∧ (sessionOf (trace r)).count .ended = 1 := by
  obtain ⟨mid, hm, hb⟩ := session_shape r
  have h1 : mid.count .started = 0 := by
    rw [List.count_eq_zero]; intro hmem; exact (hm _ hmem).1 rfl
  have h2 : mid.count .ended = 0 := by
    rw [List.count_eq_zero]; intro hmem; exact (hm _ hmem).2 rfl
  rw [hb]
  simp [List.count_append, h1, h2]

/-- run_ended is the last frame and directly follows the run's own terminal session frame -/
theorem run_ended_last (r : Run) (h : r.linked = true) :
    ∃ pre, trace r = pre ++ [.session .ended, .thread .runEnded] := by
  obtain ⟨pre, hp⟩ := body_ends r
  exact ⟨[.thread .message, .thread .runSpawned, .session .started] ++ pre, by simp [trace, h, hp]⟩

/-- parallel runs on one thread: whatever the interleaving, each run's own frames obey the lifecycle -/
theorem parallel_runs (runs : List Run) (l : List (Nat × Fr))
    (hl : ∀ i r, runs[i]? = some r → projRun i l = trace r) (i : Nat) (r : Run) (hr : runs[i]? = some r)
    (hk : r.linked = true) : lifecycleOk (threadOf (projRun i l)) = true := by
  rw [hl i r hr]; exact thread_lifecycle r hk

/-! ### non-vacuity: concrete runs -/

/-- a prompt run with provider, two turns, a mutating tool (and a barred one) and a cursor -/
def exPrompt : Run :=
  { input := .prompt, linked := true, provider := true, compileOk := true,
    turns := [⟨2, [⟨true, false, 3⟩, ⟨false, true, 1⟩]⟩, ⟨1, [⟨true, false, 0⟩]⟩],
    completed := true, hasCursor := true }

example : threadOf (trace exPrompt) =
    [.message, .runSpawned, .selDecided, .compiled, .sideFx, .sideFx, .cursor, .runEnded] := by decide
example : lifecycleOk (threadOf (trace exPrompt)) = true := by decide
example : sessionOf (trace exPrompt) =
    [.started, .provider, .provider, .tool, .tool, .tool, .tool, .tool, .tool, .provider, .tool, .ended] := by
  decide

/-- a tool envelope run (mutating tool, attached) -/
def exTool : Run :=
  { input := .tool ⟨true, false, 2⟩, linked := true, provider := false, compileOk := true,
    turns := [], completed := false, hasCursor := false }

example : trace exTool =
    [.thread .message, .thread .runSpawned, .session .started, .session .tool, .session .tool, .session .tool,
     .thread .sideFx, .session .output, .session .ended, .thread .runEnded] := by decide
example : lifecycleOk (threadOf (trace exTool)) = true := by decide

/-- a context-compile failure: the run still ends, with nothing between run_spawned and run_ended -/
def exCompileFail : Run :=
  { input := .prompt, linked := true, provider := true, compileOk := false,
    turns := [⟨1, []⟩], completed := true, hasCursor := true }

example : trace exCompileFail =
    [.thread .message, .thread .runSpawned, .session .started, .session .ended, .thread .runEnded] := by decide
example : lifecycleOk (threadOf (trace exCompileFail)) = true := by decide

/-- the same prompt run, unattached: nothing on any thread, the session is unchanged in shape -/
example : threadOf (trace { exPrompt with linked := false }) = [] := by decide

/-- the acceptor is not trivially true -/
example : lifecycleOk [.message, .runSpawned, .selDecided, .runEnded] = false := by decide
example : lifecycleOk [.message, .runSpawned, .cursor, .sideFx, .runEnded] = false := by decide
example : lifecycleOk [.message, .runSpawned, .runEnded, .runEnded] = false := by decide
example : lifecycleOk [.runSpawned, .message, .runEnded] = false := by decide

end Rip.RunLife
