import Rip.Model.PatchParse
namespace Rip.Patch
open Rip.Proto

/-- What one patch operation means, with no engine bookkeeping (no undo list, no changed list). -/
def opSpec (fs : FS) : Op → Option FS
  | .add p content =>
    if p.mustDir || fs.exists p.comps then none
    else (fs.createDirAll p.comps.dropLast).bind (fun fs1 => fs1.write p.comps content)
  | .delete p =>
    if p.mustDir then none
    else match fs.file p.comps with
      | some _ => some (fs.setFile p.comps none)
      | none => none
  | .update p movedTo hunks =>
    if p.mustDir then none
    else match fs.file p.comps with
      | none => none
      | some bytes =>
        if !Rip.Utf8.isValid bytes then none else
        match applyHunks bytes hunks with
        | none => none
        | some updated =>
          match fs.write p.comps updated with
          | none => none
          | some fs1 =>
            match movedTo with
            | none => some fs1
            | some t =>
              if t.mustDir || fs1.exists t.comps then none
              else (fs1.createDirAll t.comps.dropLast).bind (fun fs2 => fs2.rename p.comps t.comps)

def specRun (fs : FS) : List Op → Option FS
  | [] => some fs
  | op :: ops => (opSpec fs op).bind (fun fs1 => specRun fs1 ops)

/-- the paths an operation names, as reported -/
def named : Op → List Bytes
  | .add p _ => [p.raw]
  | .delete p => [p.raw]
  | .update p m _ => p.raw :: (match m with | some t => [t.raw] | none => [])

theorem applyOp_exact (s s' : St) (op : Op) (h : applyOp s op = .ok s') :
    opSpec s.fs op = some s'.fs ∧ s'.changed = s.changed ++ named op := by
  cases op with
  | add p content =>
    simp only [applyOp] at h
    split at h
    · split at h <;> cases h
    · split at h
      · cases h
      · rename_i hm he
        split at h
        · cases h
        · split at h
          · cases h
          · rename_i fs1 hc
            split at h
            · cases h
            · rename_i fs2 hw
              cases h
              simp [opSpec, hm, he, hc, hw, named]
  | delete p =>
    simp only [applyOp] at h
    split at h
    · split at h <;> cases h
    · rename_i hm
      split at h
      · cases h
      · split at h
        · cases h
        · split at h
          · cases h
          · rename_i fs1 hr
            cases h
            unfold FS.removeFile at hr
            split at hr
            · rename_i hs
              cases hr
              rcases Option.isSome_iff_exists.mp hs with ⟨b, hb⟩
              simp [opSpec, hm, hb, named]
            · cases hr
  | update p movedTo hunks =>
    simp only [applyOp] at h
    split at h
    · split at h <;> cases h
    · rename_i hm
      split at h
      · cases h
      · split at h
        · cases h
        · split at h
          · cases h
          · rename_i bytes hf
            split at h
            · cases h
            · rename_i hv
              split at h
              · cases h
              · rename_i updated hh
                split at h
                · cases h
                · rename_i fs1 hw
                  split at h
                  · cases h
                    simp [opSpec, hm, hf, hv, hh, hw, named]
                  · rename_i t
                    split at h
                    · split at h <;> cases h
                    · rename_i htm
                      split at h
                      · cases h
                      · rename_i hte
                        split at h
                        · cases h
                        · split at h
                          · cases h
                          · rename_i fs2 hc
                            split at h
                            · cases h
                            · rename_i fs3 hr
                              cases h
                              simp [opSpec, hm, hf, hv, hh, hw, htm, hte, hc, hr, named]

theorem applyOps_exact (s s' : St) (ops : List Op) (h : applyOps s ops = .ok s') :
    specRun s.fs ops = some s'.fs ∧ s'.changed = s.changed ++ (ops.map named).flatten := by
  induction ops generalizing s with
  | nil => simp [applyOps] at h; subst h; simp [specRun]
  | cons op ops ih =>
    simp only [applyOps] at h
    split at h
    · rename_i s1 h1
      have a := applyOp_exact s s1 op h1
      have b := ih s1 h
      simp [specRun, a.1, b.1, b.2, a.2, List.append_assoc]
    · cases h

end Rip.Patch
