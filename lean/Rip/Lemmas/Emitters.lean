import Rip.Model.Emitters
/-
C06 (several emitters on one stream): with the seq lock held around the whole emission
(`nested = true`, the code as it is) frames are published and recorded in seq order, without gap or
duplicate, for every number of emitters, every frame count and every interleaving; the critical
section is mutually exclusive; there is no deadlock; on completion every frame went out once.
-/
namespace Rip.Emitters

/-! ### sums over the emitters -/

def sumOf (f : E → Nat) (es : List E) : Nat := (es.map f).sum

theorem sumOf_set (f : E → Nat) : ∀ (es : List E) (i : Nat) (e e' : E), es[i]? = some e →
    sumOf f (es.set i e') + f e = sumOf f es + f e'
  | [], i, e, e', h => by simp at h
  | x :: xs, 0, e, e', h => by
    simp at h; subst h; simp [sumOf]; omega
  | x :: xs, i + 1, e, e', h => by
    have ih := sumOf_set f xs i e e' (by simpa using h)
    simp [sumOf] at *; omega

theorem le_sumOf (f : E → Nat) : ∀ (es : List E) (i : Nat) (e : E), es[i]? = some e → f e ≤ sumOf f es
  | [], i, e, h => by simp at h
  | x :: xs, 0, e, h => by
    simp at h; subst h; simp [sumOf]
  | x :: xs, i + 1, e, h => by
    have ih := le_sumOf f xs i e (by simpa using h)
    simp [sumOf] at *; omega

theorem sumOf_eq_zero (f : E → Nat) : ∀ (es : List E), (∀ (i : Nat) (e : E), es[i]? = some e → f e = 0) → sumOf f es = 0
  | [], _ => rfl
  | x :: xs, h => by
    have h0 := h 0 x (by simp)
    have ih := sumOf_eq_zero f xs (fun i e hi => h (i + 1) e (by simpa using hi))
    simp [sumOf] at *; omega

theorem get_set_self {es : List E} {i : Nat} {e e' : E} (h : es[i]? = some e) :
    (es.set i e')[i]? = some e' := by
  have hlt := (List.getElem?_eq_some_iff.mp h).1
  simp [hlt]

/-- frames still to emit, over all emitters -/
def sumLeft (es : List E) : Nat := sumOf (fun e => e.left) es

theorem sumLeft_init (counts : List Nat) : sumLeft (init counts).es = counts.sum := by
  simp only [init, sumLeft, sumOf]
  induction counts with
  | nil => rfl
  | cons c cs ih => simp [List.map_cons, List.sum_cons] at *; omega

/-! ### the invariant -/

/-- the pc-specific part of the invariant: `b` is the number of completed emissions, `i` holds the
seq lock and is at `e` -/
def Phase (s : S) (b i : Nat) (e : E) : Prop :=
  (e.pc = 1 ∧ s.bufHolder = none ∧ s.next = b ∧
    s.published = List.range b ∧ s.recorded = List.range b) ∨
  (e.pc = 2 ∧ s.bufHolder = none ∧ s.next = b + 1 ∧ e.drawn = b ∧
    s.published = List.range b ∧ s.recorded = List.range b) ∨
  (e.pc = 3 ∧ s.bufHolder = some i ∧ s.next = b + 1 ∧ e.drawn = b ∧
    s.published = List.range b ∧ s.recorded = List.range b) ∨
  (e.pc = 4 ∧ s.bufHolder = some i ∧ s.next = b + 1 ∧ e.drawn = b ∧
    s.published = List.range (b + 1) ∧ s.recorded = List.range b) ∨
  (e.pc = 5 ∧ s.bufHolder = some i ∧ s.next = b + 1 ∧ e.drawn = b ∧
    s.published = List.range (b + 1) ∧ s.recorded = List.range (b + 1))

/-- invariant of the reachable states with the nested lock; `total` is the number of frames to emit -/
inductive Inv (total : Nat) (s : S) : Prop
  | idle (b : Nat) (hsum : b + sumLeft s.es = total)
      (hseq : s.seqHolder = none) (hbuf : s.bufHolder = none) (hnext : s.next = b)
      (hp : s.published = List.range b) (hr : s.recorded = List.range b)
      (hpc : ∀ (j : Nat) (e : E), s.es[j]? = some e → e.pc = 0)
  | busy (b i : Nat) (e : E) (hsum : b + sumLeft s.es = total)
      (hi : s.es[i]? = some e) (hseq : s.seqHolder = some i)
      (hother : ∀ (j : Nat) (e' : E), s.es[j]? = some e' → j ≠ i → e'.pc = 0)
      (hleft : e.left ≠ 0) (hph : Phase s b i e)

theorem inv_init (counts : List Nat) : Inv counts.sum (init counts) := by
  refine Inv.idle 0 ?_ rfl rfl rfl rfl rfl ?_
  · rw [sumLeft_init]; omega
  · intro j e h
    simp [init] at h
    obtain ⟨n, _, rfl⟩ := h
    rfl

/-- the state after a step of the holder (or of the first taker): only emitter `i` moved -/
theorem inv_after {total : Nat} {s s' : S} {b b' i : Nat} {e e' : E}
    (hsum : b + sumLeft s.es = total) (hi : s.es[i]? = some e)
    (hother : ∀ (j : Nat) (e' : E), s.es[j]? = some e' → j ≠ i → e'.pc = 0)
    (hes : s'.es = s.es.set i e') (hseq : s'.seqHolder = some i)
    (hb : b' + e'.left = b + e.left) (hleft : e'.left ≠ 0) (hph : Phase s' b' i e') :
    Inv total s' := by
  refine Inv.busy b' i e' ?_ ?_ hseq ?_ hleft hph
  · have := sumOf_set (fun e => e.left) s.es i e e' hi
    simp only [sumLeft, hes] at *; omega
  · rw [hes]; exact get_set_self hi
  · intro j e'' hj hne
    rw [hes, List.getElem?_set_ne (Ne.symm hne)] at hj
    exact hother j e'' hj hne

theorem inv_step {total : Nat} {s : S} (h : Inv total s) (i : Nat) : Inv total (step true s i) := by
  cases hi : s.es[i]? with
  | none => simpa [step, hi] using h
  | some e =>
    by_cases hl : e.left = 0
    · simpa [step, hi, hl] using h
    · cases h with
      | idle b hsum hseq hbuf hnext hp hr hpc =>
        have hpc0 := hpc i e hi
        have hs : step true s i = setE { s with seqHolder := some i } i { e with pc := 1 } := by
          simp [step, hi, hl, hpc0, hseq]
        rw [hs]
        refine inv_after (b' := b) hsum hi (fun j e' hj _ => hpc j e' hj) rfl rfl rfl hl ?_
        exact Or.inl ⟨rfl, hbuf, hnext, hp, hr⟩
      | busy b h0 e0 hsum hi0 hseq hother hleft hph =>
        by_cases hne : i = h0
        · subst hne
          rw [hi] at hi0
          cases hi0
          rcases hph with ⟨hpc, hbuf, hnext, hp, hr⟩ | ⟨hpc, hbuf, hnext, hdr, hp, hr⟩ |
            ⟨hpc, hbuf, hnext, hdr, hp, hr⟩ | ⟨hpc, hbuf, hnext, hdr, hp, hr⟩ |
            ⟨hpc, hbuf, hnext, hdr, hp, hr⟩
          · have hs : step true s i = setE { s with next := s.next + 1 } i
                { e with pc := 2, drawn := s.next } := by
              simp [step, hi, hl, hpc]
            rw [hs]
            refine inv_after (b' := b) hsum hi hother rfl hseq rfl hl ?_
            exact Or.inr (Or.inl ⟨rfl, hbuf, by simp [setE, hnext], hnext, hp, hr⟩)
          · have hs : step true s i = setE { s with bufHolder := some i } i { e with pc := 3 } := by
              simp [step, hi, hl, hpc, hbuf]
            rw [hs]
            refine inv_after (b' := b) hsum hi hother rfl hseq rfl hl ?_
            exact Or.inr (Or.inr (Or.inl ⟨rfl, rfl, hnext, hdr, hp, hr⟩))
          · have hs : step true s i = setE { s with published := s.published ++ [e.drawn] } i
                { e with pc := 4 } := by
              simp [step, hi, hl, hpc]
            rw [hs]
            refine inv_after (b' := b) hsum hi hother rfl hseq rfl hl ?_
            refine Or.inr (Or.inr (Or.inr (Or.inl ⟨rfl, hbuf, hnext, hdr, ?_, hr⟩)))
            simp [setE, hp, hdr, List.range_succ]
          · have hs : step true s i = setE { s with recorded := s.recorded ++ [e.drawn] } i
                { e with pc := 5 } := by
              simp [step, hi, hl, hpc]
            rw [hs]
            refine inv_after (b' := b) hsum hi hother rfl hseq rfl hl ?_
            refine Or.inr (Or.inr (Or.inr (Or.inr ⟨rfl, hbuf, hnext, hdr, hp, ?_⟩)))
            simp [setE, hr, hdr, List.range_succ]
          · have hs : step true s i = setE { s with bufHolder := none, seqHolder := none } i
                { e with pc := 0, left := e.left - 1 } := by
              simp [step, hi, hl, hpc]
            rw [hs]
            refine Inv.idle (b + 1) ?_ rfl rfl hnext hp hr ?_
            · have := sumOf_set (fun e => e.left) s.es i e { e with pc := 0, left := e.left - 1 } hi
              simp only [sumLeft, setE] at *; omega
            · intro j e' hj
              simp only [setE] at hj
              by_cases hji : j = i
              · subst hji
                rw [get_set_self hi] at hj
                cases hj; rfl
              · rw [List.getElem?_set_ne (Ne.symm hji)] at hj
                exact hother j e' hj hji
        · have hpc0 := hother i e hi hne
          have hs : step true s i = s := by simp [step, hi, hl, hpc0, hseq]
          rw [hs]
          exact Inv.busy b h0 e0 hsum hi0 hseq hother hleft hph

theorem inv_foldl {total : Nat} (sched : List Nat) : ∀ {s : S}, Inv total s →
    Inv total (sched.foldl (step true) s) := by
  induction sched with
  | nil => intro s h; exact h
  | cons i is ih => intro s h; exact ih (inv_step h i)

theorem inv_run (counts sched : List Nat) : Inv counts.sum (run true counts sched) :=
  inv_foldl sched (inv_init counts)

/-! ### what the invariant says -/

/-- the observable consequences of the invariant, in one statement -/
theorem inv_shape {total : Nat} {s : S} (h : Inv total s) :
    ∃ p r, s.published = List.range p ∧ s.recorded = List.range r ∧ r ≤ p ∧ p ≤ r + 1 ∧
      p ≤ s.next ∧ s.next ≤ p + 1 := by
  cases h with
  | idle b hsum hseq hbuf hnext hp hr hpc => exact ⟨b, b, hp, hr, by omega⟩
  | busy b i e hsum hi hseq hother hleft hph =>
    rcases hph with ⟨_, _, hnext, hp, hr⟩ | ⟨_, _, hnext, _, hp, hr⟩ | ⟨_, _, hnext, _, hp, hr⟩ |
      ⟨_, _, hnext, _, hp, hr⟩ | ⟨_, _, hnext, _, hp, hr⟩
    · exact ⟨b, b, hp, hr, by omega⟩
    · exact ⟨b, b, hp, hr, by omega⟩
    · exact ⟨b, b, hp, hr, by omega⟩
    · exact ⟨b + 1, b, hp, hr, by omega⟩
    · exact ⟨b + 1, b + 1, hp, hr, by omega⟩

/-- frames are published in seq order, without gap or duplicate -/
theorem published_in_order (counts : List Nat) (sched : List Nat) :
    ∃ k, (run true counts sched).published = List.range k := by
  obtain ⟨p, _, hp, _⟩ := inv_shape (inv_run counts sched)
  exact ⟨p, hp⟩

/-- frames are recorded in seq order, without gap or duplicate -/
theorem recorded_in_order (counts : List Nat) (sched : List Nat) :
    ∃ k, (run true counts sched).recorded = List.range k := by
  obtain ⟨_, r, _, hr, _⟩ := inv_shape (inv_run counts sched)
  exact ⟨r, hr⟩

/-- the record never runs ahead of the publication and is at most one frame behind it -/
theorem recorded_prefix_of_published (counts : List Nat) (sched : List Nat) :
    (run true counts sched).recorded <+: (run true counts sched).published ∧
    (run true counts sched).published.length ≤ (run true counts sched).recorded.length + 1 := by
  obtain ⟨p, r, hp, hr, h1, h2, _⟩ := inv_shape (inv_run counts sched)
  rw [hp, hr]
  refine ⟨?_, by simpa using h2⟩
  have : p = r ∨ p = r + 1 := by omega
  rcases this with rfl | rfl
  · exact List.prefix_refl _
  · rw [List.range_succ]; exact List.prefix_append _ _

/-- the seq counter is exactly the number of seqs drawn: next = published.length or
published.length + 1 -/
theorem next_tracks (counts : List Nat) (sched : List Nat) :
    (run true counts sched).published.length ≤ (run true counts sched).next ∧
    (run true counts sched).next ≤ (run true counts sched).published.length + 1 := by
  obtain ⟨p, r, hp, hr, _, _, h3, h4⟩ := inv_shape (inv_run counts sched)
  rw [hp]; simpa using ⟨h3, h4⟩

/-- whoever is past the take is the holder of the seq lock -/
theorem inv_holder {total : Nat} {s : S} (h : Inv total s) {i : Nat} {a : E}
    (ha : s.es[i]? = some a) (hpa : 1 ≤ a.pc) : s.seqHolder = some i := by
  cases h with
  | idle b hsum hseq hbuf hnext hp hr hpc => have := hpc i a ha; omega
  | busy b h0 e hsum hi hseq hother hleft hph =>
    by_cases hne : i = h0
    · rw [hne]; exact hseq
    · have := hother i a ha hne; omega

/-- mutual exclusion of the critical section: whoever is past the draw holds the seq lock -/
theorem one_in_section (counts : List Nat) (sched : List Nat) (i j : Nat) (a b : E)
    (ha : (run true counts sched).es[i]? = some a) (hb : (run true counts sched).es[j]? = some b)
    (hpa : 1 ≤ a.pc) (hpb : 1 ≤ b.pc) : i = j := by
  have h1 := inv_holder (inv_run counts sched) ha hpa
  have h2 := inv_holder (inv_run counts sched) hb hpb
  rw [h1] at h2
  exact Option.some.inj h2

/-- the seq lock is held exactly by the emitter that is inside its emission -/
theorem seq_holder_iff (counts : List Nat) (sched : List Nat) (i : Nat) :
    (run true counts sched).seqHolder = some i ↔
      ∃ e, (run true counts sched).es[i]? = some e ∧ 1 ≤ e.pc := by
  constructor
  · intro hs
    cases inv_run counts sched with
    | idle b hsum hseq hbuf hnext hp hr hpc => rw [hseq] at hs; cases hs
    | busy b h0 e hsum hi hseq hother hleft hph =>
      rw [hseq] at hs; cases hs
      refine ⟨e, hi, ?_⟩
      rcases hph with ⟨h, _⟩ | ⟨h, _⟩ | ⟨h, _⟩ | ⟨h, _⟩ | ⟨h, _⟩ <;> omega
  · rintro ⟨e, he, hpc⟩
    exact inv_holder (inv_run counts sched) he hpc

/-- the buffer lock is held exactly by the emitter that is between its take and its release, and
that emitter also holds the seq lock (the locks nest) -/
theorem buf_holder_iff (counts : List Nat) (sched : List Nat) (i : Nat) :
    (run true counts sched).bufHolder = some i ↔
      ∃ e, (run true counts sched).es[i]? = some e ∧ 3 ≤ e.pc := by
  constructor
  · intro hs
    cases inv_run counts sched with
    | idle b hsum hseq hbuf hnext hp hr hpc => rw [hbuf] at hs; cases hs
    | busy b h0 e hsum hi hseq hother hleft hph =>
      rcases hph with ⟨h, hb, _⟩ | ⟨h, hb, _⟩ | ⟨h, hb, _⟩ | ⟨h, hb, _⟩ | ⟨h, hb, _⟩ <;>
        rw [hb] at hs <;> cases hs <;> exact ⟨e, hi, by omega⟩
  · rintro ⟨e, he, hpc⟩
    cases inv_run counts sched with
    | idle b hsum hseq hbuf hnext hp hr hpc0 => have := hpc0 i e he; omega
    | busy b h0 e0 hsum hi hseq hother hleft hph =>
      by_cases hne : i = h0
      · subst hne
        rw [he] at hi; cases hi
        rcases hph with ⟨h, hb, _⟩ | ⟨h, hb, _⟩ | ⟨h, hb, _⟩ | ⟨h, hb, _⟩ | ⟨h, hb, _⟩ <;>
          first | exact hb | omega
      · have := hother i e he hne; omega

theorem buf_holder_holds_seq (counts : List Nat) (sched : List Nat) (i : Nat)
    (h : (run true counts sched).bufHolder = some i) : (run true counts sched).seqHolder = some i := by
  obtain ⟨e, he, hpc⟩ := (buf_holder_iff counts sched i).mp h
  exact (seq_holder_iff counts sched i).mpr ⟨e, he, by omega⟩

/-- the pc stays in range, and an emitter with nothing left to emit is idle -/
theorem pc_range (counts : List Nat) (sched : List Nat) (i : Nat) (e : E)
    (he : (run true counts sched).es[i]? = some e) : e.pc ≤ 5 ∧ (e.left = 0 → e.pc = 0) := by
  cases inv_run counts sched with
  | idle b hsum hseq hbuf hnext hp hr hpc => have := hpc i e he; omega
  | busy b h0 e0 hsum hi hseq hother hleft hph =>
    by_cases hne : i = h0
    · subst hne
      rw [he] at hi; cases hi
      rcases hph with ⟨h, _⟩ | ⟨h, _⟩ | ⟨h, _⟩ | ⟨h, _⟩ | ⟨h, _⟩ <;> omega
    · have := hother i e he hne; omega

theorem allDone_iff (s : S) : allDone s = true ↔ ∀ (i : Nat) (e : E), s.es[i]? = some e → e.left = 0 := by
  simp only [allDone, List.all_eq_true, beq_iff_eq]
  constructor
  · intro h i e hi
    exact h e (List.mem_of_getElem? hi)
  · intro h e he
    obtain ⟨i, hi⟩ := List.mem_iff_getElem?.mp he
    exact h i e hi

theorem inv_complete {total : Nat} {s : S} (h : Inv total s) (hd : allDone s = true) :
    s.published = List.range total ∧ s.recorded = List.range total := by
  rw [allDone_iff] at hd
  cases h with
  | idle b hsum hseq hbuf hnext hp hr hpc =>
    have h0 : sumLeft s.es = 0 := sumOf_eq_zero _ _ hd
    have : b = total := by omega
    subst this
    exact ⟨hp, hr⟩
  | busy b i e hsum hi hseq hother hleft hph => exact absurd (hd i e hi) hleft

/-- when everybody is done every frame went out exactly once, in order -/
theorem complete (counts : List Nat) (sched : List Nat) (hd : allDone (run true counts sched) = true) :
    (run true counts sched).published = List.range counts.sum ∧
    (run true counts sched).recorded = List.range counts.sum :=
  inv_complete (inv_run counts sched) hd

/-! ### no deadlock -/

/-- work still to do by one emitter: six transitions per frame, minus those of the current frame -/
def ecost (e : E) : Nat := 6 * e.left - e.pc

def cost (s : S) : Nat := sumOf ecost s.es

theorem cost_setE {s s' : S} {i : Nat} {e e' : E} (hi : s.es[i]? = some e)
    (hes : s'.es = s.es.set i e') (hlt : ecost e' < ecost e) : cost s' < cost s := by
  have := sumOf_set ecost s.es i e e' hi
  simp only [cost, hes]; omega

/-- whenever somebody still has a frame to emit, some emitter can move and its step is progress:
the holder of the seq lock if there is one (it is never blocked: the buffer lock can only be held
by itself), otherwise any emitter with a frame left -/
theorem progress {total : Nat} {s : S} (h : Inv total s) (hd : ¬ allDone s = true) :
    ∃ i, cost (step true s i) < cost s := by
  cases h with
  | idle b hsum hseq hbuf hnext hp hr hpc =>
    rw [allDone_iff] at hd
    have : ∃ (i : Nat) (e : E), s.es[i]? = some e ∧ e.left ≠ 0 := by
      apply Classical.byContradiction
      intro hn
      apply hd
      intro i e hi
      apply Classical.byContradiction
      intro hl
      exact hn ⟨i, e, hi, hl⟩
    obtain ⟨i, e, hi, hl⟩ := this
    have hpc0 := hpc i e hi
    have hs : step true s i = setE { s with seqHolder := some i } i { e with pc := 1 } := by
      simp [step, hi, hl, hpc0, hseq]
    refine ⟨i, ?_⟩
    rw [hs]
    refine cost_setE hi rfl ?_
    simp only [ecost]; omega
  | busy b i e hsum hi hseq hother hl hph =>
    refine ⟨i, ?_⟩
    rcases hph with ⟨hpc, hbuf, _⟩ | ⟨hpc, hbuf, _⟩ | ⟨hpc, hbuf, _⟩ | ⟨hpc, hbuf, _⟩ |
      ⟨hpc, hbuf, _⟩
    · have hs : step true s i = setE { s with next := s.next + 1 } i
          { e with pc := 2, drawn := s.next } := by
        simp [step, hi, hl, hpc]
      rw [hs]
      refine cost_setE hi rfl ?_
      simp only [ecost]; omega
    · have hs : step true s i = setE { s with bufHolder := some i } i { e with pc := 3 } := by
        simp [step, hi, hl, hpc, hbuf]
      rw [hs]
      refine cost_setE hi rfl ?_
      simp only [ecost]; omega
    · have hs : step true s i = setE { s with published := s.published ++ [e.drawn] } i
          { e with pc := 4 } := by
        simp [step, hi, hl, hpc]
      rw [hs]
      refine cost_setE hi rfl ?_
      simp only [ecost]; omega
    · have hs : step true s i = setE { s with recorded := s.recorded ++ [e.drawn] } i
          { e with pc := 5 } := by
        simp [step, hi, hl, hpc]
      rw [hs]
      refine cost_setE hi rfl ?_
      simp only [ecost]; omega
    · have hs : step true s i = setE { s with bufHolder := none, seqHolder := none } i
          { e with pc := 0, left := e.left - 1 } := by
        simp [step, hi, hl, hpc]
      rw [hs]
      refine cost_setE hi rfl ?_
      simp only [ecost]; omega

theorem finish_from {total : Nat} : ∀ (n : Nat) (s : S), Inv total s → cost s ≤ n →
    ∃ more : List Nat, allDone (more.foldl (step true) s) = true := by
  intro n
  induction n with
  | zero =>
    intro s h hc
    by_cases hd : allDone s = true
    · exact ⟨[], hd⟩
    · obtain ⟨i, hi⟩ := progress h hd
      omega
  | succ n ih =>
    intro s h hc
    by_cases hd : allDone s = true
    · exact ⟨[], hd⟩
    · obtain ⟨i, hi⟩ := progress h hd
      obtain ⟨more, hm⟩ := ih (step true s i) (inv_step h i) (by omega)
      exact ⟨i :: more, hm⟩

/-- no deadlock: every reachable state can run to completion -/
theorem can_finish (counts : List Nat) (sched : List Nat) :
    ∃ more, allDone (run true counts (sched ++ more)) = true := by
  obtain ⟨more, hm⟩ := finish_from (cost (run true counts sched)) _ (inv_run counts sched) (Nat.le_refl _)
  refine ⟨more, ?_⟩
  simpa [run, List.foldl_append] using hm

end Rip.Emitters
