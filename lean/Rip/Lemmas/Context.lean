import Rip.Model.Context
/-!
C08 lemmas: the context compiler's cut point, the selection of recent messages, the irrelevance of
frames appended after the cut point, the independence from the read path that supplied the frames,
and the summary hierarchy.
-/
namespace Rip.Context

/-! ### generic list facts -/

/-- on a list along which `p` can only switch from true to false, `takeWhile p` is `filter p` -/
theorem takeWhile_eq_filter_of_pairwise {α : Type} (p : α → Bool) :
    ∀ (l : List α), l.Pairwise (fun a b => p b = true → p a = true) → l.takeWhile p = l.filter p
  | [], _ => rfl
  | x :: xs, h => by
    have hx := @List.rel_of_pairwise_cons _ _ _ _ h
    have hxs := (List.pairwise_cons.1 h).2
    cases hp : p x with
    | true =>
      rw [List.takeWhile_cons, List.filter_cons]
      simp only [hp, if_true]
      rw [takeWhile_eq_filter_of_pairwise p xs hxs]
    | false =>
      have hnil : xs.filter p = [] := by
        rw [List.filter_eq_nil_iff]
        intro a ha hpa
        have := hx ha hpa
        rw [hp] at this
        cases this
      rw [List.takeWhile_cons, List.filter_cons]
      simp [hp, hnil]

/-- frames after which `p` is false everywhere do not change `takeWhile p` -/
theorem takeWhile_append_of_neg {α : Type} (p : α → Bool) (l₂ : List α) (h : ∀ x ∈ l₂, p x = false) :
    ∀ (l₁ : List α), (l₁ ++ l₂).takeWhile p = l₁.takeWhile p
  | [] => by
    cases l₂ with
    | nil => rfl
    | cons y ys => simp [h y (List.mem_cons_self)]
  | x :: xs => by
    rw [List.cons_append, List.takeWhile_cons, List.takeWhile_cons, takeWhile_append_of_neg p l₂ h xs]

theorem dropWhile_eq_cons_iff {α : Type} (p : α → Bool) : ∀ (l : List α) (a : α) (rest : List α),
    l.dropWhile p = a :: rest ↔ ∃ pre, l = pre ++ a :: rest ∧ (∀ x ∈ pre, p x = true) ∧ p a = false := by
  intro l a rest
  constructor
  · induction l with
    | nil => intro h; cases h
    | cons x xs ih =>
      intro h
      rw [List.dropWhile_cons] at h
      cases hp : p x with
      | true =>
        simp only [hp, if_true] at h
        obtain ⟨pre, h1, h2, h3⟩ := ih h
        refine ⟨x :: pre, by rw [h1]; rfl, ?_, h3⟩
        intro y hy
        rcases List.mem_cons.1 hy with rfl | hy
        · exact hp
        · exact h2 y hy
      | false =>
        simp only [hp] at h
        injection h with h1 h2
        subst h1; subst h2
        exact ⟨[], rfl, fun y hy => (by cases hy), hp⟩
  · rintro ⟨pre, rfl, h2, h3⟩
    rw [List.dropWhile_append_of_pos h2, List.dropWhile_cons]
    simp [h3]

theorem dropWhile_eq_nil_iff {α : Type} (p : α → Bool) : ∀ (l : List α),
    l.dropWhile p = [] ↔ ∀ x ∈ l, p x = true
  | [] => by simp
  | x :: xs => by
    rw [List.dropWhile_cons]
    cases hp : p x with
    | true => simp [hp, dropWhile_eq_nil_iff p xs]
    | false => simp [hp]

theorem filterMap_filter_of_none {α β : Type} (g : α → Option β) (q : α → Bool)
    (h : ∀ x, q x = false → g x = none) : ∀ (l : List α), (l.filter q).filterMap g = l.filterMap g
  | [] => rfl
  | x :: xs => by
    cases hq : q x with
    | true =>
      rw [List.filter_cons_of_pos hq, List.filterMap_cons, List.filterMap_cons,
        filterMap_filter_of_none g q h xs]
    | false =>
      rw [List.filter_cons_of_neg (by simp [hq]), List.filterMap_cons, h x hq,
        filterMap_filter_of_none g q h xs]

/-! ### valid threads -/

/-- seqs strictly increase along the thread -/
def Increasing (evs : List F) : Prop := evs.Pairwise (fun a b => a.seq < b.seq)

theorem Valid.increasing {evs : List F} (hv : Valid evs) : Increasing evs := by
  unfold Increasing
  rw [List.pairwise_iff_getElem]
  intro i j hi hj hij
  rw [hv i hi, hv j hj]
  exact hij

theorem Increasing.left {evs later : List F} (h : Increasing (evs ++ later)) : Increasing evs :=
  (List.pairwise_append.1 h).1

theorem Increasing.right {evs later : List F} (h : Increasing (evs ++ later)) : Increasing later :=
  (List.pairwise_append.1 h).2.1

theorem Increasing.filter {evs : List F} (h : Increasing evs) (q : F → Bool) : Increasing (evs.filter q) :=
  List.Pairwise.filter q h

theorem Increasing.takeWhile_le {evs : List F} (h : Increasing evs) (f : Nat) :
    evs.takeWhile (fun x => decide (x.seq ≤ f)) = evs.filter (fun x => decide (x.seq ≤ f)) := by
  apply takeWhile_eq_filter_of_pairwise
  refine List.Pairwise.imp ?_ h
  intro a b hab hb
  simp only [decide_eq_true_eq] at hb ⊢
  omega

theorem Valid.left {evs later : List F} (hv : Valid (evs ++ later)) : Valid evs := by
  intro i h
  have := hv i (by rw [List.length_append]; omega)
  rwa [List.getElem_append_left h] at this

theorem Valid.seq_lt {evs : List F} (hv : Valid evs) {f : F} (hf : f ∈ evs) : f.seq < evs.length := by
  obtain ⟨i, hi, rfl⟩ := List.mem_iff_getElem.1 hf
  rw [hv i hi]; exact hi

theorem Valid.le_seq_right {evs later : List F} (hv : Valid (evs ++ later)) {f : F} (hf : f ∈ later) :
    evs.length ≤ f.seq := by
  obtain ⟨i, hi, rfl⟩ := List.mem_iff_getElem.1 hf
  have h2 : evs.length + i < (evs ++ later).length := by rw [List.length_append]; omega
  have := hv (evs.length + i) h2
  rw [List.getElem_append_right (by omega)] at this
  simp only [Nat.add_sub_cancel_left] at this
  omega

theorem headSeq_valid {evs : List F} (hv : Valid evs) (hne : evs ≠ []) : headSeq evs = evs.length - 1 := by
  have hl : evs.length - 1 < evs.length := by
    have := List.length_pos_iff.2 hne; omega
  unfold headSeq
  rw [List.getLast?_eq_getElem?, List.getElem?_eq_getElem hl]
  simp [hv _ hl]

theorem Valid.seq_le_headSeq {evs : List F} (hv : Valid evs) {f : F} (hf : f ∈ evs) : f.seq ≤ headSeq evs := by
  have hne : evs ≠ [] := List.ne_nil_of_mem hf
  rw [headSeq_valid hv hne]
  have := hv.seq_lt hf
  omega

theorem messages_append (evs later : List F) : messages (evs ++ later) = messages evs ++ messages later := by
  unfold messages; exact List.filter_append ..

theorem messages_sublist (evs : List F) : (messages evs).Sublist evs := List.filter_sublist

theorem mem_messages {evs : List F} {m : F} : m ∈ messages evs ↔ m ∈ evs ∧ m.isMessage = true := by
  unfold messages; exact List.mem_filter

/-! ### A. the selected messages are exactly the most recent ones in range, oldest first -/

/-- a suffix: nothing newer is skipped -/
theorem selectRecent_suffix (evs : List F) (f : Nat) (a : Option Nat) (l : Nat) :
    selectRecent evs f a l <:+ (messages evs).filter (inRange f a) := by
  unfold selectRecent
  exact List.drop_suffix _ _

theorem selectRecent_length (evs : List F) (f : Nat) (a : Option Nat) (l : Nat) :
    (selectRecent evs f a l).length = min l ((messages evs).filter (inRange f a)).length := by
  unfold selectRecent
  simp only [List.length_drop]
  omega

theorem selectRecent_mem (evs : List F) (f : Nat) (a : Option Nat) (l : Nat) (m : F)
    (h : m ∈ selectRecent evs f a l) :
    m ∈ evs ∧ m.isMessage = true ∧ m.seq ≤ f ∧ (∀ x, a = some x → x < m.seq) := by
  have h1 := (selectRecent_suffix evs f a l).mem h
  obtain ⟨h2, h3⟩ := List.mem_filter.1 h1
  obtain ⟨h4, h5⟩ := mem_messages.1 h2
  unfold inRange at h3
  simp only [Bool.and_eq_true, decide_eq_true_eq] at h3
  refine ⟨h4, h5, h3.1, ?_⟩
  intro x hx
  subst hx
  simpa using h3.2

/-- thread order, oldest first -/
theorem selectRecent_sublist (evs : List F) (f : Nat) (a : Option Nat) (l : Nat) :
    (selectRecent evs f a l).Sublist evs :=
  ((selectRecent_suffix evs f a l).sublist.trans List.filter_sublist).trans (messages_sublist evs)

/-- the selection is complete: a message in range that was not selected is older than every selected one
(with increasing seqs) -/
theorem selectRecent_complete (evs : List F) (hi : Increasing evs) (f : Nat) (a : Option Nat) (l : Nat) (m : F)
    (hm : m ∈ messages evs) (hr : inRange f a m = true) (hns : m ∉ selectRecent evs f a l) :
    ∀ s ∈ selectRecent evs f a l, m.seq < s.seq := by
  intro s hs
  obtain ⟨t, ht⟩ := selectRecent_suffix evs f a l
  have hmem : m ∈ t ++ selectRecent evs f a l := by
    rw [ht]; exact List.mem_filter.2 ⟨hm, hr⟩
  have hp : (t ++ selectRecent evs f a l).Pairwise (fun a b => a.seq < b.seq) := by
    rw [ht]; exact (hi.filter _).filter _
  rcases List.mem_append.1 hmem with h | h
  · exact (List.pairwise_append.1 hp).2.2 m h s hs
  · exact absurd h hns

/-! ### B. the cut point -/

theorem cutpoint_none_iff (evs : List F) (anchor : Nat) :
    cutpoint evs anchor = none ↔ ∀ m ∈ messages evs, m.id ≠ anchor := by
  unfold cutpoint
  split
  · rename_i h
    rw [dropWhile_eq_nil_iff] at h
    simp only [true_iff]
    intro m hm
    simpa using h m hm
  · rename_i a rest h
    simp only [reduceCtorEq, false_iff]
    intro hall
    obtain ⟨pre, h1, _, h3⟩ := (dropWhile_eq_cons_iff _ _ _ _).1 h
    have ha : a ∈ messages evs := by rw [h1]; simp
    exact hall a ha (by simpa using h3)

/-- when the anchor is the id of a message the cut lies between that message (the first one carrying the
id) and the head; more precisely it is the frame before the next message, or the head -/
theorem cutpoint_spec (evs : List F) (hv : Valid evs) (anchor : Nat) (c : Nat)
    (h : cutpoint evs anchor = some c) :
    ∃ m ∈ messages evs, m.id = anchor ∧ m.seq ≤ c ∧ c ≤ max m.seq (headSeq evs) := by
  unfold cutpoint at h
  split at h
  · cases h
  · rename_i a rest hd
    obtain ⟨pre, h1, _, h3⟩ := (dropWhile_eq_cons_iff _ _ _ _).1 hd
    have ha : a ∈ messages evs := by rw [h1]; simp
    refine ⟨a, ha, by simpa using h3, ?_⟩
    injection h with h
    subst h
    refine ⟨Nat.le_max_left _ _, ?_⟩
    cases rest with
    | nil => exact Nat.le_refl _
    | cons n post =>
      have hn : n ∈ messages evs := by rw [h1]; simp
      have := hv.seq_le_headSeq (mem_messages.1 hn).1
      simp only
      omega

theorem cutpoint_of_dropWhile {evs : List F} {anchor : Nat} {a n : F} {post : List F}
    (h : (messages evs).dropWhile (fun f => f.id != anchor) = a :: n :: post) :
    cutpoint evs anchor = some (max a.seq (n.seq - 1)) := by
  unfold cutpoint; rw [h]

/-- the anchor's message and a later message are both in `evs`: dropping the messages before the first
one that carries the anchor id leaves at least two -/
def HasNext (evs : List F) (anchor : Nat) : Prop :=
  ∃ a n post, (messages evs).dropWhile (fun f => f.id != anchor) = a :: n :: post

theorem hasNext_iff (evs : List F) (anchor : Nat) :
    HasNext evs anchor ↔
      ∃ pre a n post, messages evs = pre ++ a :: n :: post ∧ a.id = anchor ∧ (∀ x ∈ pre, x.id ≠ anchor) := by
  unfold HasNext
  constructor
  · rintro ⟨a, n, post, h⟩
    obtain ⟨pre, h1, h2, h3⟩ := (dropWhile_eq_cons_iff _ _ _ _).1 h
    exact ⟨pre, a, n, post, h1, by simpa using h3, fun x hx => by simpa using h2 x hx⟩
  · rintro ⟨pre, a, n, post, h1, h2, h3⟩
    exact ⟨a, n, post, (dropWhile_eq_cons_iff _ _ _ _).2
      ⟨pre, h1, fun x hx => by simpa using h3 x hx, by simpa using h2⟩⟩

/-- with a later message present, the cut is the frame just before the first message after the anchor:
`c + 1` is that message's seq -/
theorem cutpoint_next (evs : List F) (hi : Increasing evs) (anchor : Nat) (a n : F) (post : List F)
    (h : (messages evs).dropWhile (fun f => f.id != anchor) = a :: n :: post) :
    a.seq < n.seq ∧ cutpoint evs anchor = some (n.seq - 1) ∧ n.seq - 1 + 1 = n.seq := by
  have hlt : a.seq < n.seq := by
    have hm : Increasing (messages evs) := hi.filter _
    have hs : ((messages evs).dropWhile (fun f => f.id != anchor)).Pairwise (fun a b => a.seq < b.seq) :=
      List.Pairwise.sublist (List.dropWhile_suffix _).sublist hm
    rw [h] at hs
    exact List.rel_of_pairwise_cons hs List.mem_cons_self
  refine ⟨hlt, ?_, by omega⟩
  rw [cutpoint_of_dropWhile h]
  congr 1
  omega

/-- with no later message the cut is the head -/
theorem cutpoint_last (evs : List F) (hv : Valid evs) (anchor : Nat) (a : F)
    (h : (messages evs).dropWhile (fun f => f.id != anchor) = [a]) :
    cutpoint evs anchor = some (headSeq evs) := by
  have ha : a ∈ messages evs := (List.dropWhile_suffix _).mem (by rw [h]; simp)
  have := hv.seq_le_headSeq (mem_messages.1 ha).1
  unfold cutpoint; rw [h]
  simp only
  congr 1
  omega

/-! ### C. frames appended after the cut point do not matter -/

theorem checkpoints_append (s : Bool) (evs later : List F) (c : Nat) :
    checkpoints s (evs ++ later) c = checkpoints s evs c ++ checkpoints s later c := by
  unfold checkpoints; exact List.filterMap_append

theorem selectRecent_append_of_after (evs later : List F) (c : Nat) (a : Option Nat) (l : Nat)
    (h : ∀ f ∈ later, c < f.seq) :
    selectRecent (evs ++ later) c a l = selectRecent evs c a l := by
  have hnil : (messages later).filter (inRange c a) = [] := by
    rw [List.filter_eq_nil_iff]
    intro m hm
    have := h m (mem_messages.1 hm).1
    unfold inRange
    simp only [Bool.and_eq_true, decide_eq_true_eq, not_and]
    omega
  unfold selectRecent
  simp only [messages_append, List.filter_append, hnil, List.append_nil]

/-- the inner function of `endedFor` -/
def endedG (mid : Nat) (f : F) : Option Nat :=
  match f.kind with
  | .runEnded m s => if m == mid then some s else none
  | _ => none

theorem endedFor_eq (evs : List F) (f mid : Nat) :
    endedFor evs f mid = ((evs.takeWhile (fun x => decide (x.seq ≤ f))).filterMap (endedG mid)).getLast? := rfl

theorem endedFor_append_of_after (evs later : List F) (c mid : Nat) (h : ∀ f ∈ later, c < f.seq) :
    endedFor (evs ++ later) c mid = endedFor evs c mid := by
  rw [endedFor_eq, endedFor_eq, takeWhile_append_of_neg]
  intro x hx
  have := h x hx
  simp only [decide_eq_false_iff_not]
  omega

theorem messageItems_congr (evs evs' : List F) (c c' : Nat) (reply : Nat → Nat) (sel : List F)
    (h : ∀ m ∈ sel, endedFor evs c m.id = endedFor evs' c' m.id) :
    messageItems evs c reply sel = messageItems evs' c' reply sel := by
  unfold messageItems
  congr 1
  apply List.map_congr_left
  intro m hm
  rw [h m hm]

/-- the common core of C: what is appended after the cut changes nothing, provided it contributes no
checkpoint -/
theorem compile_append_of (s : Bool) (evs later : List F) (hv : Valid (evs ++ later)) (anchor : Nat)
    (hn : HasNext evs anchor) (reply : Nat → Nat)
    (hl : ∀ c, cutpoint evs anchor = some c → (∀ f ∈ later, c < f.seq) → checkpoints s later c = []) :
    compile s (evs ++ later) anchor reply = compile s evs anchor reply := by
  obtain ⟨a, n, post, hd⟩ := hn
  obtain ⟨hlt, hcut, _⟩ := cutpoint_next evs hv.left.increasing anchor a n post hd
  -- the cut is found inside `evs`
  obtain ⟨pre, h1, h2, h3⟩ := (dropWhile_eq_cons_iff _ _ _ _).1 hd
  have hd' : (messages (evs ++ later)).dropWhile (fun f => f.id != anchor) = a :: n :: (post ++ messages later) :=
    (dropWhile_eq_cons_iff _ _ _ _).2 ⟨pre, by rw [messages_append, h1]; simp, h2, h3⟩
  obtain ⟨_, hcut', _⟩ := cutpoint_next (evs ++ later) hv.increasing anchor a n _ hd'
  -- every later frame lies after the cut
  have hnmem : n ∈ evs := by
    have : n ∈ messages evs := by rw [h1]; simp
    exact (mem_messages.1 this).1
  have hnlt := hv.left.seq_lt hnmem
  have hafter : ∀ f ∈ later, n.seq - 1 < f.seq := by
    intro f hf
    have := hv.le_seq_right hf
    omega
  have hcp : checkpoints s (evs ++ later) (n.seq - 1) = checkpoints s evs (n.seq - 1) := by
    rw [checkpoints_append, hl _ hcut hafter, List.append_nil]
  have hmi : ∀ sel, messageItems (evs ++ later) (n.seq - 1) reply sel = messageItems evs (n.seq - 1) reply sel :=
    fun sel => messageItems_congr _ _ _ _ _ _ (fun m _ => endedFor_append_of_after _ _ _ _ hafter)
  unfold compile
  rw [hcut, hcut']
  simp only [hcp, hmi, selectRecent_append_of_after _ _ _ _ _ hafter]

/-- repaired semantics (`strictCut = true`): frames appended after the cut point do not matter -/
theorem later_frames_irrelevant (evs later : List F) (hv : Valid (evs ++ later)) (anchor : Nat)
    (hn : HasNext evs anchor) (reply : Nat → Nat) :
    compile true (evs ++ later) anchor reply = compile true evs anchor reply := by
  apply compile_append_of true evs later hv anchor hn reply
  intro c _ hafter
  unfold checkpoints
  rw [List.filterMap_eq_nil_iff]
  intro f hf
  have := hafter f hf
  split
  · rw [if_neg]
    simp only [Bool.not_true, Bool.false_or, Bool.and_eq_true, decide_eq_true_eq, not_and]
    omega
  · rfl

/-- the code as it is (`strictCut = false`): true when no later checkpoint frame summarises up to the cut
or before -/
theorem later_frames_irrelevant_partial (evs later : List F) (hv : Valid (evs ++ later)) (anchor : Nat)
    (hn : HasNext evs anchor) (reply : Nat → Nat) (c : Nat) (hc : cutpoint evs anchor = some c)
    (hl : ∀ f ∈ later, ∀ cp t cum a, f.kind = .checkpoint cp t cum a → c < t) :
    compile false (evs ++ later) anchor reply = compile false evs anchor reply := by
  apply compile_append_of false evs later hv anchor hn reply
  intro c' hc' _
  rw [hc] at hc'
  injection hc' with hc'
  subst hc'
  unfold checkpoints
  rw [List.filterMap_eq_nil_iff]
  intro f hf
  split
  · rename_i cp t cum a hk
    have := hl f hf cp t cum a hk
    rw [if_neg]
    simp only [Bool.not_false, Bool.true_or, Bool.and_true, decide_eq_true_eq]
    omega
  · rfl

/-! ### D. which read path supplied the frames does not matter -/

/-- the projection the fast read paths hand to the compiler: message and run_ended frames only -/
def isMR (f : F) : Bool := match f.kind with | .message _ => true | .runEnded _ _ => true | _ => false

theorem messages_filter_isMR (evs : List F) : messages (evs.filter isMR) = messages evs := by
  unfold messages
  rw [List.filter_filter]
  apply List.filter_congr
  intro x _
  unfold F.isMessage isMR
  cases x.kind <;> rfl

theorem mr_selectRecent (evs : List F) (f : Nat) (a : Option Nat) (l : Nat) :
    selectRecent (evs.filter isMR) f a l = selectRecent evs f a l := by
  unfold selectRecent; rw [messages_filter_isMR]

theorem endedG_none_of_not_isMR (mid : Nat) (x : F) (h : isMR x = false) : endedG mid x = none := by
  unfold isMR at h; unfold endedG
  cases hk : x.kind <;> simp_all

theorem mr_endedFor_of_increasing (evs : List F) (hi : Increasing evs) (f mid : Nat) :
    endedFor (evs.filter isMR) f mid = endedFor evs f mid := by
  rw [endedFor_eq, endedFor_eq, (hi.filter isMR).takeWhile_le f, hi.takeWhile_le f,
    List.filter_filter]
  have : (evs.filter (fun x => decide (x.seq ≤ f) && isMR x))
      = (evs.filter (fun x => decide (x.seq ≤ f))).filter isMR := by
    rw [List.filter_filter]
    apply List.filter_congr
    intro x _
    exact Bool.and_comm _ _
  rw [this, filterMap_filter_of_none _ _ (endedG_none_of_not_isMR mid)]

theorem mr_endedFor (evs : List F) (hv : Valid evs) (f mid : Nat) :
    endedFor (evs.filter isMR) f mid = endedFor evs f mid :=
  mr_endedFor_of_increasing evs hv.increasing f mid

theorem mr_messageItems (evs : List F) (hv : Valid evs) (f : Nat) (reply : Nat → Nat) (sel : List F) :
    messageItems (evs.filter isMR) f reply sel = messageItems evs f reply sel :=
  messageItems_congr _ _ _ _ _ _ (fun m _ => mr_endedFor evs hv f m.id)

/-- a suffix window that still holds `limit` messages in range selects the same messages -/
theorem window_selectRecent (pre win : List F) (f : Nat) (a : Option Nat) (l : Nat)
    (h : l ≤ ((messages win).filter (inRange f a)).length) :
    selectRecent (pre ++ win) f a l = selectRecent win f a l := by
  unfold selectRecent
  simp only [messages_append, List.filter_append, List.length_append]
  generalize (messages pre).filter (inRange f a) = A at *
  generalize (messages win).filter (inRange f a) = B at *
  have : A.length + B.length - l = A.length + (B.length - l) := by omega
  rw [this, List.drop_append, List.drop_eq_nil_of_le (Nat.le_add_right _ _), Nat.add_sub_cancel_left,
    List.nil_append]

/-- … and a window that holds every message in range (e.g. it reaches back past the summary checkpoint) too -/
theorem window_selectRecent_all (pre win : List F) (f : Nat) (a : Option Nat) (l : Nat)
    (h : ∀ m ∈ messages pre, inRange f a m = false) :
    selectRecent (pre ++ win) f a l = selectRecent win f a l := by
  have hnil : (messages pre).filter (inRange f a) = [] := by
    rw [List.filter_eq_nil_iff]
    intro m hm
    rw [h m hm]; simp
  unfold selectRecent
  simp only [messages_append, List.filter_append, hnil, List.nil_append]

theorem window_endedFor_of_increasing (pre win : List F) (hi : Increasing (pre ++ win)) (f mid : Nat)
    (h : ∀ x ∈ pre, ∀ s, x.kind ≠ .runEnded mid s) :
    endedFor (pre ++ win) f mid = endedFor win f mid := by
  rw [endedFor_eq, endedFor_eq, hi.takeWhile_le f, hi.right.takeWhile_le f, List.filter_append,
    List.filterMap_append]
  have hnil : (pre.filter (fun x => decide (x.seq ≤ f))).filterMap (endedG mid) = [] := by
    rw [List.filterMap_eq_nil_iff]
    intro x hx
    have hx' := (List.mem_filter.1 hx).1
    unfold endedG
    split
    · rename_i m s hk
      by_cases hm : m = mid
      · subst hm; exact absurd hk (h x hx' s)
      · simp [hm]
    · rfl
  rw [hnil, List.nil_append]

/-- replies: a run_ended frame lies after its message, so for a message inside the window the answer is
found inside the window -/
theorem window_endedFor (pre win : List F) (hv : Valid (pre ++ win)) (f mid : Nat)
    (h : ∀ x ∈ pre, ∀ s, x.kind ≠ .runEnded mid s) :
    endedFor (pre ++ win) f mid = endedFor win f mid :=
  window_endedFor_of_increasing pre win hv.increasing f mid h

/-! ### E. the summary hierarchy -/

/-- ascending by to_seq, one entry per to_seq -/
def SortedTo (l : List Cp) : Prop := l.Pairwise (fun a b => a.toSeq < b.toSeq)

theorem mem_insertByToSeq (c : Cp) : ∀ (acc : List Cp) (u : Cp), u ∈ insertByToSeq c acc → u = c ∨ u ∈ acc
  | [], u, h => by
    simp only [insertByToSeq, List.mem_singleton] at h
    exact Or.inl h
  | d :: ds, u, h => by
    unfold insertByToSeq at h
    split at h
    · rcases List.mem_cons.1 h with h | h
      · exact Or.inl h
      · exact Or.inr h
    · split at h
      · split at h
        · rcases List.mem_cons.1 h with h | h
          · exact Or.inl h
          · exact Or.inr (List.mem_cons_of_mem _ h)
        · exact Or.inr h
      · rcases List.mem_cons.1 h with h | h
        · exact Or.inr (h ▸ List.mem_cons_self)
        · rcases mem_insertByToSeq c ds u h with h | h
          · exact Or.inl h
          · exact Or.inr (List.mem_cons_of_mem _ h)

theorem insertByToSeq_sorted (c : Cp) : ∀ (acc : List Cp), SortedTo acc → SortedTo (insertByToSeq c acc)
  | [], _ => by simp [insertByToSeq, SortedTo]
  | d :: ds, hs => by
    have hd : ∀ x ∈ ds, d.toSeq < x.toSeq := fun x hx => List.rel_of_pairwise_cons hs hx
    have hds : SortedTo ds := (List.pairwise_cons.1 hs).2
    unfold insertByToSeq
    split
    · rename_i hlt
      refine List.pairwise_cons.2 ⟨?_, hs⟩
      intro x hx
      rcases List.mem_cons.1 hx with rfl | hx
      · exact hlt
      · exact Nat.lt_trans hlt (hd x hx)
    · split
      · rename_i _ heq
        have heq : c.toSeq = d.toSeq := by simpa using heq
        split
        · refine List.pairwise_cons.2 ⟨?_, hds⟩
          intro x hx
          rw [heq]; exact hd x hx
        · exact hs
      · rename_i hnlt hneq
        have hneq : c.toSeq ≠ d.toSeq := by simpa using hneq
        refine List.pairwise_cons.2 ⟨?_, insertByToSeq_sorted c ds hds⟩
        intro x hx
        rcases mem_insertByToSeq c ds x hx with rfl | hx
        · omega
        · exact hd x hx

/-- what `insertByToSeq` keeps: the new entry only if it beats every entry with its to_seq, an old entry
only if the new one does not beat it -/
theorem insertByToSeq_spec (c : Cp) : ∀ (acc : List Cp), SortedTo acc → ∀ u ∈ insertByToSeq c acc,
    (u = c ∧ ∀ d ∈ acc, d.toSeq = c.toSeq → d.frameSeq ≤ c.frameSeq) ∨
    (u ∈ acc ∧ (u.toSeq = c.toSeq → c.frameSeq ≤ u.frameSeq))
  | [], _, u, h => by
    simp only [insertByToSeq, List.mem_singleton] at h
    exact Or.inl ⟨h, fun d hd => by cases hd⟩
  | d :: ds, hs, u, h => by
    have hd : ∀ x ∈ ds, d.toSeq < x.toSeq := fun x hx => List.rel_of_pairwise_cons hs hx
    have hds : SortedTo ds := (List.pairwise_cons.1 hs).2
    unfold insertByToSeq at h
    split at h
    · rename_i hlt
      rcases List.mem_cons.1 h with h | h
      · refine Or.inl ⟨h, ?_⟩
        intro x hx hxe
        rcases List.mem_cons.1 hx with rfl | hx
        · omega
        · have := hd x hx; omega
      · refine Or.inr ⟨h, ?_⟩
        intro hue
        rcases List.mem_cons.1 h with rfl | h
        · omega
        · have := hd u h; omega
    · split at h
      · rename_i _ heq
        have heq : c.toSeq = d.toSeq := by simpa using heq
        split at h
        · rename_i hge
          rcases List.mem_cons.1 h with h | h
          · refine Or.inl ⟨h, ?_⟩
            intro x hx hxe
            rcases List.mem_cons.1 hx with rfl | hx
            · exact hge
            · have := hd x hx; omega
          · refine Or.inr ⟨List.mem_cons_of_mem _ h, ?_⟩
            intro hue
            have := hd u h; omega
        · rename_i hnge
          refine Or.inr ⟨h, ?_⟩
          intro hue
          rcases List.mem_cons.1 h with rfl | h
          · omega
          · have := hd u h; omega
      · rename_i hnlt hneq
        have hneq : c.toSeq ≠ d.toSeq := by simpa using hneq
        rcases List.mem_cons.1 h with rfl | h
        · refine Or.inr ⟨List.mem_cons_self, ?_⟩
          intro hue; omega
        · rcases insertByToSeq_spec c ds hds u h with ⟨h1, h2⟩ | ⟨h1, h2⟩
          · refine Or.inl ⟨h1, ?_⟩
            intro x hx hxe
            rcases List.mem_cons.1 hx with rfl | hx
            · omega
            · exact h2 x hx hxe
          · exact Or.inr ⟨List.mem_cons_of_mem _ h1, h2⟩

/-- every to_seq stays represented: that of the new entry … -/
theorem insertByToSeq_has (c : Cp) : ∀ (acc : List Cp), ∃ u ∈ insertByToSeq c acc, u.toSeq = c.toSeq
  | [] => ⟨c, by simp [insertByToSeq], rfl⟩
  | d :: ds => by
    unfold insertByToSeq
    split
    · exact ⟨c, List.mem_cons_self, rfl⟩
    · split
      · rename_i _ heq
        have heq : c.toSeq = d.toSeq := by simpa using heq
        split
        · exact ⟨c, List.mem_cons_self, rfl⟩
        · exact ⟨d, List.mem_cons_self, heq.symm⟩
      · obtain ⟨u, hu, hue⟩ := insertByToSeq_has c ds
        exact ⟨u, List.mem_cons_of_mem _ hu, hue⟩

/-- … and those of the old ones -/
theorem insertByToSeq_keeps (c : Cp) : ∀ (acc : List Cp) (x : Cp), x ∈ acc →
    ∃ u ∈ insertByToSeq c acc, u.toSeq = x.toSeq
  | [], x, hx => by cases hx
  | d :: ds, x, hx => by
    unfold insertByToSeq
    split
    · exact ⟨x, List.mem_cons_of_mem _ hx, rfl⟩
    · split
      · rename_i _ heq
        have heq : c.toSeq = d.toSeq := by simpa using heq
        split
        · rcases List.mem_cons.1 hx with rfl | hx
          · exact ⟨c, List.mem_cons_self, heq⟩
          · exact ⟨x, List.mem_cons_of_mem _ hx, rfl⟩
        · exact ⟨x, hx, rfl⟩
      · rcases List.mem_cons.1 hx with rfl | hx
        · exact ⟨x, List.mem_cons_self, rfl⟩
        · obtain ⟨u, hu, hue⟩ := insertByToSeq_keeps c ds x hx
          exact ⟨u, List.mem_cons_of_mem _ hu, hue⟩

/-- the invariant of the `uniqueByToSeq` fold: `acc` summarises the processed entries `done` -/
structure UniqueInv (done acc : List Cp) : Prop where
  sorted : SortedTo acc
  latest : ∀ u ∈ acc, u ∈ done ∧ ∀ c ∈ done, c.toSeq = u.toSeq → c.frameSeq ≤ u.frameSeq
  covers : ∀ c ∈ done, ∃ u ∈ acc, u.toSeq = c.toSeq

theorem UniqueInv.step {done acc : List Cp} (h : UniqueInv done acc) (c : Cp) :
    UniqueInv (done ++ [c]) (insertByToSeq c acc) := by
  refine ⟨insertByToSeq_sorted c acc h.sorted, ?_, ?_⟩
  · intro u hu
    rcases insertByToSeq_spec c acc h.sorted u hu with ⟨rfl, h2⟩ | ⟨h1, h2⟩
    · refine ⟨by simp, ?_⟩
      intro c' hc' he
      rcases List.mem_append.1 hc' with hc' | hc'
      · obtain ⟨u', hu', hue'⟩ := h.covers c' hc'
        have h3 := (h.latest u' hu').2 c' hc' hue'.symm
        have h4 := h2 u' hu' (hue'.trans he)
        omega
      · rw [List.mem_singleton.1 hc']; exact Nat.le_refl _
    · refine ⟨List.mem_append_left _ (h.latest u h1).1, ?_⟩
      intro c' hc' he
      rcases List.mem_append.1 hc' with hc' | hc'
      · exact (h.latest u h1).2 c' hc' he
      · rw [List.mem_singleton.1 hc'] at he ⊢
        exact h2 he.symm
  · intro c' hc'
    rcases List.mem_append.1 hc' with hc' | hc'
    · obtain ⟨u', hu', hue'⟩ := h.covers c' hc'
      obtain ⟨u, hu, hue⟩ := insertByToSeq_keeps c acc u' hu'
      exact ⟨u, hu, hue.trans hue'⟩
    · rw [List.mem_singleton.1 hc']
      exact insertByToSeq_has c acc

theorem UniqueInv.foldl : ∀ (cps done acc : List Cp), UniqueInv done acc →
    UniqueInv (done ++ cps) (cps.foldl (fun acc c => insertByToSeq c acc) acc)
  | [], done, acc, h => by simpa using h
  | c :: cs, done, acc, h => by
    have := UniqueInv.foldl cs (done ++ [c]) (insertByToSeq c acc) (h.step c)
    simpa [List.append_assoc] using this

theorem uniqueByToSeq_inv (cps : List Cp) : UniqueInv cps (uniqueByToSeq cps) := by
  have h0 : UniqueInv [] [] :=
    ⟨List.Pairwise.nil, fun u hu => (by cases hu), fun c hc => (by cases hc)⟩
  simpa [uniqueByToSeq] using UniqueInv.foldl cps [] [] h0

theorem uniqueByToSeq_sorted (cps : List Cp) :
    (uniqueByToSeq cps).Pairwise (fun a b => a.toSeq < b.toSeq) := (uniqueByToSeq_inv cps).sorted

/-- one entry per to_seq, and it is the latest frame among those with that to_seq -/
theorem uniqueByToSeq_latest_frame (cps : List Cp) (u : Cp) (hu : u ∈ uniqueByToSeq cps) :
    u ∈ cps ∧ ∀ c ∈ cps, c.toSeq = u.toSeq → c.frameSeq ≤ u.frameSeq :=
  (uniqueByToSeq_inv cps).latest u hu

/-- every to_seq of the input is represented -/
theorem uniqueByToSeq_covers (cps : List Cp) (c : Cp) (hc : c ∈ cps) :
    ∃ u ∈ uniqueByToSeq cps, u.toSeq = c.toSeq := (uniqueByToSeq_inv cps).covers c hc

theorem halving_length (unique : List Cp) : ∀ (fuel cur : Nat), (halving unique fuel cur).length ≤ fuel
  | 0, _ => by simp [halving]
  | fuel + 1, cur => by
    unfold halving
    split
    · simp
    · split
      · simp
      · split
        · simp
        · simp only [List.length_cons]
          exact Nat.succ_le_succ (halving_length unique fuel _)

theorem halving_mem (unique : List Cp) : ∀ (fuel cur : Nat) (c : Cp), c ∈ halving unique fuel cur →
    c ∈ unique ∧ c.toSeq ≤ cur / 2 ∧ 2 ≤ cur
  | 0, _, c, h => by simp [halving] at h
  | fuel + 1, cur, c, h => by
    unfold halving at h
    split at h
    · cases h
    · rename_i hcur
      split at h
      · cases h
      · rename_i d hd
        have hdm := List.mem_filter.1 (List.mem_of_getLast? hd)
        have hdle : d.toSeq ≤ cur / 2 := by simpa using hdm.2
        split at h
        · cases h
        · rcases List.mem_cons.1 h with rfl | h
          · exact ⟨hdm.1, hdle, by omega⟩
          · obtain ⟨h1, h2, h3⟩ := halving_mem unique fuel d.toSeq c h
            exact ⟨h1, by omega, by omega⟩

theorem halving_pairwise (unique : List Cp) : ∀ (fuel cur : Nat),
    (halving unique fuel cur).Pairwise (fun a b => b.toSeq ≤ a.toSeq / 2 ∧ b.toSeq < a.toSeq)
  | 0, _ => by simp [halving]
  | fuel + 1, cur => by
    unfold halving
    split
    · exact List.Pairwise.nil
    · split
      · exact List.Pairwise.nil
      · split
        · exact List.Pairwise.nil
        · rename_i d _ _
          refine List.pairwise_cons.2 ⟨?_, halving_pairwise unique fuel _⟩
          intro x hx
          obtain ⟨_, h2, h3⟩ := halving_mem unique fuel d.toSeq x hx
          exact ⟨h2, by omega⟩

/-- the shape of a non-empty hierarchy -/
theorem hierarchy_eq (cps : List Cp) (n : Nat) (hn : n ≠ 0) :
    hierarchy cps n =
      match (uniqueByToSeq (cps.filter (·.cumulative))).getLast? with
      | none => []
      | some latest =>
        (latest :: halving (uniqueByToSeq (cps.filter (·.cumulative))) (n - 1) latest.toSeq).reverse := by
  unfold hierarchy
  rw [if_neg hn]
  rfl

theorem hierarchy_length (cps : List Cp) (n : Nat) : (hierarchy cps n).length ≤ n := by
  by_cases hn : n = 0
  · simp [hierarchy, hn]
  · rw [hierarchy_eq cps n hn]
    split
    · simp
    · have := halving_length (uniqueByToSeq (cps.filter (·.cumulative))) (n - 1) ‹Cp›.toSeq
      simp only [List.length_reverse, List.length_cons]
      omega

theorem hierarchy_mem_unique (cps : List Cp) (n : Nat) (c : Cp) (h : c ∈ hierarchy cps n) :
    c ∈ uniqueByToSeq (cps.filter (·.cumulative)) := by
  by_cases hn : n = 0
  · simp [hierarchy, hn] at h
  · rw [hierarchy_eq cps n hn] at h
    split at h
    · cases h
    · rename_i latest hl
      rcases List.mem_cons.1 (List.mem_reverse.1 h) with rfl | h
      · exact List.mem_of_getLast? hl
      · exact (halving_mem _ _ _ _ h).1

theorem hierarchy_mem (cps : List Cp) (n : Nat) (c : Cp) (h : c ∈ hierarchy cps n) :
    c ∈ cps ∧ c.cumulative = true := by
  have := (uniqueByToSeq_latest_frame _ c (hierarchy_mem_unique cps n c h)).1
  exact List.mem_filter.1 this

/-- every summary in the hierarchy is the latest frame for its to_seq among the cumulative checkpoints -/
theorem hierarchy_latest_frame (cps : List Cp) (n : Nat) (c : Cp) (h : c ∈ hierarchy cps n) :
    ∀ d ∈ cps, d.cumulative = true → d.toSeq = c.toSeq → d.frameSeq ≤ c.frameSeq := by
  intro d hd hcum he
  exact (uniqueByToSeq_latest_frame _ c (hierarchy_mem_unique cps n c h)).2 d
    (List.mem_filter.2 ⟨hd, hcum⟩) he

theorem hierarchy_pairwise (cps : List Cp) (n : Nat) :
    (hierarchy cps n).Pairwise (fun a b => a.toSeq ≤ b.toSeq / 2 ∧ a.toSeq < b.toSeq) := by
  by_cases hn : n = 0
  · simp [hierarchy, hn]
  · rw [hierarchy_eq cps n hn]
    split
    · exact List.Pairwise.nil
    · rename_i latest _
      rw [List.pairwise_reverse]
      refine List.pairwise_cons.2 ⟨?_, halving_pairwise _ _ _⟩
      intro x hx
      obtain ⟨_, h2, h3⟩ := halving_mem _ _ _ x hx
      exact ⟨h2, by omega⟩

theorem hierarchy_sorted (cps : List Cp) (n : Nat) :
    (hierarchy cps n).Pairwise (fun a b => a.toSeq < b.toSeq) :=
  (hierarchy_pairwise cps n).imp (fun h => h.2)

/-- each level summarises at most half of what the next one does; stated for ALL pairs (which implies the
statement for adjacent levels, `hierarchy_halves_adjacent`) -/
theorem hierarchy_halves (cps : List Cp) (n : Nat) :
    (hierarchy cps n).Pairwise (fun a b => a.toSeq ≤ b.toSeq / 2) :=
  (hierarchy_pairwise cps n).imp (fun h => h.1)

theorem hierarchy_halves_adjacent (cps : List Cp) (n : Nat) (i : Nat) (h : i + 1 < (hierarchy cps n).length) :
    ((hierarchy cps n)[i]).toSeq ≤ ((hierarchy cps n)[i + 1]).toSeq / 2 :=
  List.pairwise_iff_getElem.1 (hierarchy_halves cps n) i (i + 1) (by omega) h (by omega)

theorem SortedTo.le_getLast {l : List Cp} (hs : SortedTo l) {x : Cp} (hx : l.getLast? = some x) :
    ∀ u ∈ l, u.toSeq ≤ x.toSeq := by
  obtain ⟨ys, rfl⟩ := List.getLast?_eq_some_iff.1 hx
  intro u hu
  rcases List.mem_append.1 hu with hu | hu
  · exact Nat.le_of_lt ((List.pairwise_append.1 hs).2.2 u hu x (by simp))
  · rw [List.mem_singleton.1 hu]; exact Nat.le_refl _

/-- the last (newest) level is the latest cumulative checkpoint -/
theorem hierarchy_last_is_latest (cps : List Cp) (n : Nat) (hn : 0 < n) (c : Cp) (hc : c ∈ cps)
    (hcum : c.cumulative = true) :
    ∃ l, (hierarchy cps n).getLast? = some l ∧ c.toSeq ≤ l.toSeq := by
  obtain ⟨u, hu, hue⟩ := uniqueByToSeq_covers (cps.filter (·.cumulative)) c (List.mem_filter.2 ⟨hc, hcum⟩)
  rw [hierarchy_eq cps n (by omega)]
  split
  · rename_i hnone
    rw [List.getLast?_eq_none_iff] at hnone
    rw [hnone] at hu
    cases hu
  · rename_i latest hl
    refine ⟨latest, by rw [List.getLast?_reverse, List.head?_cons], ?_⟩
    rw [← hue]
    exact SortedTo.le_getLast (uniqueByToSeq_sorted _) hl u hu

/-! ### non-vacuity: the hypotheses of the main theorems are satisfiable -/

section NonVacuity

private def evs₀ : List F := [⟨0, 100, .other⟩, ⟨1, 101, .message 7⟩, ⟨2, 102, .runEnded 101 1⟩, ⟨3, 103, .message 8⟩]
private def later₀ : List F := [⟨4, 104, .checkpoint 9 1 true 55⟩, ⟨5, 105, .runEnded 103 2⟩, ⟨6, 106, .message 9⟩]

instance Valid.decidable (l : List F) : Decidable (Valid l) := by unfold Valid; exact inferInstance

/-- `later_frames_irrelevant` applies to a concrete thread whose appended frames include a checkpoint
summarising up to before the cut (the case the unrepaired code gets wrong) -/
example : compile true (evs₀ ++ later₀) 101 (fun s => s + 1) = compile true evs₀ 101 (fun s => s + 1) :=
  later_frames_irrelevant evs₀ later₀ (by decide) 101
    ⟨⟨1, 101, .message 7⟩, ⟨3, 103, .message 8⟩, [], by decide⟩ _

example : compile true evs₀ 101 (fun s => s + 1) =
    some { fromSeq := 2, strategy := .recent, cause := .noCheckpoint, reset := false, selected := [],
           items := [.user 7 1 101, .assistant 2] } := by decide

example : compile false (evs₀ ++ later₀) 101 (fun s => s + 1) ≠ compile false evs₀ 101 (fun s => s + 1) := by
  decide

/-- a three-level hierarchy: to_seqs 40, 18 (≤ 40/2), 9 (≤ 18/2), capped at 3 levels (4 is not reached); the
non-cumulative entry (to_seq 50) and the older frame for to_seq 40 are ignored -/
example : (hierarchy
    [⟨1, 1, 9, true, 0⟩, ⟨2, 2, 18, true, 0⟩, ⟨3, 3, 40, true, 0⟩, ⟨4, 4, 50, false, 0⟩, ⟨5, 5, 40, true, 0⟩,
     ⟨6, 6, 4, true, 0⟩] 3).map (·.cpId) = [1, 2, 5] := by decide

end NonVacuity

end Rip.Context
