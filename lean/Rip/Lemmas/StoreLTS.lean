import Rip.Model.StoreLTS

/-!
C01 theorems about the truth-log writers LTS (`Rip.Model.StoreLTS`), repaired protocol
(`locked = true`: every effect of a `create` happens under the `next_seq` mutex, and an append to
a stream that has no frame, no map entry and is not known fails without writing).

* `validLog_iff`, `validLog_snoc`, `seqs_of_validLog`: what `validLog` means.
* `lock_exclusive`, `lock_holder`: the mutex is a mutex (no hypothesis on the programs).
* `seq_total_order`, `stream_seqs`, `seq_total_order_decl`: per-stream total order under any
  schedule, for programs with fresh thread ids (`FreshIds`), with no assumption on who addresses
  which thread when.
-/
namespace Rip.StoreLTS

/-! ### `count`, `lookup`, `setNext` -/

theorem count_nil (σ : Nat) : count [] σ = 0 := rfl

theorem count_append (l₁ l₂ : List (Nat × Nat)) (σ : Nat) :
    count (l₁ ++ l₂) σ = count l₁ σ + count l₂ σ := by
  simp [count, List.filter_append]

theorem count_snoc (log : List (Nat × Nat)) (σ k τ : Nat) :
    count (log ++ [(σ, k)]) τ = count log τ + (if σ = τ then 1 else 0) := by
  rw [count_append]
  by_cases h : σ = τ <;> simp [count, h]

theorem count_snoc_self (log : List (Nat × Nat)) (σ k : Nat) :
    count (log ++ [(σ, k)]) σ = count log σ + 1 := by
  simp [count_snoc]

theorem count_snoc_ne (log : List (Nat × Nat)) {σ τ : Nat} (k : Nat) (h : τ ≠ σ) :
    count (log ++ [(σ, k)]) τ = count log τ := by
  have : ¬ σ = τ := fun e => h e.symm
  simp [count_snoc, this]

theorem lookup_nil (σ : Nat) : lookup [] σ = none := rfl

theorem lookup_setNext (m : List (Nat × Nat)) (σ k τ : Nat) :
    lookup (setNext m σ k) τ = if τ = σ then some k else lookup m τ := by
  by_cases h : τ = σ
  · subst h
    simp [lookup, setNext]
  · have h' : ¬ σ = τ := fun e => h e.symm
    simp only [lookup, setNext, if_neg h]
    rw [List.find?_cons_of_neg (by simpa using h'), List.find?_filter]
    congr 2
    funext e
    by_cases he : e.1 = τ
    · simp [he, h]
    · simp [he]

theorem lookup_setNext_self (m : List (Nat × Nat)) (σ k : Nat) :
    lookup (setNext m σ k) σ = some k := by simp [lookup_setNext]

theorem lookup_setNext_ne (m : List (Nat × Nat)) {σ τ : Nat} (k : Nat) (h : τ ≠ σ) :
    lookup (setNext m σ k) τ = lookup m τ := by simp [lookup_setNext, h]

/-! ### `validLog`, declaratively -/

theorem go_snoc (l seen : List (Nat × Nat)) (σ k : Nat) :
    validLog.go (l ++ [(σ, k)]) seen = (validLog.go l seen && k == count (seen ++ l) σ) := by
  induction l generalizing seen with
  | nil => simp [validLog.go]
  | cons e l ih =>
    obtain ⟨τ, j⟩ := e
    simp only [List.cons_append, validLog.go, ih, List.append_assoc, Bool.and_assoc, List.nil_append]

theorem validLog_snoc (log : List (Nat × Nat)) (σ k : Nat) :
    validLog (log ++ [(σ, k)]) = (validLog log && k == count log σ) := by
  simp [validLog, go_snoc]

theorem validLog_snoc_of (log : List (Nat × Nat)) (σ k : Nat) (hv : validLog log = true)
    (hk : k = count log σ) : validLog (log ++ [(σ, k)]) = true := by
  simp [validLog_snoc, hv, hk]

theorem go_iff (l seen : List (Nat × Nat)) :
    validLog.go l seen = true ↔
      ∀ pre σ k post, l = pre ++ (σ, k) :: post → k = count (seen ++ pre) σ := by
  induction l generalizing seen with
  | nil =>
    simp [validLog.go]
  | cons e l ih =>
    obtain ⟨τ, j⟩ := e
    simp only [validLog.go, Bool.and_eq_true, beq_iff_eq, ih]
    constructor
    · rintro ⟨hj, hrest⟩ pre σ k post heq
      cases pre with
      | nil =>
        simp only [List.nil_append, List.cons.injEq, Prod.mk.injEq] at heq
        obtain ⟨⟨rfl, rfl⟩, _⟩ := heq
        simpa using hj
      | cons a pre =>
        simp only [List.cons_append, List.cons.injEq] at heq
        obtain ⟨rfl, rfl⟩ := heq
        have := hrest pre σ k post rfl
        simpa [List.append_assoc] using this
    · intro hall
      refine ⟨by simpa using hall [] τ j l rfl, ?_⟩
      intro pre σ k post heq
      have := hall ((τ, j) :: pre) σ k post (by simp [heq])
      simpa [List.append_assoc] using this

/-- `validLog` says exactly: every frame carries the number of earlier frames of its stream. -/
theorem validLog_iff (log : List (Nat × Nat)) :
    validLog log = true ↔
      ∀ pre σ k post, log = pre ++ (σ, k) :: post → k = count pre σ := by
  simp [validLog, go_iff]

theorem snoc_induction {α : Type} {P : List α → Prop} (nil : P [])
    (snoc : ∀ l a, P l → P (l ++ [a])) : ∀ l, P l := by
  intro l
  have : ∀ r : List α, P r.reverse := by
    intro r
    induction r with
    | nil => exact nil
    | cons a r ih => simpa using snoc _ a ih
  simpa using this l.reverse

/-- in a valid log the k-th frame of stream σ carries seq k -/
theorem seqs_of_validLog (log : List (Nat × Nat)) (hv : validLog log = true) (σ : Nat) :
    (log.filter (fun e => e.1 == σ)).map (·.2) = List.range (count log σ) := by
  induction log using snoc_induction with
  | nil => simp [count]
  | snoc l e ih =>
    obtain ⟨τ, k⟩ := e
    rw [validLog_snoc, Bool.and_eq_true, beq_iff_eq] at hv
    obtain ⟨hv, hk⟩ := hv
    have ih := ih hv
    by_cases h : τ = σ
    · subst h
      rw [count_snoc_self, List.range_succ, ← ih, hk]
      simp [List.filter_append]
    · have hne : σ ≠ τ := fun e => h e.symm
      rw [count_snoc_ne _ _ hne, ← ih]
      simp [List.filter_append, h]

/-! ### consequences of `FreshIds` on the static programs -/

private def crOf : Op → Option Nat
  | .create σ => some σ
  | _ => none

theorem created_eq (progs : List (List Op)) :
    created progs = (progs.map (List.filterMap crOf)).flatten := by
  have : ∀ f : Op → Option Nat, (∀ o, f o = crOf o) →
      progs.flatten.filterMap f = (progs.map (List.filterMap crOf)).flatten := by
    intro f hf
    have : f = crOf := funext hf
    subst this
    simp only [List.filterMap_flatten]
  exact this _ (by intro o; cases o <;> rfl)

theorem mem_crOf {σ : Nat} {p : List Op} : σ ∈ p.filterMap crOf ↔ Op.create σ ∈ p := by
  rw [List.mem_filterMap]
  constructor
  · rintro ⟨o, ho, hσ⟩
    cases o with
    | append τ => simp [crOf] at hσ
    | create τ => simp only [crOf, Option.some.injEq] at hσ; subst hσ; exact ho
  · intro h; exact ⟨_, h, rfl⟩

theorem create_unique_lt {progs : List (List Op)} (h : (created progs).Nodup) {i j : Nat}
    {p q : List Op} {σ : Nat} (hi : progs[i]? = some p) (hj : progs[j]? = some q)
    (hp : Op.create σ ∈ p) (hq : Op.create σ ∈ q) (hij : i < j) : False := by
  rw [created_eq, List.Nodup, List.pairwise_flatten] at h
  have h2 := h.2
  rw [List.pairwise_iff_getElem] at h2
  obtain ⟨hi', rfl⟩ := List.getElem?_eq_some_iff.1 hi
  obtain ⟨hj', rfl⟩ := List.getElem?_eq_some_iff.1 hj
  have := h2 i j (by simpa using hi') (by simpa using hj') hij σ
    (by simpa using mem_crOf.2 hp) σ (by simpa using mem_crOf.2 hq)
  exact this rfl

theorem create_unique {progs : List (List Op)} (h : (created progs).Nodup) {i j : Nat}
    {p q : List Op} {σ : Nat} (hi : progs[i]? = some p) (hj : progs[j]? = some q)
    (hp : Op.create σ ∈ p) (hq : Op.create σ ∈ q) : i = j := by
  rcases Nat.lt_trichotomy i j with hlt | heq | hgt
  · exact (create_unique_lt h hi hj hp hq hlt).elim
  · exact heq
  · exact (create_unique_lt h hj hi hq hp hgt).elim

theorem create_once {progs : List (List Op)} (h : (created progs).Nodup) {i : Nat}
    {a b : List Op} {σ : Nat} (hi : progs[i]? = some (a ++ Op.create σ :: b)) :
    Op.create σ ∉ b := by
  rw [created_eq, List.Nodup, List.pairwise_flatten] at h
  have h1 := h.1 _ (List.mem_map.2 ⟨_, List.mem_of_getElem? hi, rfl⟩)
  rw [List.filterMap_append, List.filterMap_cons] at h1
  simp only [crOf] at h1
  have h3 := (List.pairwise_append.1 h1).2.1
  have h4 := (List.nodup_cons.1 h3).1
  exact fun hb => h4 (mem_crOf.2 hb)

/-! ### updating one writer -/

theorem getElem?_set_cases {l : List W} {i m : Nat} {w' wm : W}
    (h : (l.set i w')[m]? = some wm) : (m = i ∧ wm = w') ∨ (m ≠ i ∧ l[m]? = some wm) := by
  rw [List.getElem?_set] at h
  by_cases him : i = m
  · subst him
    left
    rw [if_pos rfl] at h
    split at h
    · exact ⟨rfl, (Option.some.inj h).symm⟩
    · exact absurd h (by simp)
  · right
    rw [if_neg him] at h
    exact ⟨fun e => him e.symm, h⟩


theorem mem_created {progs : List (List Op)} {i : Nat} {p : List Op} {σ : Nat}
    (hi : progs[i]? = some p) (hp : Op.create σ ∈ p) : σ ∈ created progs := by
  rw [created_eq, List.mem_flatten]
  exact ⟨_, List.mem_map.2 ⟨p, List.mem_of_getElem? hi, rfl⟩, mem_crOf.2 hp⟩

/-! ### the mutex invariant (needs no hypothesis on the programs) -/

/-- a writer in the middle of an operation (pc ≥ 1) is the recorded holder of the mutex -/
def LockInv (s : S) : Prop := ∀ (i : Nat) (w : W), s.ws[i]? = some w → 0 < w.pc → s.lock = some i

theorem lockInv_update {s : S} {j : Nat} {w' : W} {log' next' : List (Nat × Nat)}
    {lock' : Option Nat} (hL : LockInv s) (hself : 0 < w'.pc → lock' = some j)
    (hothers : ∀ m, m ≠ j → s.lock = some m → lock' = some m) :
    LockInv { log := log', next := next', lock := lock', ws := s.ws.set j w' } := by
  intro m wm hm hcs
  rcases getElem?_set_cases hm with ⟨rfl, rfl⟩ | ⟨hne, hm'⟩
  · exact hself hcs
  · exact hothers m hne (hL m wm hm' hcs)

theorem lockInv_stepW (known : Nat → Bool) {s : S} {i : Nat} {w : W} (hL : LockInv s)
    (hw : s.ws[i]? = some w) : LockInv (stepW true known s i w) := by
  obtain ⟨prog, pc, chosen⟩ := w
  have hrel : ∀ m, m ≠ i → s.lock = some i → s.lock = some m → (none : Option Nat) = some m := by
    intro m hne hl h
    rw [hl] at h
    exact absurd (Option.some.inj h).symm hne
  cases prog with
  | nil => exact hL
  | cons op rest =>
    cases op with
    | append σ =>
      match pc with
      | 0 =>
        cases hlk : s.lock with
        | none =>
          simp only [stepW, hlk, setW]
          exact lockInv_update hL (fun _ => rfl) (fun m _ h => by simp [hlk] at h)
        | some x =>
          simp only [stepW, hlk]
          exact hL
      | 1 =>
        have hl : s.lock = some i := hL i _ hw (by simp)
        cases hlu : lookup s.next σ with
        | some k =>
          simp only [stepW, hlu, setW]
          exact lockInv_update hL (fun _ => hl) (fun m _ h => h)
        | none =>
          simp only [stepW, hlu, setW]
          split
          · exact lockInv_update hL (fun h => absurd h (by simp)) (fun m hne h => hrel m hne hl h)
          · exact lockInv_update hL (fun _ => hl) (fun m _ h => h)
      | 2 =>
        have hl : s.lock = some i := hL i _ hw (by simp)
        simp only [stepW, setW]
        exact lockInv_update hL (fun _ => hl) (fun m _ h => h)
      | n + 3 =>
        have hl : s.lock = some i := hL i _ hw (by simp)
        simp only [stepW, setW]
        exact lockInv_update hL (fun h => absurd h (by simp)) (fun m hne h => hrel m hne hl h)
    | create σ =>
      match pc with
      | 0 =>
        cases hlk : s.lock with
        | none =>
          simp only [stepW, hlk, setW, ↓reduceIte]
          exact lockInv_update hL (fun _ => rfl) (fun m _ h => by simp [hlk] at h)
        | some x =>
          simp only [stepW, hlk, ↓reduceIte]
          exact hL
      | 1 =>
        have hl : s.lock = some i := hL i _ hw (by simp)
        simp only [stepW, setW]
        exact lockInv_update hL (fun _ => hl) (fun m _ h => h)
      | 2 =>
        have hl : s.lock = some i := hL i _ hw (by simp)
        simp only [stepW, setW, ↓reduceIte]
        exact lockInv_update hL (fun _ => hl) (fun m _ h => h)
      | 3 =>
        have hl : s.lock = some i := hL i _ hw (by simp)
        simp only [stepW, setW]
        exact lockInv_update hL (fun _ => hl) (fun m _ h => h)
      | n + 4 =>
        have hl : s.lock = some i := hL i _ hw (by simp)
        simp only [stepW, setW, ↓reduceIte]
        exact lockInv_update hL (fun h => absurd h (by simp)) (fun m hne h => hrel m hne hl h)

theorem lockInv_act (known : Nat → Bool) {s : S} (hL : LockInv s) (a : Act) :
    LockInv (act true known s a) := by
  cases a with
  | step i =>
    cases hw : s.ws[i]? with
    | none => simp only [act, hw]; exact hL
    | some w => simp only [act, hw]; exact lockInv_stepW known hL hw
  | restart =>
    simp only [act]
    split
    · exact hL
    · exact hL

theorem init_ws (progs : List (List Op)) {i : Nat} {w : W} (h : (init progs).ws[i]? = some w) :
    ∃ p, progs[i]? = some p ∧ w = { prog := p, pc := 0, chosen := 0 } := by
  simp only [init, List.getElem?_map, Option.map_eq_some_iff] at h
  obtain ⟨p, hp, rfl⟩ := h
  exact ⟨p, hp, rfl⟩

theorem lockInv_init (progs : List (List Op)) : LockInv (init progs) := by
  intro i w hw hcs
  obtain ⟨p, _, rfl⟩ := init_ws progs hw
  exact absurd hcs (by simp)

theorem foldl_inv {f : S → Act → S} {P : S → Prop} (hs : ∀ s a, P s → P (f s a)) :
    ∀ (sched : List Act) (s : S), P s → P (sched.foldl f s)
  | [], _, h => h
  | a :: sched, s, h => foldl_inv hs sched (f s a) (hs s a h)

theorem lockInv_run (known : Nat → Bool) (progs : List (List Op)) (sched : List Act) :
    LockInv (run true known progs sched) :=
  foldl_inv (P := LockInv) (fun _ a h => lockInv_act known h a) sched _ (lockInv_init progs)

/-- the mutex is a mutex: at most one writer is inside a critical section (an append at pc ≥ 1,
or — repaired protocol — a create at pc ≥ 1), and it is the recorded holder -/
theorem lock_exclusive (known : Nat → Bool) (progs : List (List Op)) (sched : List Act)
    (i j : Nat) (wi wj : W)
    (hi : (run true known progs sched).ws[i]? = some wi)
    (hj : (run true known progs sched).ws[j]? = some wj)
    (hci : 0 < wi.pc) (hcj : 0 < wj.pc) : i = j := by
  have hL := lockInv_run known progs sched
  have h1 := hL i wi hi hci
  have h2 := hL j wj hj hcj
  rw [h1] at h2
  exact Option.some.inj h2

/-- … and the recorded holder is that writer -/
theorem lock_holder (known : Nat → Bool) (progs : List (List Op)) (sched : List Act) (i : Nat)
    (wi : W) (hi : (run true known progs sched).ws[i]? = some wi) (hci : 0 < wi.pc) :
    (run true known progs sched).lock = some i :=
  lockInv_run known progs sched i wi hi hci

/-! ### the remaining program of writer `i` is a suffix of `progs[i]` -/

def Suff (progs : List (List Op)) (s : S) : Prop :=
  ∀ (i : Nat) (w : W), s.ws[i]? = some w → ∃ done, progs[i]? = some (done ++ w.prog)

theorem suff_update {progs : List (List Op)} {s : S} {j : Nat} {wj w' : W}
    {log' next' : List (Nat × Nat)} {lock' : Option Nat} (hS : Suff progs s)
    (hj : s.ws[j]? = some wj) (hp : ∃ pre, wj.prog = pre ++ w'.prog) :
    Suff progs { log := log', next := next', lock := lock', ws := s.ws.set j w' } := by
  intro m wm hm
  rcases getElem?_set_cases hm with ⟨rfl, rfl⟩ | ⟨_, hm'⟩
  · obtain ⟨done, hd⟩ := hS _ _ hj
    obtain ⟨pre, hpre⟩ := hp
    exact ⟨done ++ pre, by rw [hd, hpre, List.append_assoc]⟩
  · exact hS m wm hm'

theorem suff_stepW (known : Nat → Bool) {progs : List (List Op)} {s : S} {i : Nat} {w : W}
    (hS : Suff progs s) (hw : s.ws[i]? = some w) : Suff progs (stepW true known s i w) := by
  obtain ⟨prog, pc, chosen⟩ := w
  cases prog with
  | nil => exact hS
  | cons op rest =>
    cases op with
    | append σ =>
      match pc with
      | 0 =>
        cases hlk : s.lock with
        | none => simp only [stepW, hlk, setW]; exact suff_update hS hw ⟨[], rfl⟩
        | some x => simp only [stepW, hlk]; exact hS
      | 1 =>
        cases hlu : lookup s.next σ with
        | some k => simp only [stepW, hlu, setW]; exact suff_update hS hw ⟨[], rfl⟩
        | none =>
          simp only [stepW, hlu, setW]
          split
          · exact suff_update hS hw ⟨[_], rfl⟩
          · exact suff_update hS hw ⟨[], rfl⟩
      | 2 => simp only [stepW, setW]; exact suff_update hS hw ⟨[], rfl⟩
      | n + 3 => simp only [stepW, setW]; exact suff_update hS hw ⟨[_], rfl⟩
    | create σ =>
      match pc with
      | 0 =>
        cases hlk : s.lock with
        | none => simp only [stepW, hlk, setW, ↓reduceIte]; exact suff_update hS hw ⟨[], rfl⟩
        | some x => simp only [stepW, hlk, ↓reduceIte]; exact hS
      | 1 => simp only [stepW, setW]; exact suff_update hS hw ⟨[], rfl⟩
      | 2 => simp only [stepW, setW, ↓reduceIte]; exact suff_update hS hw ⟨[], rfl⟩
      | 3 => simp only [stepW, setW]; exact suff_update hS hw ⟨[], rfl⟩
      | n + 4 => simp only [stepW, setW, ↓reduceIte]; exact suff_update hS hw ⟨[_], rfl⟩

theorem suff_act (known : Nat → Bool) {progs : List (List Op)} {s : S} (hS : Suff progs s)
    (a : Act) : Suff progs (act true known s a) := by
  cases a with
  | step i =>
    cases hw : s.ws[i]? with
    | none => simp only [act, hw]; exact hS
    | some w => simp only [act, hw]; exact suff_stepW known hS hw
  | restart =>
    simp only [act]
    split
    · exact hS
    · exact hS

theorem suff_init (progs : List (List Op)) : Suff progs (init progs) := by
  intro i w hw
  obtain ⟨p, hp, rfl⟩ := init_ws progs hw
  exact ⟨[], by simpa using hp⟩

/-! ### the numbering invariant -/

/-- writer `w` has not written anything for its `create σ` yet -/
def Pending (w : W) (σ : Nat) : Prop :=
  Op.create σ ∈ w.prog.tail ∨ (w.prog.head? = some (.create σ) ∧ w.pc ≤ 1)

/-- the two transient windows in which `next[σ]` lags behind the log -/
def Busy (w : W) (σ : Nat) : Prop :=
  (w.prog.head? = some (.append σ) ∧ w.pc = 2) ∨ (w.prog.head? = some (.create σ) ∧ 4 ≤ w.pc)

/-- the streams about which `WF … w` says something -/
def Concerns (w : W) (σ : Nat) : Prop :=
  (w.prog.head? = some (.append σ) ∧ w.pc = 2) ∨ Op.create σ ∈ w.prog

/-- what a writer knows about the stream it is working on / going to create -/
structure WF (log next : List (Nat × Nat)) (w : W) : Prop where
  app2 : ∀ σ, w.prog.head? = some (.append σ) → w.pc = 2 →
    count log σ = w.chosen + 1 ∧ ∀ k, lookup next σ = some k → k = w.chosen
  pend : ∀ σ, Pending w σ → count log σ = 0 ∧ lookup next σ = none
  cr2 : ∀ σ, w.prog.head? = some (.create σ) → w.pc = 2 →
    count log σ = 1 ∧ lookup next σ = none
  cr3 : ∀ σ, w.prog.head? = some (.create σ) → w.pc = 3 →
    count log σ = 1 ∧ lookup next σ = some 1
  cr4 : ∀ σ, w.prog.head? = some (.create σ) → 4 ≤ w.pc →
    count log σ = 2 ∧ lookup next σ = some 1

theorem mem_of_head? {l : List Op} {o : Op} (h : l.head? = some o) : o ∈ l := by
  cases l with
  | nil => simp at h
  | cons a l => simp only [List.head?_cons, Option.some.injEq] at h; subst h; simp

theorem Pending.mem {w : W} {σ : Nat} (h : Pending w σ) : Op.create σ ∈ w.prog := by
  rcases h with h | ⟨h, _⟩
  · exact List.mem_of_mem_tail h
  · exact mem_of_head? h

theorem pending_of_mem {w : W} {σ : Nat} (hpc : w.pc = 0) (h : Op.create σ ∈ w.prog) :
    Pending w σ := by
  obtain ⟨prog, pc, c⟩ := w
  cases prog with
  | nil => simp at h
  | cons a l =>
    rcases List.mem_cons.1 h with h | h
    · right
      simp only at hpc
      exact ⟨by simp [h], by simp [hpc]⟩
    · exact Or.inl h

theorem WF.congr {log next log' next' : List (Nat × Nat)} {w : W}
    (h : ∀ σ, Concerns w σ → count log' σ = count log σ ∧ lookup next' σ = lookup next σ)
    (hw : WF log next w) : WF log' next' w := by
  constructor
  · intro σ hh hpc
    obtain ⟨e1, e2⟩ := h σ (Or.inl ⟨hh, hpc⟩)
    rw [e1, e2]; exact hw.app2 σ hh hpc
  · intro σ hp
    obtain ⟨e1, e2⟩ := h σ (Or.inr hp.mem)
    rw [e1, e2]; exact hw.pend σ hp
  · intro σ hh hpc
    obtain ⟨e1, e2⟩ := h σ (Or.inr (mem_of_head? hh))
    rw [e1, e2]; exact hw.cr2 σ hh hpc
  · intro σ hh hpc
    obtain ⟨e1, e2⟩ := h σ (Or.inr (mem_of_head? hh))
    rw [e1, e2]; exact hw.cr3 σ hh hpc
  · intro σ hh hpc
    obtain ⟨e1, e2⟩ := h σ (Or.inr (mem_of_head? hh))
    rw [e1, e2]; exact hw.cr4 σ hh hpc

structure Inv (s : S) : Prop where
  valid : validLog s.log = true
  wf : ∀ (i : Nat) (w : W), s.ws[i]? = some w → WF s.log s.next w
  nmap : ∀ σ k, lookup s.next σ = some k →
    k = count s.log σ ∨ ∃ (m : Nat) (w : W), s.ws[m]? = some w ∧ Busy w σ

theorem getElem?_set_self_of {l : List W} {j : Nat} {wj : W} (w' : W) (h : l[j]? = some wj) :
    (l.set j w')[j]? = some w' := by
  rw [List.getElem?_set, if_pos rfl, if_pos (List.getElem?_eq_some_iff.1 h).1]

theorem getElem?_set_ne_of {l : List W} {j m : Nat} (w' : W) (h : m ≠ j) :
    (l.set j w')[m]? = l[m]? := by
  rw [List.getElem?_set, if_neg (Ne.symm h)]

theorem inv_update {s : S} {j : Nat} {wj w' : W} {log' next' : List (Nat × Nat)}
    {lock' : Option Nat} (hI : Inv s) (hj : s.ws[j]? = some wj)
    (hvalid : validLog log' = true)
    (hwf : WF log' next' w')
    (hframe : ∀ (m : Nat) (wm : W), m ≠ j → s.ws[m]? = some wm → ∀ σ, Concerns wm σ →
      count log' σ = count s.log σ ∧ lookup next' σ = lookup s.next σ)
    (hn : ∀ σ k, lookup next' σ = some k →
      (lookup s.next σ = some k ∧ count log' σ = count s.log σ ∧ (Busy wj σ → Busy w' σ)) ∨
        k = count log' σ ∨ Busy w' σ) :
    Inv { log := log', next := next', lock := lock', ws := s.ws.set j w' } := by
  constructor
  · exact hvalid
  · intro m wm hm
    rcases getElem?_set_cases hm with ⟨rfl, rfl⟩ | ⟨hne, hm'⟩
    · exact hwf
    · exact (hI.wf m wm hm').congr (hframe m wm hne hm')
  · intro σ k hk
    rcases hn σ k hk with ⟨h1, h2, h3⟩ | h | h
    · rcases hI.nmap σ k h1 with h | ⟨m, wm, hm, hb⟩
      · left; rw [h, h2]
      · right
        by_cases hmj : m = j
        · subst hmj
          rw [hj] at hm
          cases hm
          exact ⟨m, w', getElem?_set_self_of w' hj, h3 hb⟩
        · exact ⟨m, wm, by rw [getElem?_set_ne_of w' hmj]; exact hm, hb⟩
    · exact Or.inl h
    · exact Or.inr ⟨j, w', getElem?_set_self_of w' hj, h⟩

/-- a step that appends the frame `(τ, k)` -/
theorem inv_log {s : S} {j : Nat} {wj w' : W} {τ k : Nat} {lock' : Option Nat}
    (hI : Inv s) (hj : s.ws[j]? = some wj) (hk : k = count s.log τ)
    (hnc : ∀ (m : Nat) (wm : W), m ≠ j → s.ws[m]? = some wm → ¬ Concerns wm τ)
    (hwf : WF (s.log ++ [(τ, k)]) s.next w')
    (hb : ∀ σ, Busy wj σ → σ = τ)
    (hτ : ∀ k', lookup s.next τ = some k' → Busy w' τ) :
    Inv { log := s.log ++ [(τ, k)], next := s.next, lock := lock', ws := s.ws.set j w' } := by
  refine inv_update hI hj (validLog_snoc_of _ _ _ hI.valid hk) hwf ?_ ?_
  · intro m wm hne hm σ hc
    have hσ : σ ≠ τ := fun e => hnc m wm hne hm (e ▸ hc)
    exact ⟨count_snoc_ne _ _ hσ, rfl⟩
  · intro σ k' hk'
    by_cases hσ : σ = τ
    · subst hσ
      exact Or.inr (Or.inr (hτ k' hk'))
    · exact Or.inl ⟨hk', count_snoc_ne _ _ hσ, fun hb' => absurd (hb σ hb') hσ⟩

/-- a step that sets `next[τ] := v` -/
theorem inv_next {s : S} {j : Nat} {wj w' : W} {τ v : Nat} {lock' : Option Nat}
    (hI : Inv s) (hj : s.ws[j]? = some wj) (hv : v = count s.log τ)
    (hnc : ∀ (m : Nat) (wm : W), m ≠ j → s.ws[m]? = some wm → ¬ Concerns wm τ)
    (hwf : WF s.log (setNext s.next τ v) w')
    (hb : ∀ σ, Busy wj σ → σ = τ) :
    Inv { log := s.log, next := setNext s.next τ v, lock := lock', ws := s.ws.set j w' } := by
  refine inv_update hI hj hI.valid hwf ?_ ?_
  · intro m wm hne hm σ hc
    have hσ : σ ≠ τ := fun e => hnc m wm hne hm (e ▸ hc)
    exact ⟨rfl, lookup_setNext_ne _ _ hσ⟩
  · intro σ k' hk'
    by_cases hσ : σ = τ
    · subst hσ
      rw [lookup_setNext_self] at hk'
      exact Or.inr (Or.inl (by rw [← hv]; exact (Option.some.inj hk').symm))
    · rw [lookup_setNext_ne _ _ hσ] at hk'
      exact Or.inl ⟨hk', rfl, fun hb' => absurd (hb σ hb') hσ⟩

/-- a step that touches neither the log nor the map -/
theorem inv_same {s : S} {j : Nat} {wj w' : W} {lock' : Option Nat}
    (hI : Inv s) (hj : s.ws[j]? = some wj) (hwf : WF s.log s.next w')
    (hb : ∀ σ, ¬ Busy wj σ) :
    Inv { log := s.log, next := s.next, lock := lock', ws := s.ws.set j w' } :=
  inv_update hI hj hI.valid hwf (fun _ _ _ _ _ _ => ⟨rfl, rfl⟩)
    (fun σ _ hk => Or.inl ⟨hk, rfl, fun h => absurd h (hb σ)⟩)

/-! ### what `FreshIds` and the mutex say about the other writers -/

section fresh
variable {known : Nat → Bool} {progs : List (List Op)} {s : S} {j : Nat} {wj : W} {τ : Nat}
  {rest : List Op}

/-- a stream whose creation is still pending has no frame, no map entry and is not known -/
theorem pending_facts (hF : FreshIds known progs) (hS : Suff progs s) (hI : Inv s)
    {m : Nat} {wm : W} (hm : s.ws[m]? = some wm) (hp : Pending wm τ) :
    count s.log τ = 0 ∧ lookup s.next τ = none ∧ known τ = false := by
  obtain ⟨h1, h2⟩ := (hI.wf m wm hm).pend τ hp
  obtain ⟨dm, hpm⟩ := hS m wm hm
  exact ⟨h1, h2, hF.2 τ (mem_created hpm (List.mem_append_right _ hp.mem))⟩

theorem others_pc (hL : LockInv s) (hj : s.ws[j]? = some wj) (hpc : 0 < wj.pc)
    {m : Nat} {wm : W} (hne : m ≠ j) (hm : s.ws[m]? = some wm) : wm.pc = 0 := by
  cases Nat.eq_zero_or_pos wm.pc with
  | inl h => exact h
  | inr h =>
    have h1 := hL m wm hm h
    rw [hL j wj hj hpc] at h1
    exact absurd (Option.some.inj h1).symm hne

/-- a stream that already has a frame, a map entry, or is known, is nobody's pending creation -/
theorem others_written (hF : FreshIds known progs) (hS : Suff progs s) (hL : LockInv s)
    (hI : Inv s) (hj : s.ws[j]? = some wj) (hpc : 0 < wj.pc)
    (hwr : ¬ (count s.log τ = 0 ∧ lookup s.next τ = none ∧ known τ = false)) :
    ∀ (m : Nat) (wm : W), m ≠ j → s.ws[m]? = some wm → ¬ Concerns wm τ := by
  intro m wm hne hm hc
  have hpc0 := others_pc hL hj hpc hne hm
  rcases hc with ⟨_, h2⟩ | hmem
  · omega
  · exact hwr (pending_facts hF hS hI hm (pending_of_mem hpc0 hmem))

theorem self_written {op : Op} (hF : FreshIds known progs) (hS : Suff progs s) (hI : Inv s)
    (hj : s.ws[j]? = some wj) (hprog : wj.prog = op :: rest)
    (hwr : ¬ (count s.log τ = 0 ∧ lookup s.next τ = none ∧ known τ = false)) :
    Op.create τ ∉ rest := by
  intro hmem
  exact hwr (pending_facts hF hS hI hj (Or.inl (by rw [hprog]; exact hmem)))

theorem others_create (hF : FreshIds known progs) (hS : Suff progs s) (hL : LockInv s)
    (hj : s.ws[j]? = some wj) (hpc : 0 < wj.pc) (hprog : wj.prog = .create τ :: rest) :
    ∀ (m : Nat) (wm : W), m ≠ j → s.ws[m]? = some wm → ¬ Concerns wm τ := by
  intro m wm hne hm hc
  have hpc0 := others_pc hL hj hpc hne hm
  obtain ⟨dm, hpm⟩ := hS m wm hm
  obtain ⟨dj, hpj⟩ := hS j wj hj
  have hcj : Op.create τ ∈ dj ++ wj.prog := List.mem_append_right _ (by rw [hprog]; simp)
  rcases hc with ⟨_, h2⟩ | hmem
  · omega
  · exact hne (create_unique hF.1 hpm hpj (List.mem_append_right _ hmem) hcj)

theorem self_create (hF : FreshIds known progs) (hS : Suff progs s)
    (hj : s.ws[j]? = some wj) (hprog : wj.prog = .create τ :: rest) : Op.create τ ∉ rest := by
  obtain ⟨dj, hpj⟩ := hS j wj hj
  rw [hprog] at hpj
  exact create_once hF.1 hpj

end fresh

/-! ### the acting writer's own facts, one lemma per (op, pc) -/

section wf
variable {log next : List (Nat × Nat)} {τ c : Nat} {rest : List Op}

theorem pending_rest_append {pc σ : Nat}
    (h : Pending { prog := .append τ :: rest, pc := pc, chosen := c } σ) : Op.create σ ∈ rest := by
  rcases h with h | ⟨h, _⟩
  · exact h
  · simp at h

theorem pending_rest_create {pc σ : Nat} (hpc : 2 ≤ pc)
    (h : Pending { prog := .create τ :: rest, pc := pc, chosen := c } σ) : Op.create σ ∈ rest := by
  rcases h with h | ⟨_, h⟩
  · exact h
  · simp only at h; omega

theorem pending_done {σ : Nat} (h : Pending { prog := rest, pc := 0, chosen := c } σ) :
    Op.create σ ∈ rest := h.mem

theorem WF.ofRest {op : Op} {pc σ : Nat}
    (hwf : WF log next { prog := op :: rest, pc := pc, chosen := c }) (hσ : Op.create σ ∈ rest) :
    count log σ = 0 ∧ lookup next σ = none :=
  hwf.pend σ (Or.inl hσ)

theorem ne_of_mem_rest {σ : Nat} (hself : Op.create τ ∉ rest) (hσ : Op.create σ ∈ rest) : σ ≠ τ :=
  fun e => hself (e ▸ hσ)

theorem wf_append0 (hwf : WF log next { prog := .append τ :: rest, pc := 0, chosen := c }) :
    WF log next { prog := .append τ :: rest, pc := 1, chosen := c } := by
  constructor
  · intro σ _ hpc; simp at hpc
  · intro σ hp; exact hwf.ofRest (pending_rest_append hp)
  · intro σ hh; simp at hh
  · intro σ hh; simp at hh
  · intro σ hh; simp at hh

theorem wf_append1 {k : Nat}
    (hwf : WF log next { prog := .append τ :: rest, pc := 1, chosen := c })
    (hself : Op.create τ ∉ rest) (hk : k = count log τ)
    (hlk : ∀ k', lookup next τ = some k' → k' = k) :
    WF (log ++ [(τ, k)]) next { prog := .append τ :: rest, pc := 2, chosen := k } := by
  constructor
  · intro σ hh _
    simp only [List.head?_cons, Option.some.injEq, Op.append.injEq] at hh
    subst hh
    exact ⟨by rw [count_snoc_self, hk], hlk⟩
  · intro σ hp
    have hσ := pending_rest_append hp
    rw [count_snoc_ne _ _ (ne_of_mem_rest hself hσ)]
    exact hwf.ofRest hσ
  · intro σ hh; simp at hh
  · intro σ hh; simp at hh
  · intro σ hh; simp at hh

theorem wf_append2 (hwf : WF log next { prog := .append τ :: rest, pc := 2, chosen := c })
    (hself : Op.create τ ∉ rest) :
    WF log (setNext next τ (c + 1)) { prog := .append τ :: rest, pc := 3, chosen := c } := by
  constructor
  · intro σ _ hpc; simp at hpc
  · intro σ hp
    have hσ := pending_rest_append hp
    rw [lookup_setNext_ne _ _ (ne_of_mem_rest hself hσ)]
    exact hwf.ofRest hσ
  · intro σ hh; simp at hh
  · intro σ hh; simp at hh
  · intro σ hh; simp at hh

theorem wf_done {op : Op} {pc : Nat}
    (hwf : WF log next { prog := op :: rest, pc := pc, chosen := c }) :
    WF log next { prog := rest, pc := 0, chosen := 0 } := by
  constructor
  · intro σ _ hpc; simp at hpc
  · intro σ hp; exact hwf.ofRest (pending_done hp)
  · intro σ _ hpc; simp at hpc
  · intro σ _ hpc; simp at hpc
  · intro σ _ hpc; simp at hpc

theorem wf_create0 (hwf : WF log next { prog := .create τ :: rest, pc := 0, chosen := c }) :
    WF log next { prog := .create τ :: rest, pc := 1, chosen := c } := by
  constructor
  · intro σ hh; simp at hh
  · intro σ hp
    apply hwf.pend σ
    rcases hp with hp | ⟨hp, _⟩
    · exact Or.inl hp
    · exact Or.inr ⟨hp, by simp⟩
  · intro σ _ hpc; simp at hpc
  · intro σ _ hpc; simp at hpc
  · intro σ _ hpc; simp at hpc

theorem wf_create1 (hwf : WF log next { prog := .create τ :: rest, pc := 1, chosen := c })
    (hself : Op.create τ ∉ rest) :
    WF (log ++ [(τ, 0)]) next { prog := .create τ :: rest, pc := 2, chosen := c } := by
  have h0 := hwf.pend τ (Or.inr ⟨rfl, Nat.le_refl 1⟩)
  constructor
  · intro σ hh; simp at hh
  · intro σ hp
    have hσ := pending_rest_create (by simp) hp
    rw [count_snoc_ne _ _ (ne_of_mem_rest hself hσ)]
    exact hwf.ofRest hσ
  · intro σ hh _
    simp only [List.head?_cons, Option.some.injEq, Op.create.injEq] at hh
    subst hh
    exact ⟨by rw [count_snoc_self, h0.1], h0.2⟩
  · intro σ _ hpc; simp at hpc
  · intro σ _ hpc; simp at hpc

theorem wf_create2 (hwf : WF log next { prog := .create τ :: rest, pc := 2, chosen := c })
    (hself : Op.create τ ∉ rest) :
    WF log (setNext next τ 1) { prog := .create τ :: rest, pc := 3, chosen := c } := by
  have h0 := hwf.cr2 τ rfl rfl
  constructor
  · intro σ hh; simp at hh
  · intro σ hp
    have hσ := pending_rest_create (by simp) hp
    rw [lookup_setNext_ne _ _ (ne_of_mem_rest hself hσ)]
    exact hwf.ofRest hσ
  · intro σ _ hpc; simp at hpc
  · intro σ hh _
    simp only [List.head?_cons, Option.some.injEq, Op.create.injEq] at hh
    subst hh
    exact ⟨h0.1, lookup_setNext_self _ _ _⟩
  · intro σ _ hpc; simp at hpc

theorem wf_create3 (hwf : WF log next { prog := .create τ :: rest, pc := 3, chosen := c })
    (hself : Op.create τ ∉ rest) :
    WF (log ++ [(τ, 1)]) next { prog := .create τ :: rest, pc := 4, chosen := c } := by
  have h0 := hwf.cr3 τ rfl rfl
  constructor
  · intro σ hh; simp at hh
  · intro σ hp
    have hσ := pending_rest_create (by simp) hp
    rw [count_snoc_ne _ _ (ne_of_mem_rest hself hσ)]
    exact hwf.ofRest hσ
  · intro σ _ hpc; simp at hpc
  · intro σ _ hpc; simp at hpc
  · intro σ hh _
    simp only [List.head?_cons, Option.some.injEq, Op.create.injEq] at hh
    subst hh
    exact ⟨by rw [count_snoc_self, h0.1], h0.2⟩

theorem wf_create4 {pc : Nat}
    (hwf : WF log next { prog := .create τ :: rest, pc := pc, chosen := c })
    (hself : Op.create τ ∉ rest) :
    WF log (setNext next τ 2) { prog := rest, pc := 0, chosen := 0 } := by
  constructor
  · intro σ _ hpc; simp at hpc
  · intro σ hp
    have hσ := pending_done hp
    rw [lookup_setNext_ne _ _ (ne_of_mem_rest hself hσ)]
    exact hwf.ofRest hσ
  · intro σ _ hpc; simp at hpc
  · intro σ _ hpc; simp at hpc
  · intro σ _ hpc; simp at hpc

end wf

/-! ### every effect preserves the invariant -/

theorem not_busy_of_pc {prog : List Op} {pc c : Nat} (h : pc < 2) (σ : Nat) :
    ¬ Busy { prog := prog, pc := pc, chosen := c } σ := by
  rintro (⟨_, h'⟩ | ⟨_, h'⟩) <;> simp only at h' <;> omega

theorem Busy.pc_pos {w : W} {σ : Nat} (h : Busy w σ) : 0 < w.pc := by
  rcases h with ⟨_, h⟩ | ⟨_, h⟩ <;> omega

theorem busy_append_eq {τ pc c σ : Nat} {rest : List Op}
    (h : Busy { prog := .append τ :: rest, pc := pc, chosen := c } σ) : σ = τ := by
  rcases h with ⟨h, _⟩ | ⟨h, _⟩
  · simpa using h.symm
  · simp at h

theorem busy_create_eq {τ pc c σ : Nat} {rest : List Op}
    (h : Busy { prog := .create τ :: rest, pc := pc, chosen := c } σ) : σ = τ := by
  rcases h with ⟨h, _⟩ | ⟨h, _⟩
  · simp at h
  · simpa using h.symm

theorem inv_stepW {known : Nat → Bool} {progs : List (List Op)} {s : S} {i : Nat} {w : W}
    (hF : FreshIds known progs) (hS : Suff progs s) (hL : LockInv s) (hI : Inv s)
    (hw : s.ws[i]? = some w) : Inv (stepW true known s i w) := by
  obtain ⟨prog, pc, chosen⟩ := w
  cases prog with
  | nil => exact hI
  | cons op rest =>
    have hwf := hI.wf i _ hw
    cases op with
    | append τ =>
      match pc with
      | 0 =>
        cases hlk : s.lock with
        | some x => simp only [stepW, hlk]; exact hI
        | none =>
          simp only [stepW, hlk, setW]
          exact inv_same hI hw (wf_append0 hwf) (not_busy_of_pc (by simp))
      | 1 =>
        have hkey : ∀ k, lookup s.next τ = some k → k = count s.log τ := by
          intro k hk
          rcases hI.nmap τ k hk with h | ⟨m, wm, hm, hb⟩
          · exact h
          · exfalso
            by_cases hmi : m = i
            · subst hmi
              rw [hw] at hm
              cases hm
              exact not_busy_of_pc (by simp) τ hb
            · have := others_pc hL hw (by simp) hmi hm
              have := hb.pc_pos
              omega
        cases hl : lookup s.next τ with
        | some k =>
          have hwr : ¬ (count s.log τ = 0 ∧ lookup s.next τ = none ∧ known τ = false) := by
            rintro ⟨_, h2, _⟩
            rw [hl] at h2
            cases h2
          simp only [stepW, hl, setW]
          exact inv_log hI hw (hkey k hl) (others_written hF hS hL hI hw (by simp) hwr)
            (wf_append1 hwf (self_written hF hS hI hw rfl hwr) (hkey k hl)
              (fun k' hk' => by rw [hl] at hk'; exact (Option.some.inj hk').symm))
            (fun σ hb => absurd hb (not_busy_of_pc (by simp) σ))
            (fun _ _ => Or.inl ⟨rfl, rfl⟩)
        | none =>
          simp only [stepW, hl, setW]
          split
          · exact inv_same hI hw (wf_done hwf) (not_busy_of_pc (by simp))
          · rename_i hc
            have hwr : ¬ (count s.log τ = 0 ∧ lookup s.next τ = none ∧ known τ = false) := by
              rintro ⟨h1, _, h3⟩
              exact hc (by simp [h1, h3])
            exact inv_log hI hw rfl (others_written hF hS hL hI hw (by simp) hwr)
              (wf_append1 hwf (self_written hF hS hI hw rfl hwr) rfl
                (fun k' hk' => by rw [hl] at hk'; cases hk'))
              (fun σ hb => absurd hb (not_busy_of_pc (by simp) σ))
              (fun _ _ => Or.inl ⟨rfl, rfl⟩)
      | 2 =>
        have hcnt := (hwf.app2 τ rfl rfl).1
        have hwr : ¬ (count s.log τ = 0 ∧ lookup s.next τ = none ∧ known τ = false) := by
          rintro ⟨h1, _, _⟩
          omega
        simp only [stepW, setW]
        exact inv_next hI hw hcnt.symm (others_written hF hS hL hI hw (by simp) hwr)
          (wf_append2 hwf (self_written hF hS hI hw rfl hwr)) (fun σ hb => busy_append_eq hb)
      | n + 3 =>
        simp only [stepW, setW]
        refine inv_same hI hw (wf_done hwf) ?_
        rintro σ (⟨_, hb⟩ | ⟨hb, _⟩)
        · simp at hb
        · simp at hb
    | create τ =>
      have hself := self_create hF hS hw rfl
      match pc with
      | 0 =>
        cases hlk : s.lock with
        | some x => simp only [stepW, hlk, ↓reduceIte]; exact hI
        | none =>
          simp only [stepW, hlk, setW, ↓reduceIte]
          exact inv_same hI hw (wf_create0 hwf) (not_busy_of_pc (by simp))
      | 1 =>
        have hnc := others_create hF hS hL hw (by simp) rfl
        have h0 := hwf.pend τ (Or.inr ⟨rfl, Nat.le_refl 1⟩)
        simp only [stepW, setW]
        exact inv_log hI hw h0.1.symm hnc (wf_create1 hwf hself)
          (fun σ hb => busy_create_eq hb)
          (fun k' hk' => by rw [h0.2] at hk'; cases hk')
      | 2 =>
        have hnc := others_create hF hS hL hw (by simp) rfl
        simp only [stepW, setW, ↓reduceIte]
        exact inv_next hI hw (hwf.cr2 τ rfl rfl).1.symm hnc (wf_create2 hwf hself)
          (fun σ hb => busy_create_eq hb)
      | 3 =>
        have hnc := others_create hF hS hL hw (by simp) rfl
        simp only [stepW, setW]
        exact inv_log hI hw (hwf.cr3 τ rfl rfl).1.symm hnc (wf_create3 hwf hself)
          (fun σ hb => busy_create_eq hb)
          (fun _ _ => Or.inr ⟨rfl, by simp⟩)
      | n + 4 =>
        have hnc := others_create hF hS hL hw (by simp) rfl
        simp only [stepW, setW, ↓reduceIte]
        exact inv_next hI hw (hwf.cr4 τ rfl (by simp)).1.symm hnc (wf_create4 hwf hself)
          (fun σ hb => busy_create_eq hb)

theorem idle_pc {s : S} (hid : idle s = true) {i : Nat} {w : W} (hw : s.ws[i]? = some w) :
    w.pc = 0 := by
  simp only [idle, Bool.and_eq_true, List.all_eq_true, beq_iff_eq] at hid
  exact hid.2 w (List.mem_of_getElem? hw)

theorem inv_restart {s : S} (hI : Inv s) (hid : idle s = true) :
    Inv { s with next := [] } := by
  constructor
  · exact hI.valid
  · intro i w hw
    have hw' : s.ws[i]? = some w := hw
    have hpc := idle_pc hid hw'
    have hwf := hI.wf i w hw'
    constructor
    · intro σ _ h2; omega
    · intro σ hp; exact ⟨(hwf.pend σ hp).1, lookup_nil σ⟩
    · intro σ _ h2; omega
    · intro σ _ h2; omega
    · intro σ _ h2; omega
  · intro σ k hk
    rw [show lookup ({ s with next := [] } : S).next σ = none from lookup_nil σ] at hk
    cases hk

theorem inv_init (progs : List (List Op)) : Inv (init progs) := by
  constructor
  · rfl
  · intro i w hw
    obtain ⟨p, _, rfl⟩ := init_ws progs hw
    constructor
    · intro σ _ h2; simp at h2
    · intro σ _; exact ⟨rfl, rfl⟩
    · intro σ _ h2; simp at h2
    · intro σ _ h2; simp at h2
    · intro σ _ h2; simp at h2
  · intro σ k hk
    cases hk

/-- the three invariants together -/
structure Good (progs : List (List Op)) (s : S) : Prop where
  lockI : LockInv s
  suff : Suff progs s
  inv : Inv s

theorem good_act {known : Nat → Bool} {progs : List (List Op)} (hF : FreshIds known progs)
    {s : S} (hG : Good progs s) (a : Act) : Good progs (act true known s a) := by
  refine ⟨lockInv_act known hG.lockI a, suff_act known hG.suff a, ?_⟩
  cases a with
  | step i =>
    cases hw : s.ws[i]? with
    | none => simp only [act, hw]; exact hG.inv
    | some w => simp only [act, hw]; exact inv_stepW hF hG.suff hG.lockI hG.inv hw
  | restart =>
    simp only [act]
    split
    · rename_i hid; exact inv_restart hG.inv hid
    · exact hG.inv

theorem good_run (known : Nat → Bool) (progs : List (List Op)) (hF : FreshIds known progs)
    (sched : List Act) : Good progs (run true known progs sched) :=
  foldl_inv (P := Good progs) (fun _ a hG => good_act hF hG a) sched _
    ⟨lockInv_init progs, suff_init progs, inv_init progs⟩

/-! ### the theorems -/

/-- Per-stream total order under ANY schedule, with NO assumption about who addresses which thread
when: for every number of writers, every program of appends and creations with fresh thread ids,
and every interleaving of their effects including restarts, every stream's frames carry seq
0,1,2,… in file order. -/
theorem seq_total_order (known : Nat → Bool) (progs : List (List Op)) (h : FreshIds known progs)
    (sched : List Act) : validLog (run true known progs sched).log = true :=
  (good_run known progs h sched).inv.valid

/-- a more readable consequence: the k-th frame of stream σ in the log carries seq k -/
theorem stream_seqs (known : Nat → Bool) (progs : List (List Op)) (h : FreshIds known progs)
    (sched : List Act) (σ : Nat) :
    ((run true known progs sched).log.filter (fun e => e.1 == σ)).map (·.2) =
      List.range (count (run true known progs sched).log σ) :=
  seqs_of_validLog _ (seq_total_order known progs h sched) σ

/-- the declarative reading of `seq_total_order`: every frame carries the number of earlier frames
of its stream -/
theorem seq_total_order_decl (known : Nat → Bool) (progs : List (List Op))
    (h : FreshIds known progs) (sched : List Act) (pre post : List (Nat × Nat)) (σ k : Nat)
    (hlog : (run true known progs sched).log = pre ++ (σ, k) :: post) : k = count pre σ :=
  (validLog_iff _).1 (seq_total_order known progs h sched) pre σ k post hlog

/-- a stream whose creation has not started has no frame in the log (appends to it fail) -/
theorem no_frame_before_create (known : Nat → Bool) (progs : List (List Op))
    (h : FreshIds known progs) (sched : List Act) (i : Nat) (w : W) (σ : Nat)
    (hi : (run true known progs sched).ws[i]? = some w) (hp : Pending w σ) :
    count (run true known progs sched).log σ = 0 :=
  ((good_run known progs h sched).inv.wf i w hi).pend σ hp |>.1

/-! ### each clause of `FreshIds` is needed (repaired protocol, sequential schedules) -/

/-- `Nodup` (a stream is created once) -/
example : validLog (run true (fun _ => false) [[.create 7], [.create 7]]
    [.step 0, .step 0, .step 0, .step 0, .step 0, .step 1, .step 1]).log = false := by decide

/-- a created stream must not be a known one: an earlier append to it is accepted -/
example : validLog (run true (fun _ => true) [[.append 7, .create 7]]
    [.step 0, .step 0, .step 0, .step 0, .step 0, .step 0]).log = false := by decide

/-- … whereas with a fresh id the early append fails and writes nothing -/
example : (run true (fun _ => false) [[.append 7, .create 7]]
    [.step 0, .step 0, .step 0, .step 0, .step 0, .step 0, .step 0]).log = [(7, 0), (7, 1)] := by
  decide

end Rip.StoreLTS
