/-
C17: theorems about the capture / log / paging model (`Rip.Capture`).
-/
import Rip.Model.Capture

namespace Rip.Capture
open Rip.Proto

/-! ## list helpers -/

theorem take_min_length {α} (l : List α) (n : Nat) : l.take (min n l.length) = l.take n :=
  (List.take_eq_take_min).symm

/-- appending "as much of `chunk` as still fits under `n`" to a `take n` prefix is the `take n`
of the concatenation -/
theorem take_append_fill {α} (pre chunk : List α) (n : Nat) :
    pre.take n ++ chunk.take (n - (pre.take n).length) = (pre ++ chunk).take n := by
  rw [List.take_append]
  congr 1
  apply List.take_eq_take_iff.mpr
  simp only [List.length_take]
  omega

/-! ## TaskLogWriter -/

/-- invariant of the log writer after `pre` has been written -/
structure LogInv (w : LogW) (pre : Bytes) : Prop where
  stored : w.stored = pre.take w.cap
  total : w.total = pre.length
  trunc : w.truncated = true ↔ w.cap < pre.length

theorem LogW.append_cap (w : LogW) (c : Bytes) : (w.append c).1.cap = w.cap := rfl

theorem LogW.append_stored (w : LogW) (c : Bytes) :
    (w.append c).1.stored = w.stored ++ c.take (w.cap - w.stored.length) := by
  simp only [LogW.append, take_min_length]

theorem LogInv.append {w : LogW} {pre : Bytes} (h : LogInv w pre) (c : Bytes) :
    LogInv (w.append c).1 (pre ++ c) := by
  refine ⟨?_, ?_, ?_⟩
  · rw [LogW.append_stored, LogW.append_cap, h.stored, take_append_fill]
  · simp [LogW.append, h.total]
  · have hs := congrArg List.length h.stored
    have ht := h.trunc
    simp only [List.length_take] at hs
    simp only [LogW.append, Bool.or_eq_true, decide_eq_true_eq, List.length_append, ht, hs]
    omega

theorem LogW.feed_cons (w : LogW) (c : Bytes) (cs : List Bytes) :
    w.feed (c :: cs) = (((w.append c).1.feed cs).1, (w.append c).2 :: ((w.append c).1.feed cs).2) := rfl

theorem LogInv.feed {w : LogW} {pre : Bytes} (h : LogInv w pre) (cs : List Bytes) :
    LogInv (w.feed cs).1 (pre ++ cs.flatten) := by
  induction cs generalizing w pre with
  | nil => simpa [LogW.feed] using h
  | cons c cs ih =>
    rw [LogW.feed_cons, List.flatten_cons, ← List.append_assoc]
    exact ih (h.append c)

theorem LogW.feed_cap (w : LogW) (cs : List Bytes) : (w.feed cs).1.cap = w.cap := by
  induction cs generalizing w with
  | nil => rfl
  | cons c cs ih => rw [LogW.feed_cons, ih, LogW.append_cap]

theorem LogInv.init (cap : Nat) : LogInv (LogW.init cap) [] :=
  ⟨by simp [LogW.init], rfl, by simp [LogW.init]⟩

theorem logInv_init_feed (cap : Nat) (cs : List Bytes) :
    LogInv ((LogW.init cap).feed cs).1 cs.flatten := by
  simpa using (LogInv.init cap).feed cs

/-- the stored log is byte-for-byte the prefix of what was written, up to the cap — for every
chunking -/
theorem logw_stored_is_prefix (cap : Nat) (cs : List Bytes) :
    ((LogW.init cap).feed cs).1.stored = cs.flatten.take cap := by
  have h := (logInv_init_feed cap cs).stored
  rwa [LogW.feed_cap] at h

theorem logw_total (cap : Nat) (cs : List Bytes) :
    ((LogW.init cap).feed cs).1.total = cs.flatten.length :=
  (logInv_init_feed cap cs).total

theorem logw_truncated_iff (cap : Nat) (cs : List Bytes) :
    ((LogW.init cap).feed cs).1.truncated = true ↔ cap < cs.flatten.length := by
  have h := (logInv_init_feed cap cs).trunc
  rwa [LogW.feed_cap] at h

/-- ranges are consecutive, non-overlapping and tile the stored bytes -/
def RangesFrom : Nat → List Range → Nat → Prop
  | off, [], fin => off = fin
  | off, r :: rs, fin => r.offset = off ∧ RangesFrom (off + r.bytes) rs fin

theorem LogW.append_range_offset (w : LogW) (c : Bytes) : (w.append c).2.offset = w.stored.length := rfl

theorem LogW.append_range_bytes (w : LogW) (c : Bytes) :
    (w.append c).2.bytes = min (w.cap - w.stored.length) c.length := rfl

theorem LogW.append_stored_length (w : LogW) (c : Bytes) :
    (w.append c).1.stored.length = w.stored.length + (w.append c).2.bytes := by
  simp [LogW.append]

theorem feed_ranges_tile (w : LogW) (cs : List Bytes) :
    RangesFrom w.stored.length (w.feed cs).2 (w.feed cs).1.stored.length := by
  induction cs generalizing w with
  | nil => simp [LogW.feed, RangesFrom]
  | cons c cs ih =>
    rw [LogW.feed_cons]
    refine ⟨rfl, ?_⟩
    have := ih (w.append c).1
    rwa [LogW.append_stored_length] at this

theorem logw_ranges_tile (cap : Nat) (cs : List Bytes) :
    RangesFrom 0 ((LogW.init cap).feed cs).2 ((LogW.init cap).feed cs).1.stored.length :=
  feed_ranges_tile (LogW.init cap) cs

/-- feeding only ever appends to what is stored -/
theorem feed_stored_extends (w : LogW) (cs : List Bytes) :
    ∃ x, (w.feed cs).1.stored = w.stored ++ x := by
  induction cs generalizing w with
  | nil => exact ⟨[], by simp [LogW.feed]⟩
  | cons c cs ih =>
    obtain ⟨x, hx⟩ := ih (w.append c).1
    refine ⟨c.take (w.cap - w.stored.length) ++ x, ?_⟩
    rw [LogW.feed_cons]
    simp only [hx, LogW.append_stored, List.append_assoc]

theorem feed_range_bytes (w : LogW) (cs : List Bytes) :
    ∀ i (h : i < cs.length), ∃ r, (w.feed cs).2[i]? = some r ∧
      ((w.feed cs).1.stored.drop r.offset).take r.bytes = (cs[i]).take r.bytes := by
  induction cs generalizing w with
  | nil => intro i h; exact absurd h (Nat.not_lt_zero _)
  | cons c cs ih =>
    intro i h
    rw [LogW.feed_cons]
    cases i with
    | zero =>
      refine ⟨(w.append c).2, rfl, ?_⟩
      obtain ⟨x, hx⟩ := feed_stored_extends (w.append c).1 cs
      simp only [hx, LogW.append_stored, LogW.append_range_offset, LogW.append_range_bytes,
        List.append_assoc, List.drop_left, List.getElem_cons_zero, take_min_length]
      generalize w.cap - w.stored.length = k
      rw [List.take_append, List.take_take]
      have e1 : min (min k c.length) k = min k c.length := by omega
      have e2 : min k c.length - (c.take k).length = 0 := by
        simp only [List.length_take]; omega
      rw [e1, e2, take_min_length]
      simp
    | succ i =>
      have h' : i < cs.length := by simpa using h
      obtain ⟨r, hr, hb⟩ := ih (w.append c).1 i h'
      exact ⟨r, by simpa using hr, by simpa using hb⟩

/-- each range names exactly the bytes of its chunk that were stored -/
theorem logw_range_bytes (cap : Nat) (cs : List Bytes) :
    ∀ i (h : i < cs.length), ∃ r, ((LogW.init cap).feed cs).2[i]? = some r ∧
      (((LogW.init cap).feed cs).1.stored.drop r.offset).take r.bytes = (cs[i]).take r.bytes :=
  feed_range_bytes (LogW.init cap) cs


theorem feed_range_count (w : LogW) (cs : List Bytes) :
    ∀ i (h : i < cs.length), ∃ r, (w.feed cs).2[i]? = some r ∧
      r.bytes = min (w.cap - r.offset) (cs[i]).length := by
  induction cs generalizing w with
  | nil => intro i h; exact absurd h (Nat.not_lt_zero _)
  | cons c cs ih =>
    intro i h
    rw [LogW.feed_cons]
    cases i with
    | zero => exact ⟨(w.append c).2, rfl, rfl⟩
    | succ i =>
      have h' : i < cs.length := by simpa using h
      obtain ⟨r, hr, hb⟩ := ih (w.append c).1 i h'
      exact ⟨r, by simpa using hr, by simpa [LogW.append_cap] using hb⟩

/-- (extra) how many bytes a range names: everything of its chunk that still fits under the cap —
so `logw_range_bytes` is not vacuous -/
theorem logw_range_count (cap : Nat) (cs : List Bytes) :
    ∀ i (h : i < cs.length), ∃ r, ((LogW.init cap).feed cs).2[i]? = some r ∧
      r.bytes = min (cap - r.offset) (cs[i]).length :=
  feed_range_count (LogW.init cap) cs

/-! ## capture_stream -/

/-- preview after a step -/
def Cap.preview' (maxPrev : Nat) (c : Cap) (chunk : Bytes) : Bytes :=
  if c.full then c.preview else c.preview ++ chunk.take (maxPrev - c.preview.length)

/-- `full` after a step -/
def Cap.full' (maxPrev : Nat) (c : Cap) (chunk : Bytes) : Bool :=
  c.full || decide ((c.preview' maxPrev chunk).length ≥ maxPrev)

/-- file after a step -/
def Cap.file' (maxPrev artMax : Nat) (c : Cap) (chunk : Bytes) : Option Bytes :=
  match c.file with
  | some stored => some (tailWrite artMax stored chunk)
  | none =>
    if c.full' maxPrev chunk = false ∨ artMax = 0 then none
    else
      some (tailWrite artMax
        ((c.preview' maxPrev chunk).take (min (c.preview' maxPrev chunk).length artMax))
        (chunk.drop (min ((c.preview' maxPrev chunk).length - c.preview.length) chunk.length)))

theorem Cap.step_eq (maxPrev artMax : Nat) (c : Cap) (chunk : Bytes) :
    Cap.step maxPrev artMax c chunk =
      { preview := c.preview' maxPrev chunk, total := c.total + chunk.length,
        full := c.full' maxPrev chunk, file := c.file' maxPrev artMax chunk } := by
  unfold Cap.step Cap.file'
  cases c.file with
  | some s => rfl
  | none =>
    show (if (!(c.full' maxPrev chunk)) = true then _ else if artMax = 0 then _ else _) = _
    cases hF : c.full' maxPrev chunk
    · simp only [Bool.not_false, if_true, true_or]
      congr 1
    · by_cases h0 : artMax = 0
      · simp only [Bool.not_true, Bool.false_eq_true, if_false, h0, if_true, or_true]
        congr 1
      · simp only [Bool.not_true, Bool.false_eq_true, if_false, h0, or_false]
        congr 1

/-- the spill file, at the moment it is created, is the prefix of everything read so far -/
theorem spill_eq (pre chunk : Bytes) (maxPrev artMax : Nat) (h1 : pre.length ≤ maxPrev)
    (h2 : maxPrev ≤ (pre ++ chunk).length) :
    tailWrite artMax
        (((pre ++ chunk).take maxPrev).take (min ((pre ++ chunk).take maxPrev).length artMax))
        (chunk.drop (min (((pre ++ chunk).take maxPrev).length - pre.length) chunk.length))
      = (pre ++ chunk).take artMax := by
  have hd : (pre ++ chunk).drop maxPrev = chunk.drop (maxPrev - pre.length) := by
    rw [List.drop_append, List.drop_eq_nil_of_le h1, List.nil_append]
  have hl : ((pre ++ chunk).take maxPrev).length = maxPrev := by
    rw [List.length_take]; omega
  have hc : min (maxPrev - pre.length) chunk.length = maxPrev - pre.length := by
    rw [List.length_append] at h2; omega
  rw [hl, hc, ← hd, List.take_take]
  unfold tailWrite
  generalize pre ++ chunk = L at *
  rw [List.length_take]
  by_cases h : artMax ≤ maxPrev
  · have e1 : min (min maxPrev artMax) maxPrev = artMax := by omega
    have e2 : artMax - min artMax L.length = 0 := by omega
    rw [e1, e2]; simp
  · have e1 : min (min maxPrev artMax) maxPrev = maxPrev := by omega
    have e2 : artMax - min maxPrev L.length = artMax - maxPrev := by omega
    rw [e1, e2, ← List.take_add]
    congr 1; omega

/-- invariant of the capture loop after `pre` has been read -/
structure CapInv (maxPrev artMax : Nat) (c : Cap) (pre : Bytes) : Prop where
  preview : c.preview = pre.take maxPrev
  total : c.total = pre.length
  full_t : c.full = true → maxPrev ≤ pre.length
  full_f : c.full = false → pre.length ≤ maxPrev
  file : ∀ s, c.file = some s → s = pre.take artMax
  file_none : c.file = none → c.full = true → artMax = 0

theorem CapInv.init (maxPrev artMax : Nat) : CapInv maxPrev artMax Cap.init [] := by
  refine ⟨by simp [Cap.init], rfl, ?_, ?_, ?_, ?_⟩ <;> simp [Cap.init]

theorem CapInv.preview' {maxPrev artMax : Nat} {c : Cap} {pre : Bytes}
    (h : CapInv maxPrev artMax c pre) (chunk : Bytes) :
    c.preview' maxPrev chunk = (pre ++ chunk).take maxPrev := by
  unfold Cap.preview'
  split
  · rename_i hf
    have := h.full_t hf
    rw [h.preview, List.take_append]
    have : maxPrev - pre.length = 0 := by omega
    rw [this]; simp
  · rw [h.preview, take_append_fill]

theorem CapInv.full'_iff {maxPrev artMax : Nat} {c : Cap} {pre : Bytes}
    (h : CapInv maxPrev artMax c pre) (chunk : Bytes) :
    c.full' maxPrev chunk = true ↔ maxPrev ≤ (pre ++ chunk).length := by
  unfold Cap.full'
  rw [h.preview' chunk, Bool.or_eq_true, decide_eq_true_eq, List.length_take, List.length_append]
  constructor
  · rintro (hf | hl)
    · have := h.full_t hf; omega
    · omega
  · intro hl; right; omega

theorem CapInv.step {maxPrev artMax : Nat} {c : Cap} {pre : Bytes}
    (h : CapInv maxPrev artMax c pre) (chunk : Bytes) :
    CapInv maxPrev artMax (Cap.step maxPrev artMax c chunk) (pre ++ chunk) := by
  rw [Cap.step_eq]
  refine ⟨h.preview' chunk, ?_, ?_, ?_, ?_, ?_⟩
  · simp [h.total]
  · exact (h.full'_iff chunk).mp
  · intro hf
    dsimp only at hf
    have : ¬ maxPrev ≤ (pre ++ chunk).length := by
      intro hl; rw [(h.full'_iff chunk).mpr hl] at hf; cases hf
    omega
  · intro s hs
    dsimp only [Cap.file'] at hs
    cases hfile : c.file with
    | some stored =>
      rw [hfile] at hs
      dsimp only at hs
      have := h.file stored hfile
      cases hs
      rw [this, tailWrite, take_append_fill]
    | none =>
      rw [hfile] at hs
      dsimp only at hs
      split at hs
      · cases hs
      · rename_i hcond
        have hF : c.full' maxPrev chunk = true := by
          cases hb : c.full' maxPrev chunk
          · exact absurd (Or.inl hb) hcond
          · rfl
        have h0 : artMax ≠ 0 := fun e => hcond (Or.inr e)
        have hcf : c.full = false := by
          cases hb : c.full
          · rfl
          · exact absurd (h.file_none hfile hb) h0
        have hle := h.full_f hcf
        have hp : c.preview = pre := by rw [h.preview, List.take_of_length_le hle]
        cases hs
        rw [h.preview' chunk, hp]
        exact spill_eq pre chunk maxPrev artMax hle ((h.full'_iff chunk).mp hF)
  · intro hnone hfull
    dsimp only at hnone hfull
    unfold Cap.file' at hnone
    cases hfile : c.file with
    | some stored => rw [hfile] at hnone; cases hnone
    | none =>
      rw [hfile] at hnone
      dsimp only at hnone
      split at hnone
      · rename_i hcond
        rcases hcond with hb | h0
        · rw [hfull] at hb; cases hb
        · exact h0
      · cases hnone

theorem CapInv.foldl {maxPrev artMax : Nat} {c : Cap} {pre : Bytes}
    (h : CapInv maxPrev artMax c pre) (cs : List Bytes) :
    CapInv maxPrev artMax (cs.foldl (Cap.step maxPrev artMax) c) (pre ++ cs.flatten) := by
  induction cs generalizing c pre with
  | nil => simpa using h
  | cons x cs ih =>
    rw [List.foldl_cons, List.flatten_cons, ← List.append_assoc]
    exact ih (h.step x)

theorem capInv_run (maxPrev artMax : Nat) (cs : List Bytes) :
    CapInv maxPrev artMax (Cap.run maxPrev artMax cs) cs.flatten := by
  simpa [Cap.run] using (CapInv.init maxPrev artMax).foldl cs

/-- shell capture: the preview buffer is the prefix of the output within the preview limit, for
every chunking -/
theorem cap_preview_is_prefix (maxPrev artMax : Nat) (cs : List Bytes) :
    (Cap.run maxPrev artMax cs).preview = cs.flatten.take maxPrev :=
  (capInv_run maxPrev artMax cs).preview

theorem cap_total (maxPrev artMax : Nat) (cs : List Bytes) :
    (Cap.run maxPrev artMax cs).total = cs.flatten.length :=
  (capInv_run maxPrev artMax cs).total

/-- shell capture: once the spill file exists it is the prefix of the output up to the artifact
cap -/
theorem cap_file_is_prefix (maxPrev artMax : Nat) (cs : List Bytes) (s : Bytes)
    (h : (Cap.run maxPrev artMax cs).file = some s) : s = cs.flatten.take artMax :=
  (capInv_run maxPrev artMax cs).file s h

/-- and it exists whenever the output exceeded the preview limit and the cap is positive
(no hypothesis on the chunking is needed: empty chunks are harmless) -/
theorem cap_file_exists (maxPrev artMax : Nat) (cs : List Bytes)
    (hgt : maxPrev < cs.flatten.length) (hpos : 0 < artMax) :
    ((Cap.run maxPrev artMax cs).file).isSome = true := by
  have inv := capInv_run maxPrev artMax cs
  have hfull : (Cap.run maxPrev artMax cs).full = true := by
    cases hb : (Cap.run maxPrev artMax cs).full
    · have := inv.full_f hb; omega
    · rfl
  cases hfile : (Cap.run maxPrev artMax cs).file with
  | some s => rfl
  | none => have := inv.file_none hfile hfull; omega

/-- final artifact of the capture: when reported, it is the prefix up to the cap, flagged
truncated exactly when output was longer than what was stored -/
theorem cap_finish_artifact (maxPrev artMax : Nat) (cs : List Bytes) (s : Bytes) (t : Bool)
    (h : ((Cap.run maxPrev artMax cs).finish maxPrev).artifact = some (s, t)) :
    s = cs.flatten.take artMax ∧ (t = true ↔ s.length < cs.flatten.length) := by
  have inv := capInv_run maxPrev artMax cs
  unfold Cap.finish at h
  dsimp only at h
  split at h
  · cases hfile : (Cap.run maxPrev artMax cs).file with
    | none => rw [hfile] at h; cases h
    | some s' =>
      rw [hfile] at h
      simp only [Option.map_some, Option.some.injEq, Prod.mk.injEq] at h
      obtain ⟨rfl, rfl⟩ := h
      refine ⟨inv.file _ hfile, ?_⟩
      rw [decide_eq_true_eq, inv.total]
  · cases h

/-! ## read_artifact_range -/

/-- where `readRange` cuts its buffer -/
def pageCut (buf : Bytes) : Nat :=
  match Rip.Utf8.validate buf with
  | some (v, none) => if v = 0 then buf.length else v
  | _ => buf.length

theorem readRange_raw (file : Bytes) (off max : Nat) :
    (readRange file off max).raw = ((file.drop off).take max).take (pageCut ((file.drop off).take max)) :=
  rfl

theorem pageCut_pos (buf : Bytes) (h : 0 < buf.length) : 0 < pageCut buf := by
  unfold pageCut
  split
  · split <;> omega
  · exact h

/-- page reads: a page is a contiguous slice at its offset, never longer than max -/
theorem page_is_slice (file : Bytes) (off max : Nat) :
    ∃ n, n ≤ max ∧ (readRange file off max).raw = (file.drop off).take n := by
  refine ⟨min (pageCut ((file.drop off).take max)) max, Nat.min_le_right _ _, ?_⟩
  rw [readRange_raw, List.take_take]

/-- ... and non-empty whenever there is something left and max > 0 (so a page walk makes
progress) -/
theorem page_progress (file : Bytes) (off max : Nat) (h1 : off < file.length) (h2 : 0 < max) :
    0 < (readRange file off max).raw.length := by
  have hb : 0 < ((file.drop off).take max).length := by
    rw [List.length_take, List.length_drop]; omega
  have hc := pageCut_pos _ hb
  rw [readRange_raw, List.length_take]
  omega

/-- a page is exactly the slice of its own length at its offset -/
theorem page_raw_eq (file : Bytes) (off max : Nat) :
    (readRange file off max).raw = (file.drop off).take (readRange file off max).raw.length := by
  obtain ⟨n, _, hn⟩ := page_is_slice file off max
  rw [hn, List.length_take, take_min_length]

/-- a page walk from offset 0, advancing by the bytes each page reports, reassembles the file -/
def walk (file : Bytes) (max : Nat) : Nat → Nat → List Bytes   -- fuel, offset
  | 0, _ => []
  | fuel + 1, off =>
    if off ≥ file.length then [] else
      let p := readRange file off max
      p.raw :: walk file max fuel (off + p.raw.length)

theorem walk_flatten (file : Bytes) (max : Nat) (h : 0 < max) (fuel off : Nat)
    (hoff : off ≤ file.length) (hfuel : file.length - off + 1 ≤ fuel) :
    (walk file max fuel off).flatten = file.drop off := by
  induction fuel generalizing off with
  | zero => omega
  | succ fuel ih =>
    unfold walk
    split
    · rename_i hge
      rw [List.drop_eq_nil_of_le hge]; rfl
    · rename_i hlt
      have hlt : off < file.length := by omega
      have hp := page_progress file off max hlt h
      have hr := page_raw_eq file off max
      have hlen : (readRange file off max).raw.length ≤ file.length - off := by
        rw [hr, List.length_take, List.length_drop]; omega
      dsimp only
      rw [List.flatten_cons, ih (off + (readRange file off max).raw.length) (by omega) (by omega)]
      rw [← List.drop_drop]
      conv => lhs; lhs; rw [hr]
      exact List.take_append_drop _ _

theorem pages_reassemble (file : Bytes) (max : Nat) (h : 0 < max) :
    (walk file max (file.length + 1) 0).flatten = file := by
  have := walk_flatten file max h (file.length + 1) 0 (Nat.zero_le _) (by omega)
  simpa using this

end Rip.Capture
