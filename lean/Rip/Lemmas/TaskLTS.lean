/-
C17 (lifecycle) theorems about the task LTS of `Rip.Model.TaskLTS`: under every schedule the
recorded stream is a well-formed prefix of the lifecycle grammar, complete once the main task is
done, nothing follows the terminal status, the pumps are joined before it, `cancelled` needs a
client request, and some schedule completes.
-/
import Rip.Model.TaskLTS

namespace Rip.TaskLTS

set_option linter.unusedSimpArgs false

/-! ### generic helpers -/

theorem autState_snoc (t : List Label) (l : Label) :
    autState (t ++ [l]) = (autState t).next l := by
  simp [autState, List.foldl_append]

theorem run_append (c : Cfg) (s₁ s₂ : List Actor) :
    run c (s₁ ++ s₂) = s₂.foldl (step c) (run c s₁) := by
  simp [run, List.foldl_append]

/-- a step-preserved predicate holds along every schedule -/
theorem foldl_inv {P : S → Prop} (c : Cfg) (hstep : ∀ s a, P s → P (step c s a)) :
    ∀ (sched : List Actor) (s : S), P s → P (sched.foldl (step c) s)
  | [], _, h => h
  | a :: rest, s, h => foldl_inv c hstep rest (step c s a) (hstep s a h)

/-! ### the invariant -/

/-- what the program counter of the main task says about the automaton state of the trace -/
def PcInv (s : S) : Prop :=
  (s.pc = 0 ∧ s.started = false ∧ s.cancelSeen = false ∧ autState s.trace = .start) ∨
  (s.pc = 1 ∧ s.started = false ∧ s.cancelSeen = false ∧ autState s.trace = .spawned) ∨
  (s.pc = 2 ∧ s.started = true ∧ s.cancelSeen = false ∧ autState s.trace = .running) ∨
  (s.pc = 3 ∧ s.started = true ∧
    autState s.trace = (if s.cancelSeen then A.cancelling else A.running)) ∨
  (s.pc = 4 ∧ s.started = true ∧ s.outDone = true ∧ s.errDone = true ∧
    autState s.trace = (if s.cancelSeen then A.cancelling else A.running)) ∨
  (s.pc = 5 ∧ s.started = true ∧ s.outDone = true ∧ s.errDone = true ∧
    autState s.trace = (if s.cancelSeen then A.cancelledEmitted else A.running)) ∨
  (s.pc = 9 ∧ autState s.trace = .terminal ∧
    (s.started = true → s.outDone = true ∧ s.errDone = true))

structure Inv (s : S) : Prop where
  outL : s.outDone = true → s.outLeft = 0
  errL : s.errDone = true → s.errLeft = 0
  seenSent : s.cancelSeen = true → s.cancelSent = true
  stC : Label.stCancelled ∈ s.trace → s.cancelSeen = true
  pcInv : PcInv s

theorem inv_init (c : Cfg) : Inv (init c) := by
  refine ⟨?_, ?_, ?_, ?_, ?_⟩ <;> simp [init, PcInv, autState]

theorem inv_step_client (c : Cfg) (s : S) (h : Inv s) : Inv (step c s .client) := by
  obtain ⟨h1, h2, h3, h4, h5⟩ := h
  refine ⟨h1, h2, ?_, h4, h5⟩
  simp [step]

theorem inv_step_out (c : Cfg) (s : S) (h : Inv s) : Inv (step c s .out) := by
  obtain ⟨pc, started, outLeft, errLeft, outDone, errDone, cancelSent, cancelSeen, trace⟩ := s
  cases started
  · simpa [step] using h
  cases outDone
  rotate_left
  · simpa [step] using h
  obtain ⟨h1, h2, h3, h4, h5⟩ := h
  simp only [PcInv] at h5
  by_cases hl : outLeft > 0
  · refine ⟨?_, ?_, ?_, ?_, ?_⟩
    · simp [step, emit, hl]
    · simpa [step, emit, hl] using h2
    · simpa [step, emit, hl] using h3
    · simpa [step, emit, hl] using h4
    · cases cancelSeen <;>
        rcases h5 with h5 | h5 | h5 | h5 | h5 | h5 | h5 <;>
          simp_all [step, emit, PcInv, autState_snoc, A.next]
  · refine ⟨?_, ?_, ?_, ?_, ?_⟩
    · simp [step, hl]; omega
    · simpa [step, emit, hl] using h2
    · simpa [step, emit, hl] using h3
    · simpa [step, emit, hl] using h4
    · rcases h5 with h5 | h5 | h5 | h5 | h5 | h5 | h5 <;>
          simp_all [step, PcInv]

theorem inv_step_err (c : Cfg) (s : S) (h : Inv s) : Inv (step c s .err) := by
  obtain ⟨pc, started, outLeft, errLeft, outDone, errDone, cancelSent, cancelSeen, trace⟩ := s
  cases started
  · simpa [step] using h
  cases errDone
  rotate_left
  · simpa [step] using h
  obtain ⟨h1, h2, h3, h4, h5⟩ := h
  simp only [PcInv] at h5
  by_cases hl : errLeft > 0
  · refine ⟨?_, ?_, ?_, ?_, ?_⟩
    · simpa [step, emit, hl] using h1
    · simp [step, emit, hl]
    · simpa [step, emit, hl] using h3
    · simpa [step, emit, hl] using h4
    · cases cancelSeen <;>
        rcases h5 with h5 | h5 | h5 | h5 | h5 | h5 | h5 <;>
          simp_all [step, emit, PcInv, autState_snoc, A.next]
  · refine ⟨?_, ?_, ?_, ?_, ?_⟩
    · simpa [step, emit, hl] using h1
    · simp [step, hl]; omega
    · simpa [step, emit, hl] using h3
    · simpa [step, emit, hl] using h4
    · rcases h5 with h5 | h5 | h5 | h5 | h5 | h5 | h5 <;>
          simp_all [step, PcInv]

theorem inv_step_mainCancel (c : Cfg) (s : S) (h : Inv s) : Inv (step c s .mainCancel) := by
  obtain ⟨pc, started, outLeft, errLeft, outDone, errDone, cancelSent, cancelSeen, trace⟩ := s
  by_cases hp : pc = 2
  rotate_left
  · simpa [step, hp] using h
  subst hp
  cases cancelSent
  · simpa [step] using h
  obtain ⟨h1, h2, h3, h4, h5⟩ := h
  simp only [PcInv] at h5
  refine ⟨?_, ?_, ?_, ?_, ?_⟩
  · simpa [step, emit] using h1
  · simpa [step, emit] using h2
  · simp [step, emit]
  · simp [step, emit]
  · rcases h5 with h5 | h5 | h5 | h5 | h5 | h5 | h5 <;>
      simp_all [step, emit, PcInv, autState_snoc, A.next]

theorem inv_step_main (c : Cfg) (s : S) (h : Inv s) : Inv (step c s .main) := by
  obtain ⟨pc, started, outLeft, errLeft, outDone, errDone, cancelSent, cancelSeen, trace⟩ := s
  obtain ⟨h1, h2, h3, h4, h5⟩ := h
  simp only [PcInv] at h5
  rcases h5 with h5 | h5 | h5 | h5 | h5 | h5 | h5
  · obtain ⟨hp, h5⟩ := h5
    subst hp
    refine ⟨?_, ?_, ?_, ?_, ?_⟩ <;> simp_all [step, emit, PcInv, autState_snoc, A.next]
  · obtain ⟨hp, h5⟩ := h5
    subst hp
    cases hf : c.failEarly <;>
    refine ⟨?_, ?_, ?_, ?_, ?_⟩ <;> simp_all [step, emit, PcInv, autState_snoc, A.next]
  · obtain ⟨hp, h5⟩ := h5
    subst hp
    refine ⟨?_, ?_, ?_, ?_, ?_⟩ <;> simp_all [step, emit, PcInv, autState_snoc, A.next]
  · obtain ⟨hp, h5⟩ := h5
    subst hp
    cases outDone <;> cases errDone <;>
    refine ⟨?_, ?_, ?_, ?_, ?_⟩ <;> simp_all [step, emit, PcInv, autState_snoc, A.next]
  · obtain ⟨hp, h5⟩ := h5
    subst hp
    cases cancelSeen <;>
    refine ⟨?_, ?_, ?_, ?_, ?_⟩ <;> simp_all [step, emit, PcInv, autState_snoc, A.next]
  · obtain ⟨hp, h5⟩ := h5
    subst hp
    cases hw : c.waitFails <;> cases cancelSeen <;>
    refine ⟨?_, ?_, ?_, ?_, ?_⟩ <;> simp_all [step, emit, PcInv, autState_snoc, A.next]
  · obtain ⟨hp, h5⟩ := h5
    subst hp
    refine ⟨?_, ?_, ?_, ?_, ?_⟩ <;> simp_all [step, emit, PcInv, autState_snoc, A.next]

theorem inv_step (c : Cfg) (s : S) (a : Actor) (h : Inv s) : Inv (step c s a) := by
  cases a
  · exact inv_step_main c s h
  · exact inv_step_mainCancel c s h
  · exact inv_step_out c s h
  · exact inv_step_err c s h
  · exact inv_step_client c s h

theorem inv_run (c : Cfg) (sched : List Actor) : Inv (run c sched) :=
  foldl_inv c (fun s a => inv_step c s a) sched (init c) (inv_init c)

/-! ### safety -/

/-- under EVERY schedule (any interleaving of the main task, both pumps and the client, of any
length) the recorded stream is a well-formed prefix of a task lifecycle -/
theorem lifecycle_prefix (c : Cfg) (sched : List Actor) : prefixOK (run c sched).trace = true := by
  have h := (inv_run c sched).pcInv
  simp only [PcInv] at h
  simp only [prefixOK, bne_iff_ne, ne_eq]
  rcases h with h | h | h | h | h | h | h
  · simp [h]
  · simp [h]
  · simp [h]
  · obtain ⟨_, _, h⟩ := h
    rw [h]; split <;> simp
  · obtain ⟨_, _, _, _, h⟩ := h
    rw [h]; split <;> simp
  · obtain ⟨_, _, _, _, h⟩ := h
    rw [h]; split <;> simp
  · simp [h]

/-- and once the main task has finished it is a complete lifecycle: spawn frame first, running at
most once, exactly one terminal status and it is last, cancel request before cancelled -/
theorem lifecycle_complete (c : Cfg) (sched : List Actor) (h : (run c sched).pc = 9) :
    lifecycleOK (run c sched).trace = true := by
  have hi := (inv_run c sched).pcInv
  simp only [PcInv] at hi
  simp only [lifecycleOK, beq_iff_eq]
  rcases hi with hi | hi | hi | hi | hi | hi | hi <;> first | exact hi.2.1 | (exfalso; omega)

/-- once the main task has finished no actor emits or moves the program counter (only the client
may still set its request flag) -/
theorem step_done (c : Cfg) (s : S) (a : Actor) (hi : Inv s) (h : s.pc = 9) :
    (step c s a).pc = 9 ∧ (step c s a).trace = s.trace := by
  obtain ⟨pc, started, outLeft, errLeft, outDone, errDone, cancelSent, cancelSeen, trace⟩ := s
  have h5 := hi.pcInv
  simp only [PcInv] at h5 h
  subst h
  rcases h5 with h5 | h5 | h5 | h5 | h5 | h5 | h5 <;> try (exfalso; omega)
  obtain ⟨_, _, h5⟩ := h5
  cases a
  · simp [step]
  · simp [step]
  · cases started
    · simp [step]
    · simp [step, (h5 rfl).1]
  · cases started
    · simp [step]
    · simp [step, (h5 rfl).2]
  · simp [step]

/-- nothing is ever emitted after the terminal status -/
theorem nothing_after_terminal (c : Cfg) (sched more : List Actor) (h : (run c sched).pc = 9) :
    (run c (sched ++ more)).trace = (run c sched).trace := by
  rw [run_append]
  have key := foldl_inv (P := fun s => Inv s ∧ s.pc = 9 ∧ s.trace = (run c sched).trace) c
    (fun s a ⟨hi, hp, ht⟩ =>
      ⟨inv_step c s a hi, (step_done c s a hi hp).1, (step_done c s a hi hp).2.trans ht⟩)
    more (run c sched) ⟨inv_run c sched, h, rfl⟩
  exact key.2.2

/-- every output chunk is emitted before the terminal status: when the main task has finished,
both pumps have drained (or never started) -/
theorem pumps_joined (c : Cfg) (sched : List Actor) (h : (run c sched).pc = 9) :
    let s := run c sched
    s.started = true → s.outDone = true ∧ s.errDone = true ∧ s.outLeft = 0 ∧ s.errLeft = 0 := by
  intro s hs
  have hi : Inv s := inv_run c sched
  have h5 := hi.pcInv
  simp only [PcInv] at h5
  have h9 : s.pc = 9 := h
  rcases h5 with h5 | h5 | h5 | h5 | h5 | h5 | h5 <;> try (exfalso; omega)
  obtain ⟨hd1, hd2⟩ := h5.2.2 hs
  exact ⟨hd1, hd2, hi.outL hd1, hi.errL hd2⟩

/-- the request flag is only ever set by the client -/
theorem cancelSent_client (c : Cfg) (sched : List Actor) :
    (run c sched).cancelSent = true → Actor.client ∈ sched := by
  have key : ∀ (sched : List Actor) (s : S),
      (sched.foldl (step c) s).cancelSent = true → s.cancelSent = true ∨ Actor.client ∈ sched := by
    intro sched
    induction sched with
    | nil => intro s h; exact Or.inl h
    | cons a rest ih =>
      intro s h
      rcases ih (step c s a) h with h' | h'
      · cases a
        · left
          revert h'
          unfold step
          simp only
          split <;> (try split) <;> (try split) <;> simp [emit]
        · left
          revert h'
          unfold step
          simp only
          split <;> simp [emit]
        · left
          revert h'
          unfold step
          simp only
          split <;> (try split) <;> simp [emit]
        · left
          revert h'
          unfold step
          simp only
          split <;> (try split) <;> simp [emit]
        · right; simp
      · right; exact List.mem_cons_of_mem _ h'
  intro h
  rcases key sched (init c) h with h' | h'
  · simp [init] at h'
  · exact h'

/-- a cancelled terminal status occurs only if the client asked for cancellation -/
theorem cancelled_only_if_requested (c : Cfg) (sched : List Actor)
    (h : Label.stCancelled ∈ (run c sched).trace) : Actor.client ∈ sched := by
  have hi := inv_run c sched
  exact cancelSent_client c sched (hi.seenSent (hi.stC h))

/-! ### progress -/

/-- `k` stdout-pump steps finish the pump when fewer than `k` chunks are left; they do not move
the main task or touch the stderr pump -/
theorem out_steps (c : Cfg) : ∀ (k : Nat) (s : S), s.started = true →
    (s.outDone = true ∨ s.outLeft < k) →
    let s' := (List.replicate k Actor.out).foldl (step c) s
    s'.pc = s.pc ∧ s'.started = true ∧ s'.outDone = true ∧ s'.errDone = s.errDone ∧
      s'.errLeft = s.errLeft
  | 0, s, hs, hq => by
    rcases hq with hq | hq
    · simp [hs, hq]
    · omega
  | k + 1, s, hs, hq => by
    obtain ⟨pc, started, outLeft, errLeft, outDone, errDone, cancelSent, cancelSeen, trace⟩ := s
    simp only at hs hq
    subst hs
    simp only [List.replicate_succ, List.foldl_cons]
    cases outDone
    · have hq : outLeft < k + 1 := by simpa using hq
      by_cases hl : outLeft > 0
      · have := out_steps c k (step c ⟨pc, true, outLeft, errLeft, false, errDone, cancelSent,
          cancelSeen, trace⟩ .out) (by simp [step, emit, hl]) (by simp [step, emit, hl]; omega)
        simpa [step, emit, hl] using this
      · have := out_steps c k (step c ⟨pc, true, outLeft, errLeft, false, errDone, cancelSent,
          cancelSeen, trace⟩ .out) (by simp [step, emit, hl]) (by simp [step, emit, hl])
        simpa [step, emit, hl] using this
    · have := out_steps c k (step c ⟨pc, true, outLeft, errLeft, true, errDone, cancelSent,
          cancelSeen, trace⟩ .out) (by simp [step]) (by simp [step])
      simpa [step] using this

/-- the same for the stderr pump -/
theorem err_steps (c : Cfg) : ∀ (k : Nat) (s : S), s.started = true →
    (s.errDone = true ∨ s.errLeft < k) →
    let s' := (List.replicate k Actor.err).foldl (step c) s
    s'.pc = s.pc ∧ s'.started = true ∧ s'.errDone = true ∧ s'.outDone = s.outDone
  | 0, s, hs, hq => by
    rcases hq with hq | hq
    · simp [hs, hq]
    · omega
  | k + 1, s, hs, hq => by
    obtain ⟨pc, started, outLeft, errLeft, outDone, errDone, cancelSent, cancelSeen, trace⟩ := s
    simp only at hs hq
    subst hs
    simp only [List.replicate_succ, List.foldl_cons]
    cases errDone
    · have hq : errLeft < k + 1 := by simpa using hq
      by_cases hl : errLeft > 0
      · have := err_steps c k (step c ⟨pc, true, outLeft, errLeft, outDone, false, cancelSent,
          cancelSeen, trace⟩ .err) (by simp [step, emit, hl]) (by simp [step, emit, hl]; omega)
        simpa [step, emit, hl] using this
      · have := err_steps c k (step c ⟨pc, true, outLeft, errLeft, outDone, false, cancelSent,
          cancelSeen, trace⟩ .err) (by simp [step, emit, hl]) (by simp [step, emit, hl])
        simpa [step, emit, hl] using this
    · have := err_steps c k (step c ⟨pc, true, outLeft, errLeft, outDone, true, cancelSent,
          cancelSeen, trace⟩ .err) (by simp [step]) (by simp [step])
      simpa [step] using this

/-- from the join point with both pumps done, three main steps finish the task -/
theorem main_finish (c : Cfg) (s : S) (hp : s.pc = 3) (ho : s.outDone = true)
    (he : s.errDone = true) : ([Actor.main, .main, .main].foldl (step c) s).pc = 9 := by
  obtain ⟨pc, started, outLeft, errLeft, outDone, errDone, cancelSent, cancelSeen, trace⟩ := s
  simp only at hp ho he
  subst hp ho he
  cases cancelSeen <;> cases hw : c.waitFails <;> simp [step, emit, hw]

/-- the completing schedule: spawn, start, child exits, drain stdout, drain stderr, join, finish -/
def completing (c : Cfg) : List Actor :=
  if c.failEarly then [.main, .main]
  else [.main, .main, .main] ++ (List.replicate (c.nOut + 1) .out ++
    (List.replicate (c.nErr + 1) .err ++ [.main, .main, .main]))

theorem completing_completes (c : Cfg) : (run c (completing c)).pc = 9 := by
  unfold completing
  cases hf : c.failEarly
  · simp only [Bool.false_eq_true, if_false]
    rw [run_append]
    have h0 : run c [.main, .main, .main] =
        { init c with pc := 3, started := true, trace := [.spawned, .running] } := by
      simp [run, init, step, emit, hf]
    rw [List.foldl_append, List.foldl_append]
    have h1 := out_steps c (c.nOut + 1) (run c [.main, .main, .main]) (by simp [h0])
      (Or.inr (by simp [h0, init]))
    simp only at h1
    obtain ⟨h1p, h1s, h1o, h1e, h1l⟩ := h1
    have h2 := err_steps c (c.nErr + 1) _ h1s (Or.inr (by rw [h1l, h0]; simp [init]))
    simp only at h2
    obtain ⟨h2p, h2s, h2e, h2o⟩ := h2
    apply main_finish
    · rw [h2p, h1p, h0]
    · rw [h2o, h1o]
    · exact h2e
  · simp [run, init, step, emit, hf]

/-- progress: some schedule completes the task (the LTS has no deadlock for the main actor once the
pumps are scheduled) -/
theorem can_complete (c : Cfg) : ∃ sched, (run c sched).pc = 9 :=
  ⟨completing c, completing_completes c⟩

/-! ### sanity (non-vacuity) checks, by kernel evaluation -/

/-- a cancelled run really is reachable and has the expected stream -/
example : (run ⟨false, false, 2, 1⟩ [.main, .main, .out, .client, .mainCancel, .out, .err, .out,
    .err, .main, .main, .main]).trace =
    [.spawned, .running, .delta, .cancelReq, .delta, .delta, .cancelled, .stCancelled] := by decide

example : (run ⟨false, false, 2, 1⟩ (completing ⟨false, false, 2, 1⟩)).trace =
    [.spawned, .running, .delta, .delta, .delta, .stExited] := by decide

example : (run ⟨true, false, 2, 1⟩ (completing ⟨true, false, 2, 1⟩)).trace =
    [.spawned, .stFailed] := by decide

/-- `nothing_after_terminal` is about the TRACE: the full state may still change after the
terminal status (a late client request sets `cancelSent`), so `run c (sched ++ more) = run c sched`
would be false -/
example : run ⟨true, false, 0, 0⟩ ([.main, .main] ++ [.client]) ≠
    run ⟨true, false, 0, 0⟩ [.main, .main] := by decide

/-- without the pumps being scheduled the main task does not finish (it waits at the join) -/
example : (run ⟨false, false, 0, 0⟩ (List.replicate 10 .main)).pc = 3 := by decide

end Rip.TaskLTS
