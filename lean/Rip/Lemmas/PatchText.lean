/-
C12 lemmas: line-ending style and trailing newline of text updates
(`apply_hunks_to_text` = `split_lines` ; hunk loop ; `join_lines`).
`Bytes` is `List UInt8`; LF is `10`, CR is `13`.
-/
import Rip.Model.Patch
namespace Rip.Patch
open Rip.Proto

/-- a line as the patch parser and `split_lines` produce it: no LF inside, and no CR at its end -/
def CleanLine (l : Bytes) : Prop := 10 ∉ l ∧ l.getLast? ≠ some 13
/-- the line terminator chosen by `apply_hunks_to_text` -/
def leOf (original : Bytes) : Bytes := if hasCrLf original then [13, 10] else [10]

/-! ### `intercalate` and `joinLines` -/

theorem intercalate_cons_of_ne_nil (sep x : Bytes) {l : List Bytes} (h : l ≠ []) :
    intercalate sep (x :: l) = x ++ sep ++ intercalate sep l := by
  cases l with
  | nil => exact absurd rfl h
  | cons y ys => simp [intercalate]

theorem intercalate_cons_snoc (sep x z : Bytes) (l : List Bytes) :
    intercalate sep (x :: (l ++ [z])) = x ++ sep ++ intercalate sep (l ++ [z]) :=
  intercalate_cons_of_ne_nil sep x (by simp)

theorem intercalate_snoc_nil (sep : Bytes) (ls : List Bytes) (hne : ls ≠ []) :
    intercalate sep (ls ++ [[]]) = intercalate sep ls ++ sep := by
  induction ls with
  | nil => exact absurd rfl hne
  | cons x xs ih =>
    cases xs with
    | nil => simp [intercalate]
    | cons y ys =>
      have h1 : intercalate sep (x :: (y :: ys ++ [[]]))
          = x ++ sep ++ intercalate sep (y :: ys ++ [[]]) :=
        intercalate_cons_of_ne_nil sep x (by simp)
      have h2 : intercalate sep (x :: y :: ys) = x ++ sep ++ intercalate sep (y :: ys) :=
        intercalate_cons_of_ne_nil sep x (by simp)
      rw [List.cons_append, h1, ih (by simp), h2]
      simp

/-- `joinLines` is one `intercalate`: a trailing terminator is an extra empty last line -/
theorem joinLines_eq (ls : List Bytes) (t : Bool) (le : Bytes) (hne : ls ≠ []) :
    joinLines ls t le = intercalate le (if t then ls ++ [[]] else ls) := by
  have : ls.isEmpty = false := by cases ls <;> simp_all
  cases t <;> simp [joinLines, this, intercalate_snoc_nil _ _ hne]

theorem intercalate_suffix (sep z : Bytes) (l : List Bytes) :
    ∃ p, intercalate sep (l ++ [z]) = p ++ z := by
  induction l with
  | nil => exact ⟨[], by simp [intercalate]⟩
  | cons x xs ih =>
    obtain ⟨p, hp⟩ := ih
    refine ⟨x ++ sep ++ p, ?_⟩
    rw [List.cons_append, intercalate_cons_snoc, hp]; simp

theorem getLast?_intercalate_snoc (sep z : Bytes) (l : List Bytes) (hz : z ≠ []) :
    (intercalate sep (l ++ [z])).getLast? = z.getLast? := by
  obtain ⟨p, hp⟩ := intercalate_suffix sep z l
  rw [hp, List.getLast?_append]
  cases h : z.getLast? with
  | none => simp_all
  | some b => simp

/-! ### `splitOnNl` -/

theorem go_noLf (l cur : Bytes) (h : 10 ∉ l) : splitOnNl.go l cur = [cur.reverse ++ l] := by
  induction l generalizing cur with
  | nil => simp [splitOnNl.go]
  | cons b r ih =>
    have hb : b ≠ 10 := fun e => h (by simp [e])
    have hr : 10 ∉ r := fun e => h (by simp [e])
    simp [splitOnNl.go, hb, ih _ hr]

theorem go_append (l r cur : Bytes) (h : 10 ∉ l) :
    splitOnNl.go (l ++ 10 :: r) cur = (cur.reverse ++ l) :: splitOnNl.go r [] := by
  induction l generalizing cur with
  | nil => simp [splitOnNl.go]
  | cons b l ih =>
    have hb : b ≠ 10 := fun e => h (by simp [e])
    have hr : 10 ∉ l := fun e => h (by simp [e])
    simp [splitOnNl.go, hb, ih _ hr]

theorem splitOnNl_noLf (l : Bytes) (h : 10 ∉ l) : splitOnNl l = [l] := by
  simp [splitOnNl, go_noLf l [] h]

theorem splitOnNl_append (l r : Bytes) (h : 10 ∉ l) :
    splitOnNl (l ++ 10 :: r) = l :: splitOnNl r := by
  simp [splitOnNl, go_append l r [] h]

theorem go_ne_nil (s cur : Bytes) : splitOnNl.go s cur ≠ [] := by
  induction s generalizing cur with
  | nil => simp [splitOnNl.go]
  | cons b r ih =>
    by_cases hb : b = 10
    · simp [splitOnNl.go, hb]
    · simp [splitOnNl.go, hb, ih]

theorem go_lines_noLf (s cur : Bytes) (hc : 10 ∉ cur) : ∀ l ∈ splitOnNl.go s cur, 10 ∉ l := by
  induction s generalizing cur with
  | nil => simp [splitOnNl.go, hc]
  | cons b r ih =>
    by_cases hb : b = 10
    · intro l hl
      simp only [splitOnNl.go, hb, if_true, List.mem_cons] at hl
      rcases hl with rfl | hl
      · simpa using hc
      · exact ih [] (by simp) l hl
    · intro l hl
      simp only [splitOnNl.go, hb, if_false] at hl
      exact ih (b :: cur) (by simp [hc, Ne.symm hb]) l hl

theorem go_lines_sub (s cur : Bytes) :
    ∀ l ∈ splitOnNl.go s cur, ∀ b ∈ l, b ∈ cur ∨ b ∈ s := by
  induction s generalizing cur with
  | nil => simp [splitOnNl.go]
  | cons c r ih =>
    by_cases hc : c = 10
    · intro l hl b hb
      simp only [splitOnNl.go, hc, if_true, List.mem_cons] at hl
      rcases hl with rfl | hl
      · left; simpa using hb
      · rcases ih [] l hl b hb with h | h
        · simp at h
        · right; simp [h]
    · intro l hl b hb
      simp only [splitOnNl.go, hc, if_false] at hl
      rcases ih (c :: cur) l hl b hb with h | h
      · rcases List.mem_cons.1 h with h | h
        · right; simp [h]
        · left; exact h
      · right; simp [h]

theorem splitOnNl_lines_noLf (s : Bytes) : ∀ l ∈ splitOnNl s, 10 ∉ l :=
  go_lines_noLf s [] (by simp)

theorem splitOnNl_lines_sub (s : Bytes) : ∀ l ∈ splitOnNl s, ∀ b ∈ l, b ∈ s := by
  intro l hl b hb
  rcases go_lines_sub s [] l hl b hb with h | h
  · simp at h
  · exact h

theorem intercalate_go (s cur : Bytes) :
    intercalate [10] (splitOnNl.go s cur) = cur.reverse ++ s := by
  induction s generalizing cur with
  | nil => simp [splitOnNl.go, intercalate]
  | cons b r ih =>
    by_cases hb : b = 10
    · simp only [splitOnNl.go, hb, if_true]
      rw [intercalate_cons_of_ne_nil _ _ (go_ne_nil r []), ih]; simp
    · simp only [splitOnNl.go, hb, if_false]
      rw [ih]; simp

/-- joining the LF-split pieces with LF gives the text back, for every text -/
theorem intercalate_splitOnNl (s : Bytes) : intercalate [10] (splitOnNl s) = s := by
  simp [splitOnNl, intercalate_go]

theorem splitOnNl_snoc (s : Bytes) : ∃ L z, splitOnNl s = L ++ [z] := by
  rcases List.eq_nil_or_concat (splitOnNl s) with h | ⟨L, z, h⟩
  · exact absurd h (go_ne_nil s [])
  · exact ⟨L, z, by simpa using h⟩

/-- splitting a join of LF-free lines: every line but the last keeps the CR part of the terminator -/
theorem splitOnNl_intercalate (cr z : Bytes) (ls : List Bytes)
    (hcr : 10 ∉ cr) (hls : ∀ l ∈ ls, 10 ∉ l) (hz : 10 ∉ z) :
    splitOnNl (intercalate (cr ++ [10]) (ls ++ [z])) = ls.map (· ++ cr) ++ [z] := by
  induction ls with
  | nil => simp [intercalate, splitOnNl_noLf z hz]
  | cons x xs ih =>
    have hx : 10 ∉ x ++ cr := by
      have := hls x (by simp)
      simp [this, hcr]
    rw [List.cons_append, intercalate_cons_snoc]
    have e : x ++ (cr ++ [10]) ++ intercalate (cr ++ [10]) (xs ++ [z])
        = (x ++ cr) ++ 10 :: intercalate (cr ++ [10]) (xs ++ [z]) := by simp
    rw [e, splitOnNl_append _ _ hx, ih (fun l hl => hls l (by simp [hl]))]
    simp

/-! ### `stripCr` -/

theorem stripCr_of_ne (l : Bytes) (h : l.getLast? ≠ some 13) : stripCr l = l := by
  unfold stripCr
  split
  · next h' => exact absurd h' h
  · rfl

theorem stripCr_snoc13 (x : Bytes) : stripCr (x ++ [13]) = x := by
  unfold stripCr
  simp

theorem stripCr_nil : stripCr [] = [] := by
  simp [stripCr]

theorem stripCr_sub (l : Bytes) : ∀ b ∈ stripCr l, b ∈ l := by
  intro b hb
  unfold stripCr at hb
  split at hb
  · exact List.dropLast_subset _ hb
  · exact hb

theorem stripCr_append_of_getLast (l : Bytes) (h : l.getLast? = some 13) :
    stripCr l ++ [13] = l := by
  rcases List.eq_nil_or_concat l with rfl | ⟨l', b, rfl⟩
  · simp at h
  · simp at h
    subst h
    simp [stripCr_snoc13]

/-! ### `hasCrLf` -/

theorem hasCrLf_cons (x : UInt8) (r : Bytes) :
    hasCrLf (x :: r) = ((x == 13 && r.head? == some 10) || hasCrLf r) := by
  cases r with
  | nil => simp [hasCrLf]
  | cons y ys =>
    by_cases hx : x = 13
    · by_cases hy : y = 10
      · subst hx hy; simp [hasCrLf]
      · rw [hasCrLf.eq_2]
        · simp [hx, hy]
        · intro t _ e; exact hy (by simpa using (List.cons.inj e).1)
    · rw [hasCrLf.eq_2]
      · simp [hx]
      · intro t e _; exact hx e

theorem hasCrLf_append (a b : Bytes) :
    hasCrLf (a ++ b)
      = (hasCrLf a || (a.getLast? == some 13 && b.head? == some 10) || hasCrLf b) := by
  induction a with
  | nil => simp [hasCrLf]
  | cons x a ih =>
    rw [List.cons_append, hasCrLf_cons, ih, hasCrLf_cons]
    cases a with
    | nil => simp [hasCrLf]
    | cons y ys =>
      simp only [List.cons_append, List.head?_cons, List.getLast?_cons_cons]
      cases (x == 13 && some y == some 10) <;> cases hasCrLf (y :: ys) <;> simp

theorem hasCrLf_of_noLf (l : Bytes) (h : 10 ∉ l) : hasCrLf l = false := by
  induction l with
  | nil => simp [hasCrLf]
  | cons x r ih =>
    have hr : 10 ∉ r := fun e => h (by simp [e])
    rw [hasCrLf_cons, ih hr]
    cases r with
    | nil => simp
    | cons y ys =>
      have : y ≠ 10 := fun e => hr (by simp [e])
      simp [this]

theorem hasCrLf_intercalate_lf (ls : List Bytes) (hclean : ∀ l ∈ ls, CleanLine l) :
    hasCrLf (intercalate [10] ls) = false := by
  induction ls with
  | nil => simp [intercalate, hasCrLf]
  | cons x xs ih =>
    cases xs with
    | nil => simpa [intercalate] using hasCrLf_of_noLf x (hclean x (by simp)).1
    | cons y ys =>
      have hx := hclean x (by simp)
      have hrest := ih (fun l hl => hclean l (by simp [hl]))
      rw [intercalate_cons_of_ne_nil _ _ (by simp), List.append_assoc, hasCrLf_append,
        hasCrLf_of_noLf x hx.1, List.singleton_append, hasCrLf_cons, hrest]
      simp [hx.2]

theorem hasCrLf_intercalate_crlf (ls : List Bytes) (hclean : ∀ l ∈ ls, 10 ∉ l) :
    hasCrLf (intercalate [13, 10] ls) = decide (2 ≤ ls.length) := by
  cases ls with
  | nil => simp [intercalate, hasCrLf]
  | cons x xs =>
    cases xs with
    | nil => simpa [intercalate] using hasCrLf_of_noLf x (hclean x (by simp))
    | cons y ys =>
      rw [intercalate_cons_of_ne_nil _ _ (by simp), List.append_assoc, hasCrLf_append]
      simp [hasCrLf]

/-! ### 1. membership through the hunk loop -/

theorem applyHunksLines_mem (lines : List Bytes) (cursor : Nat) (hs : List Hunk) (out : List Bytes)
    (h : applyHunksLines lines cursor hs = some out) :
    ∀ l ∈ out, l ∈ lines ∨ ∃ hk ∈ hs, l ∈ hk.after := by
  induction hs generalizing lines cursor with
  | nil =>
    simp only [applyHunksLines, Option.some.injEq] at h
    subst h
    intro l hl; exact Or.inl hl
  | cons hk hs ih =>
    simp only [applyHunksLines] at h
    intro l hl
    split at h
    · rcases ih _ _ h l hl with h1 | ⟨k, hk1, hk2⟩
      · rcases List.mem_append.1 h1 with h2 | h2
        · exact Or.inl h2
        · exact Or.inr ⟨hk, by simp, h2⟩
      · exact Or.inr ⟨k, by simp [hk1], hk2⟩
    · split at h
      · simp at h
      · rcases ih _ _ h l hl with h1 | ⟨k, hk1, hk2⟩
        · rcases List.mem_append.1 h1 with h2 | h2
          · rcases List.mem_append.1 h2 with h3 | h3
            · exact Or.inl (List.mem_of_mem_take h3)
            · exact Or.inr ⟨hk, by simp, h3⟩
          · exact Or.inl (List.mem_of_mem_drop h2)
        · exact Or.inr ⟨k, by simp [hk1], hk2⟩

/-! ### 3. trailing newline preserved -/

theorem joinLines_trailing (ls : List Bytes) (t : Bool) (le : Bytes)
    (hle : le = [10] ∨ le = [13, 10]) (hne : ls ≠ [])
    (hclean : ∀ l ∈ ls, 10 ∉ l) (hlast : t = true ∨ ls.getLast? ≠ some []) :
    ((joinLines ls t le).getLast? == some 10) = t := by
  cases t with
  | true =>
    have hl : le.getLast? = some 10 := by rcases hle with rfl | rfl <;> simp
    have hi : ls.isEmpty = false := by cases ls <;> simp_all
    simp [joinLines, hi, List.getLast?_append, hl]
  | false =>
    rcases List.eq_nil_or_concat ls with rfl | ⟨L, z, rfl⟩
    · exact absurd rfl hne
    · simp only [List.concat_eq_append] at *
      have hz : z ≠ [] := by
        rcases hlast with h | h
        · simp at h
        · intro e; apply h; simp [e]
      have h10 : 10 ∉ z := hclean z (by simp)
      rw [joinLines_eq _ _ _ (by simp)]
      simp only [Bool.false_eq_true, if_false]
      rw [getLast?_intercalate_snoc _ _ _ hz]
      have : z.getLast? ≠ some 10 := by
        intro e; exact h10 (List.mem_of_getLast? e)
      simpa using this

/-! ### 2. re-reading what was written -/

theorem splitLines_joinLines (ls : List Bytes) (t : Bool) (le : Bytes)
    (hle : le = [10] ∨ le = [13, 10]) (hne : ls ≠ [])
    (hclean : ∀ l ∈ ls, CleanLine l) (hlast : t = true ∨ ls.getLast? ≠ some []) :
    splitLines (joinLines ls t le) = (ls, t) := by
  have htr := joinLines_trailing ls t le hle hne (fun l hl => (hclean l hl).1) hlast
  obtain ⟨cr, hcr, hcr10, hstrip⟩ : ∃ cr : Bytes, le = cr ++ [10] ∧ 10 ∉ cr ∧
      ∀ x : Bytes, CleanLine x → stripCr (x ++ cr) = x := by
    rcases hle with rfl | rfl
    · exact ⟨[], by simp, by simp, fun x hx => by simpa using stripCr_of_ne x hx.2⟩
    · exact ⟨[13], by simp, by decide, fun x _ => stripCr_snoc13 x⟩
  have hmap : ∀ L : List Bytes, (∀ l ∈ L, CleanLine l) →
      (L.map (· ++ cr)).map stripCr = L := by
    intro L hL
    induction L with
    | nil => rfl
    | cons x xs ih =>
      simp only [List.map_cons, hstrip x (hL x (by simp))]
      rw [ih (fun l hl => hL l (by simp [hl]))]
  unfold splitLines
  simp only [htr]
  cases t with
  | true =>
    rw [joinLines_eq _ _ _ hne]
    simp only [if_true, hcr]
    rw [splitOnNl_intercalate cr [] ls hcr10 (fun l hl => (hclean l hl).1) (by simp)]
    simp [hmap ls hclean, stripCr_nil]
  | false =>
    rcases List.eq_nil_or_concat ls with rfl | ⟨L, z, rfl⟩
    · exact absurd rfl hne
    · simp only [List.concat_eq_append] at *
      have hzc : CleanLine z := hclean z (by simp)
      rw [joinLines_eq _ _ _ (by simp)]
      simp only [Bool.false_eq_true, if_false, hcr]
      rw [splitOnNl_intercalate cr z L hcr10 (fun l hl => (hclean l (by simp [hl])).1) hzc.1]
      simp [hmap L (fun l hl => hclean l (by simp [hl])), stripCr_of_ne z hzc.2]

/-! ### 4. line-ending style preserved -/

theorem hasCrLf_joinLines (ls : List Bytes) (t : Bool) (le : Bytes)
    (hle : le = [10] ∨ le = [13, 10]) (hne : ls ≠ [])
    (hclean : ∀ l ∈ ls, CleanLine l) :
    hasCrLf (joinLines ls t le) = (le == [13, 10] && (t || decide (2 ≤ ls.length))) := by
  have hnil : CleanLine [] := by simp [CleanLine]
  have hclean' : ∀ l ∈ (if t then ls ++ [[]] else ls), CleanLine l := by
    cases t
    · simpa using hclean
    · intro l hl
      simp only [if_true, List.mem_append, List.mem_singleton] at hl
      rcases hl with hl | rfl
      · exact hclean l hl
      · exact hnil
  rw [joinLines_eq _ _ _ hne]
  rcases hle with rfl | rfl
  · rw [hasCrLf_intercalate_lf _ hclean']
    simp
  · rw [hasCrLf_intercalate_crlf _ (fun l hl => (hclean' l hl).1)]
    have : 1 ≤ ls.length := by
      cases ls with
      | nil => exact absurd rfl hne
      | cons _ _ => simp
    cases t
    · simp
    · simp; omega

/-! ### 5. what `split_lines` produces, and the identity on uniformly terminated text -/

theorem splitLines_noLf (text : Bytes) : ∀ l ∈ (splitLines text).1, 10 ∉ l := by
  intro l hl
  have key : ∀ l ∈ (splitOnNl text).map stripCr, 10 ∉ l := by
    intro l hl
    obtain ⟨l', hl', rfl⟩ := List.mem_map.1 hl
    intro h10
    exact splitOnNl_lines_noLf text l' hl' (stripCr_sub l' 10 h10)
  unfold splitLines at hl
  simp only at hl
  split at hl
  · exact key l (List.dropLast_subset _ hl)
  · exact key l hl

/-- every piece of `splitOnNl` that is followed by an LF ends where that LF's predecessor is -/
theorem splitOnNl_piece_before_lf (z : Bytes) (L : List Bytes) (l : Bytes) (hl : l ∈ L) :
    ∃ a b, intercalate [10] (L ++ [z]) = a ++ 10 :: b ∧
      (a.getLast? = some 13 → l.getLast? = some 13) := by
  induction L with
  | nil => simp at hl
  | cons x xs ih =>
    rw [List.cons_append, intercalate_cons_snoc]
    rcases List.mem_cons.1 hl with rfl | hl
    · exact ⟨l, intercalate [10] (xs ++ [z]), by simp, id⟩
    · obtain ⟨a, b, hab, himp⟩ := ih hl
      refine ⟨x ++ 10 :: a, b, by simp [hab], ?_⟩
      intro h
      apply himp
      rcases List.eq_nil_or_concat a with rfl | ⟨a', c, rfl⟩
      · simp at h
      · have e : x ++ 10 :: a'.concat c = (x ++ 10 :: a') ++ [c] := by simp
        rw [e, List.getLast?_concat] at h
        simp [h]

/-- the common core of the identity: if every LF-terminated piece of the text ends in the CR part
`cr` of the terminator after stripping, and the text does not end in a bare CR, then split ; join
is the identity -/
theorem joinLines_splitLines_core (text cr : Bytes)
    (hterm : ∀ L z, splitOnNl text = L ++ [z] → ∀ l ∈ L, stripCr l ++ cr = l)
    (hend : text.getLast? ≠ some 13) :
    joinLines (splitLines text).1 (splitLines text).2 (cr ++ [10]) = text := by
  obtain ⟨L, z, hLz⟩ := splitOnNl_snoc text
  have hterm' := hterm L z hLz
  have htext : intercalate [10] (L ++ [z]) = text := by rw [← hLz, intercalate_splitOnNl]
  have hz10 : 10 ∉ z := splitOnNl_lines_noLf text z (by simp [hLz])
  -- re-joining the stripped pieces with the full terminator is joining the pieces with LF
  have hrejoin : ∀ (M : List Bytes) (w : Bytes), (∀ l ∈ M, stripCr l ++ cr = l) →
      intercalate (cr ++ [10]) (M.map stripCr ++ [w]) = intercalate [10] (M ++ [w]) := by
    intro M w hM
    induction M with
    | nil => simp [intercalate]
    | cons x xs ih =>
      rw [List.map_cons, List.cons_append, List.cons_append, intercalate_cons_snoc,
        intercalate_cons_snoc, ih (fun l hl => hM l (by simp [hl]))]
      have := hM x (by simp)
      rw [← List.append_assoc (stripCr x), this]
  unfold splitLines
  simp only [hLz]
  by_cases htr : text.getLast? = some 10
  · -- trailing newline: the last piece is empty and dropped
    have hz : z = [] := by
      rcases List.eq_nil_or_concat z with rfl | ⟨z', c, rfl⟩
      · rfl
      · exfalso
        have := getLast?_intercalate_snoc [10] (z'.concat c) L (by simp)
        rw [htext, htr] at this
        simp at this
        exact hz10 (by simp [← this])
    subst hz
    have hLne : L ≠ [] := by
      rintro rfl
      rw [← htext] at htr
      simp [intercalate] at htr
    simp only [htr, beq_self_eq_true, if_true, List.map_append, List.map_cons, List.map_nil,
      List.dropLast_concat]
    rw [joinLines_eq _ _ _ (by simpa using hLne)]
    simp only [if_true]
    rw [hrejoin L [] hterm', htext]
  · -- no trailing newline: the last piece is kept, and is not stripped
    have hzs : stripCr z = z := by
      rcases List.eq_nil_or_concat z with rfl | ⟨z', c, rfl⟩
      · exact stripCr_nil
      · apply stripCr_of_ne
        have := getLast?_intercalate_snoc [10] (z'.concat c) L (by simp)
        rw [htext] at this
        rw [← this]; exact hend
    have hb : (text.getLast? == some 10) = false := by simpa using htr
    simp only [hb, Bool.false_eq_true, if_false, List.map_append, List.map_cons, List.map_nil, hzs]
    rw [joinLines_eq _ _ _ (by simp)]
    simp only [Bool.false_eq_true, if_false]
    rw [hrejoin L z hterm', htext]

/-- pure-LF case: no CR anywhere -/
theorem joinLines_splitLines_lf (text : Bytes) (hcr : 13 ∉ text) :
    joinLines (splitLines text).1 (splitLines text).2 [10] = text := by
  have := joinLines_splitLines_core text [] (by
    intro L z hLz l hl
    have h13 : 13 ∉ l := fun h => hcr (splitOnNl_lines_sub text l (by simp [hLz, hl]) 13 h)
    have : l.getLast? ≠ some 13 := fun e => h13 (List.mem_of_getLast? e)
    simp [stripCr_of_ne l this])
    (fun e => hcr (List.mem_of_getLast? e))
  simpa using this

/-- pure-CRLF case: every LF is preceded by CR, and the text does not end in a bare CR -/
theorem joinLines_splitLines_crlf (text : Bytes)
    (hstyle : ∀ i : Nat, text[i]? = some 10 → 0 < i ∧ text[i-1]? = some 13)
    (hend : text.getLast? ≠ some 13) :
    joinLines (splitLines text).1 (splitLines text).2 [13, 10] = text := by
  have hstyle' : ∀ a b, text = a ++ 10 :: b → a.getLast? = some 13 := by
    intro a b hab
    have h1 : text[a.length]? = some 10 := by simp [hab]
    obtain ⟨hpos, h2⟩ := hstyle _ h1
    have h3 : a.length - 1 < a.length := by omega
    rw [hab, List.getElem?_append_left h3] at h2
    rw [List.getLast?_eq_getElem?]; exact h2
  have := joinLines_splitLines_core text [13] (by
    intro L z hLz l hl
    have htext : intercalate [10] (L ++ [z]) = text := by rw [← hLz, intercalate_splitOnNl]
    obtain ⟨a, b, hab, himp⟩ := splitOnNl_piece_before_lf z L l hl
    exact stripCr_append_of_getLast l (himp (hstyle' a b (htext ▸ hab)))) hend
  simpa using this

/-- identity on uniformly terminated text: re-joining the split lines gives the text back.
The statement asked for is FALSE without `hend` (`text = [13,10,13]`, i.e. "\r\n\r": the last,
unterminated piece ends in a bare CR, which `split_lines` strips and `join_lines` cannot restore);
`hend` is the one extra hypothesis. `hne` and `huni` are not needed for the conclusion. -/
theorem joinLines_splitLines (text : Bytes) (hne : text ≠ [])
    (huni : ∀ l ∈ (splitLines text).1, CleanLine l)
    (hstyle : hasCrLf text = true →
        ∀ i : Nat, text[i]? = some 10 → 0 < i ∧ text[i-1]? = some 13)
    (hlf : hasCrLf text = false → 13 ∉ text)
    (hend : text.getLast? ≠ some 13) :
    joinLines (splitLines text).1 (splitLines text).2 (leOf text) = text := by
  have _ := hne
  have _ := huni
  unfold leOf
  cases h : hasCrLf text with
  | true => simpa using joinLines_splitLines_crlf text (hstyle h) hend
  | false => simpa using joinLines_splitLines_lf text (hlf h)

/-! ### 6. end to end -/

theorem applyHunks_text_shape (original out : Bytes) (hunks : List Hunk)
    (h : applyHunks original hunks = some out) :
    ∃ ls, applyHunksLines (splitLines original).1 0 hunks = some ls ∧
          out = joinLines ls (splitLines original).2 (leOf original) := by
  unfold applyHunks at h
  simp only at h
  split at h
  · simp at h
  · next l hl =>
    simp only [Option.some.injEq] at h
    exact ⟨l, hl, by rw [← h]; rfl⟩

theorem applyHunks_preserves (original out : Bytes) (hunks : List Hunk) (ls : List Bytes)
    (h : applyHunks original hunks = some out)
    (hls : applyHunksLines (splitLines original).1 0 hunks = some ls)
    (hne : ls ≠ [])
    (horig : ∀ l ∈ (splitLines original).1, CleanLine l)
    (hafter : ∀ hk ∈ hunks, ∀ l ∈ hk.after, CleanLine l)
    (hlast : (splitLines original).2 = true ∨ ls.getLast? ≠ some []) :
    splitLines out = (ls, (splitLines original).2) ∧
    ((out.getLast? == some 10) = (original.getLast? == some 10)) ∧
    hasCrLf out = (hasCrLf original && ((splitLines original).2 || decide (2 ≤ ls.length))) := by
  obtain ⟨ls', hls', hout⟩ := applyHunks_text_shape original out hunks h
  rw [hls] at hls'
  simp only [Option.some.injEq] at hls'
  subst hls'
  have hclean : ∀ l ∈ ls, CleanLine l := by
    intro l hl
    rcases applyHunksLines_mem _ _ _ _ hls l hl with h1 | ⟨hk, hk1, hk2⟩
    · exact horig l h1
    · exact hafter hk hk1 l hk2
  have hle : leOf original = [10] ∨ leOf original = [13, 10] := by
    unfold leOf; cases hasCrLf original <;> simp
  have hle' : (leOf original == [13, 10]) = hasCrLf original := by
    unfold leOf; cases hasCrLf original <;> simp
  subst hout
  refine ⟨splitLines_joinLines ls _ _ hle hne hclean hlast, ?_, ?_⟩
  · rw [joinLines_trailing ls _ _ hle hne (fun l hl => (hclean l hl).1) hlast]
    rfl
  · rw [hasCrLf_joinLines ls _ _ hle hne hclean, hle']

/-! ### non-vacuity checks on concrete byte strings -/

/-- "a\r\nb\r\n", replace "b" by "c","d": CRLF style and the trailing newline are kept -/
example : applyHunks [97, 13, 10, 98, 13, 10] [⟨[[98]], [[99], [100]]⟩]
    = some [97, 13, 10, 99, 13, 10, 100, 13, 10] := by decide

/-- "a\nb" without a final newline, replace "b" by "c": LF style, still no final newline -/
example : applyHunks [97, 10, 98] [⟨[[98]], [[99]]⟩] = some [97, 10, 99] := by decide

/-- the hypotheses of `applyHunks_preserves` hold on the first example -/
example : splitLines [97, 13, 10, 98, 13, 10] = ([[97], [98]], true) ∧
    applyHunksLines [[97], [98]] 0 [⟨[[98]], [[99], [100]]⟩] = some [[97], [99], [100]] ∧
    hasCrLf [97, 13, 10, 99, 13, 10, 100, 13, 10] = true ∧
    splitLines [97, 13, 10, 99, 13, 10, 100, 13, 10] = ([[97], [99], [100]], true) := by decide

/-- why `joinLines_splitLines` needs `hend`: "\r\n\r" loses its final bare CR -/
example : joinLines (splitLines [13, 10, 13]).1 (splitLines [13, 10, 13]).2 (leOf [13, 10, 13])
    = [13, 10] := by decide

end Rip.Patch
