import Rip.Model.Secrets

/-!
C19 lemmas: non-interference of secret values. Merging and resolution commute with a renaming of
secret values; diagnostics (`doctor`) and run records (`recorded`) are blind to the values (they may
depend only on whether a value is blank); the wire carries exactly the (renamed) secrets.
-/
namespace Rip.Secrets

/-! ### the sorted-association-list primitives commute with a renaming of the values -/

theorem insertSorted_map {α β : Type} (g : α → β) (k : Nat) (v : α) (l : List (Nat × α)) :
    insertSorted k (g v) (l.map (fun e => (e.1, g e.2))) =
    (insertSorted k v l).map (fun e => (e.1, g e.2)) := by
  induction l with
  | nil => rfl
  | cons hd tl ih =>
    obtain ⟨k', v'⟩ := hd
    simp only [List.map_cons, insertSorted]
    split
    · simp
    · split
      · simp
      · simp [ih]

theorem lookup_map {α β : Type} (g : α → β) (k : Nat) (l : List (Nat × α)) :
    lookup k (l.map (fun e => (e.1, g e.2))) = (lookup k l).map g := by
  induction l with
  | nil => rfl
  | cons hd tl ih =>
    obtain ⟨k', v'⟩ := hd
    unfold lookup at ih ⊢
    simp only [List.map_cons, List.find?_cons]
    split
    · rfl
    · exact ih

theorem mergeHeaders_map (f : Secret → Secret) (base over : List (Nat × Secret)) :
    mergeHeaders (base.map (fun h => (h.1, f h.2))) (over.map (fun h => (h.1, f h.2))) =
    (mergeHeaders base over).map (fun h => (h.1, f h.2)) := by
  unfold mergeHeaders
  induction over generalizing base with
  | nil => rfl
  | cons e es ih =>
    simp only [List.map_cons, List.foldl_cons]
    rw [insertSorted_map f e.1 e.2 base]
    exact ih _

theorem mergeProvider_mapS (f : Secret → Secret) (base over : PProvider) :
    mergeProvider (base.mapS f) (over.mapS f) = (mergeProvider base over).mapS f := by
  simp only [mergeProvider, PProvider.mapS, mergeHeaders_map]
  cases over.apiKey <;> cases base.apiKey <;> rfl

theorem mergeProviders_mapS (f : Secret → Secret) (base over : List (Nat × PProvider)) :
    mergeProviders (base.map (fun e => (e.1, e.2.mapS f))) (over.map (fun e => (e.1, e.2.mapS f))) =
    (mergeProviders base over).map (fun e => (e.1, e.2.mapS f)) := by
  unfold mergeProviders
  induction over generalizing base with
  | nil => rfl
  | cons e es ih =>
    simp only [List.map_cons, List.foldl_cons]
    rw [lookup_map (PProvider.mapS f) e.1 base]
    cases hb : lookup e.1 base with
    | none =>
      simp only [Option.map_none]
      rw [insertSorted_map (PProvider.mapS f) e.1 e.2 base]
      exact ih _
    | some b =>
      simp only [Option.map_some]
      rw [mergeProvider_mapS, insertSorted_map (PProvider.mapS f) e.1 _ base]
      exact ih _

theorem mergeLayer_mapS (f : Secret → Secret) (base over : Layer) :
    mergeLayer (base.mapS f) (over.mapS f) = (mergeLayer base over).mapS f := by
  simp only [mergeLayer, Layer.mapS, mergeProviders_mapS]

theorem foldl_mergeLayer_mapS (f : Secret → Secret) (layers : List Layer) (acc : Layer) :
    (layers.map (Layer.mapS f)).foldl mergeLayer (acc.mapS f) =
    (layers.foldl mergeLayer acc).mapS f := by
  induction layers generalizing acc with
  | nil => rfl
  | cons l ls ih =>
    simp only [List.map_cons, List.foldl_cons]
    rw [mergeLayer_mapS]
    exact ih _

/-- merging commutes with renaming secrets (no hypothesis on `f` is needed) -/
theorem mergeAll_mapS (f : Secret → Secret) (layers : List Layer) :
    mergeAll (layers.map (Layer.mapS f)) = (mergeAll layers).mapS f := by
  unfold mergeAll
  exact foldl_mergeLayer_mapS f layers {}

/-! ### resolution commutes with a blank-preserving renaming -/

def Resolved.mapS (f : Secret → Secret) (r : Resolved) : Resolved :=
  { r with apiKey := r.apiKey.map f, headers := r.headers.map (fun h => (h.1, f h.2)) }

theorem nonBlank_map (f : Secret → Secret) (hf : KeepsBlank f) (o : Option Secret) :
    nonBlank (o.map f) = (nonBlank o).map f := by
  cases o with
  | none => rfl
  | some v =>
    by_cases hv : v = 0
    · subst hv
      have : f 0 = 0 := (hf 0).2 rfl
      simp [nonBlank, Option.filter, this]
    · have : f v ≠ 0 := fun h => hv ((hf v).1 h)
      simp [nonBlank, Option.filter, hv, this]

theorem KeySrc.resolve_mapS (f : Secret → Secret) (hf : KeepsBlank f) (env : Env) (src : KeySrc) :
    (src.mapS f).resolve (env.mapS f) = (src.resolve env).map f := by
  cases src with
  | inline v => exact nonBlank_map f hf (some v)
  | env n =>
    simp only [KeySrc.mapS, KeySrc.resolve, Env.mapS]
    rw [lookup_map f n env.named, nonBlank_map f hf]

theorem KeySrc.source_mapS (f : Secret → Secret) (src : KeySrc) :
    (src.mapS f).source = src.source := by
  cases src <;> rfl

theorem keyFromEnv_mapS (f : Secret → Secret) (hf : KeepsBlank f) (env : Env) (ep : Endpoint) :
    keyFromEnv (env.mapS f) ep = ((keyFromEnv env ep).1.map f, (keyFromEnv env ep).2) := by
  unfold keyFromEnv
  simp only [Env.mapS, nonBlank_map f hf]
  cases nonBlank env.ripKey with
  | some k => rfl
  | none =>
    simp only [Option.map_none]
    split
    · rfl
    · split <;> rfl

/-- the endpoint `resolve` selects (override, then environment, then the routed provider) -/
def endpointOf (cfg : Layer) (env : Env) (ov : Override) : Option Endpoint :=
  ov.endpoint.or (env.endpoint.or
    (((cfg.primary.or cfg.model).bind (fun r => lookup r.1 cfg.providers)).bind (·.endpoint)))

/-- the provider entry `resolve` matches for a given endpoint -/
def pmOf (cfg : Layer) (ep : Endpoint) : Option (Nat × PProvider) :=
  match cfg.primary.or cfg.model with
  | some r => (lookup r.1 cfg.providers).map (fun p => (r.1, p))
  | none => cfg.providers.find? (fun e => e.2.endpoint.map (·.id) == some ep.id)

/-- the key and its source, given the matched provider entry -/
def keyOf (env : Env) (ep : Endpoint) (pm : Option (Nat × PProvider)) : Option Secret × Option Source :=
  let fromCfg : Option Secret × Option Source :=
    match pm.bind (·.2.apiKey) with
    | some src => (src.resolve env, some src.source)
    | none => (none, none)
  if fromCfg.1.isNone then keyFromEnv env ep else fromCfg

def headersOf (pm : Option (Nat × PProvider)) : List (Nat × Secret) :=
  match pm with | some p => p.2.headers | none => []

/-- `resolve`, decomposed -/
theorem resolve_eq (cfg : Layer) (env : Env) (ov : Override) :
    resolve cfg env ov =
    (endpointOf cfg env ov).map (fun ep =>
      { providerId := (pmOf cfg ep).map (·.1), endpoint := ep,
        model := ov.model.or (env.model.or ((cfg.primary.or cfg.model).map (·.2))),
        headers := headersOf (pmOf cfg ep),
        apiKey := (keyOf env ep (pmOf cfg ep)).1, source := (keyOf env ep (pmOf cfg ep)).2 }) := by
  unfold resolve endpointOf
  dsimp only
  cases ov.endpoint.or (env.endpoint.or
    (((cfg.primary.or cfg.model).bind (fun r => lookup r.1 cfg.providers)).bind (·.endpoint))) with
  | none => rfl
  | some ep => rfl

theorem endpointOf_mapS (f : Secret → Secret) (cfg : Layer) (env : Env) (ov : Override) :
    endpointOf (cfg.mapS f) (env.mapS f) ov = endpointOf cfg env ov := by
  unfold endpointOf
  simp only [Layer.mapS, Env.mapS]
  cases cfg.primary.or cfg.model with
  | none => rfl
  | some r =>
    simp only [Option.bind_some]
    rw [lookup_map (PProvider.mapS f) r.1 cfg.providers]
    cases lookup r.1 cfg.providers <;> rfl

theorem pmOf_mapS (f : Secret → Secret) (cfg : Layer) (ep : Endpoint) :
    pmOf (cfg.mapS f) ep = (pmOf cfg ep).map (fun p => (p.1, p.2.mapS f)) := by
  unfold pmOf
  simp only [Layer.mapS]
  cases cfg.primary.or cfg.model with
  | some r =>
    simp only
    rw [lookup_map (PProvider.mapS f) r.1 cfg.providers]
    cases lookup r.1 cfg.providers <;> rfl
  | none =>
    simp only
    rw [List.find?_map]
    rfl

theorem headersOf_mapS (f : Secret → Secret) (pm : Option (Nat × PProvider)) :
    headersOf (pm.map (fun p => (p.1, p.2.mapS f))) = (headersOf pm).map (fun h => (h.1, f h.2)) := by
  cases pm <;> rfl

theorem keyOf_mapS (f : Secret → Secret) (hf : KeepsBlank f) (env : Env) (ep : Endpoint)
    (pm : Option (Nat × PProvider)) :
    keyOf (env.mapS f) ep (pm.map (fun p => (p.1, p.2.mapS f))) =
    ((keyOf env ep pm).1.map f, (keyOf env ep pm).2) := by
  unfold keyOf
  have hb : (pm.map (fun p => (p.1, p.2.mapS f))).bind (·.2.apiKey) =
      (pm.bind (·.2.apiKey)).map (KeySrc.mapS f) := by
    cases pm <;> rfl
  rw [hb]
  cases pm.bind (·.2.apiKey) with
  | none => simp [keyFromEnv_mapS f hf]
  | some src =>
    simp only [Option.map_some, KeySrc.resolve_mapS f hf, KeySrc.source_mapS]
    cases src.resolve env with
    | none => simp [keyFromEnv_mapS f hf]
    | some k => simp

theorem resolve_mapS (f : Secret → Secret) (hf : KeepsBlank f) (cfg : Layer) (env : Env) (ov : Override) :
    resolve (cfg.mapS f) (env.mapS f) ov = (resolve cfg env ov).map (Resolved.mapS f) := by
  rw [resolve_eq, resolve_eq, endpointOf_mapS]
  cases endpointOf cfg env ov with
  | none => rfl
  | some ep =>
    simp only [Option.map_some, pmOf_mapS, headersOf_mapS, keyOf_mapS f hf, Resolved.mapS]
    cases pmOf cfg ep <;> rfl

/-! ### what is observable is blind to secret values; the wire carries exactly the renamed secrets -/

theorem doctor_mapS (f : Secret → Secret) (hf : KeepsBlank f) (r : Resolved) :
    doctor (r.mapS f) = doctor r := by
  simp only [doctor, Resolved.mapS, nonBlank_map f hf, Option.isSome_map, List.map_map]
  rfl

theorem recorded_mapS (f : Secret → Secret) (r : Resolved) : recorded (r.mapS f) = recorded r := rfl

theorem wire_mapS (f : Secret → Secret) (r : Resolved) :
    wire (r.mapS f) = ((wire r).1.map f, (wire r).2.map (fun h => (h.1, f h.2))) := rfl

/-- **diagnostics are blind to secret values** -/
theorem doctor_blind (f : Secret → Secret) (hf : KeepsBlank f) (layers : List Layer) (env : Env) (ov : Override) :
    (resolve (mergeAll (layers.map (Layer.mapS f))) (env.mapS f) ov).map doctor =
    (resolve (mergeAll layers) env ov).map doctor := by
  rw [mergeAll_mapS, resolve_mapS f hf, Option.map_map]
  congr 1
  funext r
  exact doctor_mapS f hf r

/-- **what a run records about its provider is blind to secret values** -/
theorem recorded_blind (f : Secret → Secret) (hf : KeepsBlank f) (layers : List Layer) (env : Env) (ov : Override) :
    (resolve (mergeAll (layers.map (Layer.mapS f))) (env.mapS f) ov).map recorded =
    (resolve (mergeAll layers) env ov).map recorded := by
  rw [mergeAll_mapS, resolve_mapS f hf, Option.map_map]
  rfl

/-- the wire carries exactly the renamed secrets (so the secrets ARE used, only there) -/
theorem wire_maps (f : Secret → Secret) (hf : KeepsBlank f) (layers : List Layer) (env : Env) (ov : Override) :
    (resolve (mergeAll (layers.map (Layer.mapS f))) (env.mapS f) ov).map wire =
    (resolve (mergeAll layers) env ov).map
      (fun r => ((wire r).1.map f, (wire r).2.map (fun h => (h.1, f h.2)))) := by
  rw [mergeAll_mapS, resolve_mapS f hf, Option.map_map]
  rfl

/-! ### a resolved key is never blank; "present" exactly when a key goes on the wire -/

theorem nonBlank_eq_some_iff (o : Option Secret) (k : Secret) :
    nonBlank o = some k ↔ o = some k ∧ k ≠ 0 := by
  cases o with
  | none => simp [nonBlank]
  | some v =>
    by_cases hv : v = 0
    · subst hv
      simp [nonBlank, Option.filter]
      intro h; exact h.symm
    · simp [nonBlank, Option.filter, hv]
      intro h; exact h ▸ hv

theorem nonBlank_ne_blank (o : Option Secret) : nonBlank o ≠ some 0 := by
  intro h
  exact ((nonBlank_eq_some_iff o 0).1 h).2 rfl

theorem keyFromEnv_ne_blank (env : Env) (ep : Endpoint) : (keyFromEnv env ep).1 ≠ some 0 := by
  unfold keyFromEnv
  cases h : nonBlank env.ripKey with
  | some k =>
    simp only
    intro hk
    exact nonBlank_ne_blank env.ripKey (h.trans hk)
  | none =>
    simp only
    split
    · exact nonBlank_ne_blank _
    · split
      · exact nonBlank_ne_blank _
      · simp

theorem KeySrc.resolve_ne_blank (env : Env) (src : KeySrc) : src.resolve env ≠ some 0 := by
  cases src <;> exact nonBlank_ne_blank _

theorem keyOf_ne_blank (env : Env) (ep : Endpoint) (pm : Option (Nat × PProvider)) :
    (keyOf env ep pm).1 ≠ some 0 := by
  unfold keyOf
  cases pm.bind (·.2.apiKey) with
  | none => simpa using keyFromEnv_ne_blank env ep
  | some src =>
    simp only
    split
    · exact keyFromEnv_ne_blank env ep
    · exact KeySrc.resolve_ne_blank env src

/-- a resolved key is never blank -/
theorem key_never_blank (cfg : Layer) (env : Env) (ov : Override) (r : Resolved)
    (h : resolve cfg env ov = some r) : r.apiKey ≠ some 0 := by
  rw [resolve_eq] at h
  cases hep : endpointOf cfg env ov with
  | none => rw [hep] at h; cases h
  | some ep =>
    rw [hep] at h
    simp only [Option.map_some, Option.some.injEq] at h
    subst h
    exact keyOf_ne_blank env ep _

/-- diagnostics say "present" exactly when a (non-blank) key goes on the wire -/
theorem present_iff_wired (cfg : Layer) (env : Env) (ov : Override) (r : Resolved)
    (h : resolve cfg env ov = some r) :
    (doctor r).hasApiKey = true ↔ ∃ k, k ≠ 0 ∧ (wire r).1 = some k := by
  have _ := h
  simp only [doctor, wire, Option.isSome_iff_exists, nonBlank_eq_some_iff]
  constructor
  · rintro ⟨k, hk, hne⟩
    exact ⟨k, hne, hk⟩
  · rintro ⟨k, hne, hk⟩
    exact ⟨k, hk, hne⟩

/-- `present_iff_wired` does not in fact depend on `r` being a resolution result; combined with
`key_never_blank`, for resolved configurations "present" is equivalent to "some key on the wire" -/
theorem present_iff_some_key (cfg : Layer) (env : Env) (ov : Override) (r : Resolved)
    (h : resolve cfg env ov = some r) :
    (doctor r).hasApiKey = true ↔ (wire r).1.isSome = true := by
  rw [present_iff_wired cfg env ov r h]
  constructor
  · rintro ⟨k, _, hk⟩
    simp [hk]
  · intro hs
    obtain ⟨k, hk⟩ := Option.isSome_iff_exists.1 hs
    refine ⟨k, ?_, hk⟩
    intro h0
    subst h0
    exact key_never_blank cfg env ov r h hk

/-- two configurations that differ only in their secret values (same blank pattern) are
indistinguishable to diagnostics and recordings: corollary in two-run form -/
theorem two_run (f g : Secret → Secret) (hf : KeepsBlank f) (hg : KeepsBlank g) (layers : List Layer)
    (env : Env) (ov : Override) :
    (resolve (mergeAll (layers.map (Layer.mapS f))) (env.mapS f) ov).map (fun r => (doctor r, recorded r)) =
    (resolve (mergeAll (layers.map (Layer.mapS g))) (env.mapS g) ov).map (fun r => (doctor r, recorded r)) := by
  have key : ∀ (e : Secret → Secret), KeepsBlank e →
      (resolve (mergeAll (layers.map (Layer.mapS e))) (env.mapS e) ov).map (fun r => (doctor r, recorded r)) =
      (resolve (mergeAll layers) env ov).map (fun r => (doctor r, recorded r)) := by
    intro e he
    rw [mergeAll_mapS, resolve_mapS e he, Option.map_map]
    congr 1
    funext r
    simp only [Function.comp, doctor_mapS e he, recorded_mapS]
  rw [key f hf, key g hg]

/-! ### non-vacuity checks -/

section Examples

private def ep10 : Endpoint := { id := 10, openai := false, openrouter := false }

/-- layer 1: provider 1 with an inline key 7, routed as primary; layer 2 overrides the key by `{"env": 3}` -/
private def exLayers : List Layer :=
  [ { providers := [(1, { endpoint := some ep10, apiKey := some (.inline 7), headers := [(1, 11), (3, 13)] })],
      primary := some (1, 5) },
    { providers := [(1, { apiKey := some (.env 3), headers := [(2, 22), (3, 33)] })] } ]

private def exEnv : Env := { named := [(3, 42)] }

/-- the env reference overrides the inline key; diagnostics show presence and source, never the value;
the wire carries the value of the variable and the headers merged from both layers -/
example :
    (resolve (mergeAll exLayers) exEnv {}).map doctor =
      some { providerId := some 1, endpoint := 10, model := some 5, hasApiKey := true,
             source := some (.envNamed 3), headerNames := [1, 2, 3] } ∧
    (resolve (mergeAll exLayers) exEnv {}).map wire = some (some 42, [(1, 11), (2, 22), (3, 33)]) ∧
    (resolve (mergeAll exLayers) exEnv {}).map recorded = some (10, some 5) := by decide

/-- headers merged from two layers: the later layer wins on a clash, the result stays sorted -/
example :
    (mergeAll exLayers).providers =
      [(1, { endpoint := some ep10, apiKey := some (.env 3), headers := [(1, 11), (2, 22), (3, 33)] })] := by
  decide

/-- the provider key is blank (inline 0): the RIP_OPENRESPONSES_API_KEY fallback is used -/
example :
    let cfg : Layer := { providers := [(1, { endpoint := some ep10, apiKey := some (.inline 0) })],
                         model := some (1, 5) }
    let env : Env := { ripKey := some 9, openaiKey := some 8 }
    (resolve (mergeAll [cfg]) env {}).map (fun r => ((doctor r).hasApiKey, (doctor r).source, (wire r).1)) =
      some (true, some .envRip, some 9) := by decide

/-- the env variable referenced is unset, the endpoint is an openai one: OPENAI_API_KEY is used; with
no key at all diagnostics say "absent" and nothing goes on the wire -/
example :
    let epo : Endpoint := { id := 20, openai := true, openrouter := false }
    let cfg : Layer := { providers := [(4, { endpoint := some epo, apiKey := some (.env 3) })] }
    (resolve (mergeAll [cfg]) { endpoint := some epo, openaiKey := some 8 } {}).map
        (fun r => ((doctor r).providerId, (doctor r).hasApiKey, (doctor r).source, (wire r).1)) =
      some (some 4, true, some .envOpenAI, some 8) ∧
    (resolve (mergeAll [cfg]) { endpoint := some epo, openaiKey := some 0 } {}).map
        (fun r => ((doctor r).hasApiKey, (doctor r).source, (wire r).1)) =
      some (false, some .envOpenAI, none) := by decide

/-- a concrete instance of the renaming `s ↦ 2 * s` (which keeps blanks): same diagnostics, renamed wire -/
example :
    (resolve (mergeAll (exLayers.map (Layer.mapS (2 * ·)))) (exEnv.mapS (2 * ·)) {}).map doctor =
      (resolve (mergeAll exLayers) exEnv {}).map doctor ∧
    (resolve (mergeAll (exLayers.map (Layer.mapS (2 * ·)))) (exEnv.mapS (2 * ·)) {}).map wire =
      some (some 84, [(1, 22), (2, 44), (3, 66)]) := by decide

/-- the hypothesis `KeepsBlank` is needed: blanking every secret is visible to diagnostics (presence
and source change), so `doctor_blind` fails for `f = fun _ => 0` -/
example :
    (resolve (mergeAll (exLayers.map (Layer.mapS (fun _ => 0)))) (exEnv.mapS (fun _ => 0)) {}).map doctor ≠
      (resolve (mergeAll exLayers) exEnv {}).map doctor := by decide

end Examples

end Rip.Secrets
