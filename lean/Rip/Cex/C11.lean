import Rip.Model.WsLTS
namespace Rip.Cex.C11
open Rip.WsLTS

/-- before the repair: a timed-out command keeps running after its runner released the permit, and
the next mutating tool runs inside its interval -/
theorem timed_out_tool_overlaps :
    (run false [[.mutate true true], [.mutate false true]]
      [.step 0, .step 0, .timeout 0, .step 0, .step 0, .step 0,     -- A: acquire, begin, TIMEOUT, emit, side fx, release
       .step 1, .step 1]).maxRunning = 2 := by decide              -- B: acquire, begin  (A's command still runs)

/-- after the repair the same schedule never has two mutations in progress -/
theorem timed_out_tool_killed :
    (run true [[.mutate true true], [.mutate false true]]
      [.step 0, .step 0, .timeout 0, .step 0, .step 0, .step 0, .step 1, .step 1]).maxRunning = 1 := by decide

/-- read-only tools may overlap freely (and with a mutation) -/
theorem readers_overlap :
    (run true [[.readOnly], [.readOnly], [.mutate false false]]
      [.step 2, .step 2, .step 0, .step 1]).readers = 2 ∧
    (run true [[.readOnly], [.readOnly], [.mutate false false]]
      [.step 2, .step 2, .step 0, .step 1]).running.length = 1 := by decide

end Rip.Cex.C11
