import Rip.Model.Emitters
/-
C06 (several emitters on one stream): what goes wrong when the seq lock is released right after the
draw (`nested = false`), and concrete runs of the code as it is (`nested = true`).
-/
namespace Rip.Cex.C06Emitters
open Rip.Emitters

/-- emitter 0 takes the seq lock, draws seq 0 and lets the seq lock go; emitter 1 then runs a whole
emission (seq 1); emitter 0 finishes afterwards -/
def invertingSchedule : List Nat := [0, 0, 1, 1, 1, 1, 1, 1, 0, 0, 0, 0]

/-- releasing the seq lock right after the draw inverts the order: seq 1 is published and recorded
before seq 0 -/
theorem early_release_inverts_order : ∃ (counts sched : _),
    (run false counts sched).published = [1, 0] ∧ (run false counts sched).recorded = [1, 0] :=
  ⟨[1, 1], invertingSchedule, by decide⟩

/-- the inverted run is a complete run: both emitters are done, nothing is lost, only the order is
wrong -/
example : allDone (run false [1, 1] invertingSchedule) = true := by decide

/-- and the same schedule is harmless with the nested lock: emitter 1 is blocked on the seq lock
while emitter 0 emits -/
example : (run true [1, 1] invertingSchedule).published = [0] ∧
    (run true [1, 1] invertingSchedule).recorded = [0] := by decide

/-- letting emitter 1 run afterwards gives the whole stream in order -/
example : (run true [1, 1] (invertingSchedule ++ [1, 1, 1, 1, 1, 1])).published = [0, 1] ∧
    (run true [1, 1] (invertingSchedule ++ [1, 1, 1, 1, 1, 1])).recorded = [0, 1] ∧
    allDone (run true [1, 1] (invertingSchedule ++ [1, 1, 1, 1, 1, 1])) = true := by decide

/-- a shorter prefix of the same run: seq 1 is already on the channel while emitter 0, which drew
seq 0 first, has not even taken the buffer lock -/
example : (run false [1, 1] [0, 0, 1, 1, 1, 1]).published = [1] ∧
    (run false [1, 1] [0, 0, 1, 1, 1, 1]).next = 2 := by decide

/-! ### concrete nested runs: two emitters × two frames -/

/-- strictly alternating schedule, 24 steps: the emitter that loses the race for the seq lock spins
(its steps are no-ops) until the winner has released; everything goes out in order -/
example :
    let s := run true [2, 2] [0, 1, 0, 1, 0, 1, 0, 1, 0, 1, 0, 1, 0, 1, 0, 1, 0, 1, 0, 1, 0, 1, 0, 1]
    s.published = [0, 1] ∧ s.recorded = [0, 1] ∧ s.next = 2 ∧ allDone s = false := by decide

/-- the same alternating schedule run long enough completes: four frames, in order, once each -/
example :
    let s := run true [2, 2] [0, 1, 0, 1, 0, 1, 0, 1, 0, 1, 0, 1, 0, 1, 0, 1, 0, 1, 0, 1, 0, 1, 0, 1,
      0, 1, 0, 1, 0, 1, 0, 1, 0, 1, 0, 1, 0, 1, 0, 1, 0, 1, 0, 1, 0, 1, 0, 1]
    s.published = [0, 1, 2, 3] ∧ s.recorded = [0, 1, 2, 3] ∧ s.next = 4 ∧
      s.seqHolder = none ∧ s.bufHolder = none ∧ allDone s = true := by decide

/-- alternating the other way round (emitter 1 first): same stream; the frames of the two emitters
interleave by whoever wins the seq lock, the seqs do not -/
example :
    let s := run true [2, 2] [1, 0, 1, 0, 1, 0, 1, 0, 1, 0, 1, 0, 1, 0, 1, 0, 1, 0, 1, 0, 1, 0, 1, 0,
      1, 0, 1, 0, 1, 0, 1, 0, 1, 0, 1, 0, 1, 0, 1, 0, 1, 0, 1, 0, 1, 0, 1, 0]
    s.published = [0, 1, 2, 3] ∧ s.recorded = [0, 1, 2, 3] ∧ allDone s = true := by decide

/-- a mid-emission snapshot: published is one ahead of recorded, the seq counter one ahead of the
completed frames, both locks with emitter 0, emitter 1 still idle -/
example :
    let s := run true [2, 2] [0, 1, 0, 1, 0, 1, 0]
    s.published = [0] ∧ s.recorded = [] ∧ s.next = 1 ∧ s.seqHolder = some 0 ∧
      s.bufHolder = some 0 ∧ (s.es.map (·.pc)) = [4, 0] := by decide

end Rip.Cex.C06Emitters
