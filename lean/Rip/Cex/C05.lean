import Rip.Model.Crash

/-!
C05 counterexamples: `Rip.Crash.crash_safe` is false without either repair, and even with both the
messages+runs sidecar can stay one frame short. Everything here is `decide` on small literals.
-/
namespace Rip.Cex.C05
open Rip.Crash

instance (d : Disk) : Decidable (GapFree d) := by unfold GapFree; infer_instance

/-- a small frame that is not a message -/
def small : Frame := { big := false, mr := false }
/-- a frame larger than the writer's buffer -/
def bigF : Frame := { big := true, mr := false }
/-- a small message frame -/
def msg : Frame := { big := false, mr := true }

/-! ### concrete stories -/

/-- two acknowledged frames, then a large frame dies between its body and its newline: the body
dangles at the end of the log -/
example : partialAppend bigF 2 1 (appendAll [small, small] 0 empty) =
    { log := [some 0, some 1], dangling := some 2, side := [0, 1], mr := [] } := by decide

/-- … `fixF` terminates it on open: the frame is in the log, the thread cache is one behind -/
example : story true true [small, small] bigF 1 [] =
    { log := [some 0, some 1, some 2], dangling := none, side := [0, 1], mr := [] } := by decide

/-- … without `fixF` it stays dangling -/
example : story true false [small, small] bigF 1 [] =
    { log := [some 0, some 1], dangling := some 2, side := [0, 1], mr := [] } := by decide

/-- … and the next append is swallowed into one unparseable line -/
example : story true false [small, small] bigF 1 [small] =
    { log := [some 0, some 1, none], dangling := none, side := [0, 1, 2], mr := [] } := by decide

/-- … with both repairs the next append gets seq 3 and the thread cache is rebuilt -/
example : story true true [small, small] bigF 1 [small] =
    { log := [some 0, some 1, some 2, some 3], dangling := none, side := [0, 1, 2, 3], mr := [] } := by
  decide

/-- k = 3: the log line is written and flushed, the sidecar line is not -/
example : story true true [small, small] bigF 3 [] =
    { log := [some 0, some 1, some 2], dangling := none, side := [0, 1], mr := [] } := by decide

/-- … without `fixE` the next seq comes from the sidecar: seq 2 is used twice -/
example : story false true [small, small] bigF 3 [small] =
    { log := [some 0, some 1, some 2, some 2], dangling := none, side := [0, 1, 2], mr := [] } := by
  decide

/-- … with `fixE` it comes from the log and the thread cache is rebuilt -/
example : story true true [small, small] bigF 3 [small] =
    { log := [some 0, some 1, some 2, some 3], dangling := none, side := [0, 1, 2, 3], mr := [] } := by
  decide

/-- a small frame that dies before its flush never reached the file: its seq is reused, correctly -/
example : story true true [small, small] small 2 [small] =
    { log := [some 0, some 1, some 2], dangling := none, side := [0, 1, 2], mr := [] } := by decide

/-- a message frame that dies at k = 3 (before the sidecar line): the rebuild also rewrites the
messages+runs sidecar, which is then complete -/
example : story true true [msg, small] msg 3 [msg] =
    { log := [some 0, some 1, some 2, some 3], dangling := none, side := [0, 1, 2, 3],
      mr := [0, 2, 3] } := by decide

/-- … at k = 4 or 5 (after the sidecar line, before the messages+runs line) the thread cache agrees
with the log, nothing is rebuilt, and seq 2 is missing from the messages+runs sidecar -/
example : story true true [msg, small] msg 5 [msg] =
    { log := [some 0, some 1, some 2, some 3], dangling := none, side := [0, 1, 2, 3],
      mr := [0, 3] } := by decide

/-- … at k = 6 the messages+runs line is there -/
example : story true true [msg, small] msg 6 [msg] =
    { log := [some 0, some 1, some 2, some 3], dangling := none, side := [0, 1, 2, 3],
      mr := [0, 2, 3] } := by decide

/-! ### the statement is false without either repair -/

/-- without fixE: a crash between the log line and the sidecar line makes the next append reuse a seq -/
theorem duplicate_seq_without_fixE : ∃ (hist : List Frame) (f : Frame) (k : Nat) (more : List Frame),
    ¬ GapFree (story false true hist f k more) ∧ GapFree (story true true hist f k more) :=
  ⟨[small, small], small, 3, [small], by decide⟩

/-- without fixF: a crash between the body and the newline of a large frame makes the next append unparseable -/
theorem unparseable_without_fixF : ∃ (hist : List Frame) (f : Frame) (k : Nat) (more : List Frame),
    ¬ GapFree (story true false hist f k more) ∧ GapFree (story true true hist f k more) :=
  ⟨[small, small], bigF, 1, [small], by decide⟩

/-- even with both repairs a crash between the sidecar line and the messages+runs line leaves the
messages+runs sidecar one frame short for ever (nothing reconciles it) -/
theorem mr_sidecar_stale_for_ever : ∃ (hist : List Frame) (f : Frame) (k : Nat) (more : List Frame),
    more ≠ [] ∧ (story true true hist f k more).mr ≠ mrSeqs (hist ++ [f] ++ more) ∧
    (story true true hist f k more).log = (List.range (hist.length + 1 + more.length)).map some :=
  ⟨[msg, small], msg, 5, [msg], by decide⟩

/-- the same at the other boundary of the window (k = 4), and it stays short however many frames follow -/
theorem mr_sidecar_stale_k4 :
    (story true true [msg, small] msg 4 [msg, small, msg]).mr = [0, 3, 5] ∧
    mrSeqs ([msg, small] ++ [msg] ++ [msg, small, msg]) = [0, 2, 3, 5] := by decide

end Rip.Cex.C05
