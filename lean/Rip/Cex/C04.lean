import Rip.Model.Cache
import Rip.Model.SeekIndex
/-!
C04 counterexamples: what the tail-scanning read paths do before the repairs (`asIs`), as they are
now (`current'`: exit at the largest window, per-window reset, fallback; no head check) and repaired.
Everything is checked on small literals by `decide`; the two divergence theorems are inductions on
the fuel.
-/
namespace Rip.Cex.C04
open Rip.Cache

/-- the code as it is now -/
def current' : Shape := { exitAtMax := true, resetAcc := true, headCheck := false, fallback := true }
/-- the code as it is now, minus the per-window reset of the accumulator -/
def noReset : Shape := { exitAtMax := true, resetAcc := false, headCheck := false, fallback := true }
/-- the code as it is now, minus the fallback of an incomplete cursor scan -/
def noFallback : Shape := { exitAtMax := true, resetAcc := true, headCheck := false, fallback := false }

/-! ### 1. before the repair the loops never end on a thread longer than the largest window -/

def threeOthers : List F := [⟨0, .other⟩, ⟨1, .other⟩, ⟨2, .other⟩]

theorem selection_spins (fuel : Nat) :
    ∀ w, (w = 1 ∨ w = 2) → selectionLoop asIs threeOthers 1 w 2 [] fuel = none := by
  induction fuel with
  | zero => intro w _; rfl
  | succ n ih =>
    intro w hw
    rcases hw with rfl | rfl
    · exact ih 2 (Or.inr rfl)
    · exact ih 2 (Or.inr rfl)

theorem selection_diverges_as_is :
    ∃ (cs : List F) (limit w0 max : Nat), 0 < w0 ∧ ∀ fuel, selectionLoop asIs cs limit w0 max [] fuel = none :=
  ⟨threeOthers, 1, 1, 2, by decide, fun fuel => selection_spins fuel 1 (Or.inl rfl)⟩

theorem cursor_spins (fuel : Nat) :
    ∀ w, (w = 1 ∨ w = 2) → cursorLoop asIs threeOthers w 2 fuel = none := by
  induction fuel with
  | zero => intro w _; rfl
  | succ n ih =>
    intro w hw
    rcases hw with rfl | rfl
    · exact ih 2 (Or.inr rfl)
    · exact ih 2 (Or.inr rfl)

theorem cursor_diverges_as_is :
    ∃ (cs : List F) (w0 max : Nat), 0 < w0 ∧ ∀ fuel, cursorLoop asIs cs w0 max fuel = none :=
  ⟨threeOthers, 1, 2, by decide, fun fuel => cursor_spins fuel 1 (Or.inl rfl)⟩

/-- the same call ends once the loop leaves at the largest window (and falls back to the truth log) -/
theorem selection_ends_with_exit :
    selectionLoop current' threeOthers 1 1 2 [] 2 = some ([], true, false) ∧
    cursorLoop current' threeOthers 1 2 2 = some (some ({ active := none, cursors := [] }, false)) := by decide

/-- `0 < w0` is needed: a first window of 0 frames never grows, even repaired -/
theorem zero_window_spins (fuel : Nat) : selectionLoop repaired threeOthers 1 0 2 [] fuel = none := by
  induction fuel with
  | zero => rfl
  | succ n ih => exact ih

/-! ### 2. without the per-window reset the answer has duplicates -/

def twoFrames : List F := [⟨0, .other⟩, ⟨1, .decision⟩]

theorem selection_duplicates_as_is_reset : ∃ (fs : List F) (limit w0 max fuel : Nat),
    selectionFast { exitAtMax := true, resetAcc := false, headCheck := false, fallback := true }
      fs fs limit w0 max fuel ≠ some (selectionTruth fs limit) ∧
    selectionFast current' fs fs limit w0 max fuel = some (selectionTruth fs limit) :=
  ⟨twoFrames, 2, 1, 2, 2, by decide⟩

/-- the run: window 1 sees decision 1, window 2 sees it again -/
example : selectionFast noReset twoFrames twoFrames 2 1 2 2 = some [1, 1] := by decide
example : selectionFast current' twoFrames twoFrames 2 1 2 2 = some [1] := by decide
example : selectionTruth twoFrames 2 = [1] := by decide

/-- without the fallback an incomplete cursor scan is returned as the answer: key 7 is missing -/
theorem cursor_partial_without_fallback : ∃ (fs : List F) (w0 max fuel : Nat),
    cursorFast noFallback fs fs w0 max fuel ≠ some (cursorTruth fs) ∧
    cursorFast noFallback fs fs w0 max fuel ≠ none ∧
    cursorFast current' fs fs w0 max fuel = some (cursorTruth fs) :=
  ⟨[⟨0, .cursor 7⟩, ⟨1, .cursor 9⟩, ⟨2, .other⟩], 1, 2, 2, by decide⟩

/-! ### 3. a cache that holds only a suffix of the thread -/

def twoDecisions : List F := [⟨0, .decision⟩, ⟨1, .decision⟩]

/-- as the code is now (no head check) a suffix-only cache is taken for the whole thread -/
theorem suffix_only_cache_wrong_now : ∃ (fs cs : List F) (limit w0 max fuel : Nat),
    (∃ pre, fs = pre ++ cs) ∧ cs ≠ [] ∧
    selectionFast current' fs cs limit w0 max fuel ≠ some (selectionTruth fs limit) ∧
    selectionFast current' fs cs limit w0 max fuel ≠ none :=
  ⟨twoDecisions, [⟨1, .decision⟩], 2, 1, 1, 2, ⟨[⟨0, .decision⟩], rfl⟩, by decide, by decide, by decide⟩

example : selectionFast current' twoDecisions [⟨1, .decision⟩] 2 1 1 2 = some [1] := by decide
example : selectionTruth twoDecisions 2 = [1, 0] := by decide
/-- repaired: the tail reached the start but starts at seq 1 ⇒ rejected ⇒ truth -/
example : selectionFast repaired twoDecisions [⟨1, .decision⟩] 2 1 1 2 = some [1, 0] := by decide

/-- the cursor query likewise: the older key is lost -/
theorem suffix_only_cache_wrong_now_cursor : ∃ (fs cs : List F) (w0 max fuel : Nat),
    (∃ pre, fs = pre ++ cs) ∧ cs ≠ [] ∧
    cursorFast current' fs cs w0 max fuel ≠ some (cursorTruth fs) ∧
    cursorFast current' fs cs w0 max fuel ≠ none ∧
    cursorFast repaired fs cs w0 max fuel = some (cursorTruth fs) :=
  ⟨[⟨0, .cursor 7⟩, ⟨1, .cursor 9⟩], [⟨1, .cursor 9⟩], 1, 1, 2, ⟨[⟨0, .cursor 7⟩], rfl⟩,
    by decide, by decide, by decide, by decide⟩

/-- why `selection_suffix_safe` needs `cs ≠ []`: an EMPTY file scans as an empty tail that "reached
the start" and has no head to check, so even repaired the answer is empty, for every fuel -/
theorem empty_cache_wrong_even_repaired : ∃ (fs : List F) (limit w0 max : Nat),
    Valid fs ∧ SuffixOf [] fs ∧ 0 < w0 ∧
    ∀ fuel, selectionFast repaired fs [] limit w0 max fuel ≠ some (selectionTruth fs limit) := by
  refine ⟨[⟨0, .decision⟩], 1, 1, 1, ?_, ⟨[⟨0, .decision⟩], rfl⟩, by decide, ?_⟩
  · intro i h
    match i, h with
    | 0, _ => rfl
  · intro fuel
    cases fuel with
    | zero => decide
    | succ n => exact (by decide : (some [] : Option (List Nat)) ≠ some [0])

theorem empty_cache_wrong_even_repaired_cursor : ∃ (fs : List F) (w0 max : Nat),
    Valid fs ∧ SuffixOf [] fs ∧ 0 < w0 ∧
    ∀ fuel, cursorFast repaired fs [] w0 max fuel ≠ some (cursorTruth fs) := by
  refine ⟨[⟨0, .cursor 7⟩], 1, 1, ?_, ⟨[⟨0, .cursor 7⟩], rfl⟩, by decide, ?_⟩
  · intro i h
    match i, h with
    | 0, _ => rfl
  · intro fuel
    cases fuel with
    | zero => decide
    | succ n =>
      exact (by decide : (some { active := none, cursors := [] } : Option CursorAnswer) ≠
        some { active := some 0, cursors := [(7, 0)] })

example : selectionFast repaired [⟨0, .decision⟩] [] 1 1 1 1 = some [] := by decide
example : cursorFast repaired [⟨0, .cursor 7⟩] [] 1 1 1 = some { active := none, cursors := [] } := by decide

/-! ### 4. a cache rolled back to an earlier version (a prefix of the thread) passes every check -/

theorem prefix_only_cache_wrong_even_repaired : ∃ (fs cs : List F) (limit w0 max fuel : Nat),
    (∃ post, fs = cs ++ post) ∧
    selectionFast repaired fs cs limit w0 max fuel ≠ some (selectionTruth fs limit) ∧
    selectionFast repaired fs cs limit w0 max fuel ≠ none :=
  ⟨twoDecisions, [⟨0, .decision⟩], 1, 1, 1, 2, ⟨[⟨1, .decision⟩], rfl⟩, by decide, by decide⟩

example : selectionFast repaired twoDecisions [⟨0, .decision⟩] 1 1 1 2 = some [0] := by decide
example : selectionTruth twoDecisions 1 = [1] := by decide

theorem prefix_only_cache_wrong_even_repaired_cursor : ∃ (fs cs : List F) (w0 max fuel : Nat),
    (∃ post, fs = cs ++ post) ∧
    cursorFast repaired fs cs w0 max fuel ≠ some (cursorTruth fs) ∧
    cursorFast repaired fs cs w0 max fuel ≠ none :=
  ⟨[⟨0, .cursor 7⟩, ⟨1, .cursor 7⟩], [⟨0, .cursor 7⟩], 1, 1, 2, ⟨[⟨1, .cursor 7⟩], rfl⟩, by decide, by decide⟩

/-! ### concrete runs: a 5-frame thread with two decisions and two cursor keys -/

def thread5 : List F :=
  [⟨0, .cursor 7⟩, ⟨1, .decision⟩, ⟨2, .cursor 9⟩, ⟨3, .decision⟩, ⟨4, .other⟩]

example : selectionTruth thread5 2 = [3, 1] := by decide
example : cursorTruth thread5 = { active := some 2, cursors := [(9, 2), (7, 0)] } := by decide

/-- the tails of windows 1, 2, 4 and 8 -/
example : tailOf thread5 1 = { events := [⟨4, .other⟩], reachedStart := false } := by decide
example : tailOf thread5 2 = { events := [⟨3, .decision⟩, ⟨4, .other⟩], reachedStart := false } := by decide
example : tailOf thread5 4 =
    { events := [⟨1, .decision⟩, ⟨2, .cursor 9⟩, ⟨3, .decision⟩, ⟨4, .other⟩], reachedStart := false } := by decide
example : tailOf thread5 8 = { events := thread5, reachedStart := true } := by decide

/-- windows 1 → 2 → 4 (= max): still running after one and two windows, done after three -/
example : selectionLoop current' thread5 2 1 4 [] 1 = none := by decide
example : selectionLoop current' thread5 2 1 4 [] 2 = none := by decide
example : selectionLoop current' thread5 2 1 4 [] 3 = some ([3, 1], true, false) := by decide
example : selectionFast current' thread5 thread5 2 1 4 3 = some [3, 1] := by decide
/-- limit 1 is satisfied by window 2; the loop leaves at the next check -/
example : selectionLoop current' thread5 1 1 4 [] 3 = some ([3], true, false) := by decide
/-- limit 3 is not satisfied by the largest window: incomplete and short ⇒ the truth log answers -/
example : selectionLoop current' thread5 3 1 4 [] 3 = some ([3, 1], true, false) := by decide
example : selectionFast current' thread5 thread5 3 1 4 3 = some [3, 1] := by decide
/-- windows 1 → 2 → 4 → 8: the last one reaches the start -/
example : selectionLoop current' thread5 3 1 8 [] 4 = some ([3, 1], true, true) := by decide
example : selectionLoop repaired thread5 3 1 8 [] 4 = some ([3, 1], true, true) := by decide

/-- before the repairs, limit 3, windows 1 → 2 → 4 → 4: the accumulator is never reset -/
example : selectionLoop asIs thread5 3 1 4 [] 4 = some ([3, 3, 1], true, false) := by decide
example : selectionFast asIs thread5 thread5 3 1 4 4 = some [3, 3, 1] := by decide
/-- … with limit 2 and windows 1 → 2 → 2 the one visible decision fills the answer twice -/
example : selectionLoop asIs thread5 2 1 2 [] 4 = some ([3, 3], true, false) := by decide
/-- … and over a window that shows no decision it is still running after 50 windows -/
example : selectionLoop asIs thread5 1 1 1 [] 50 = none := by decide
example : cursorLoop asIs thread5 1 2 50 = none := by decide

/-- cursor status, windows 1 → 2 → 4 (= max): one key found, scan incomplete ⇒ fallback to truth -/
example : cursorLoop current' thread5 1 4 2 = none := by decide
example : cursorLoop current' thread5 1 4 3 =
    some (some ({ active := some 2, cursors := [(9, 2)] }, false)) := by decide
example : cursorFast current' thread5 thread5 1 4 3 =
    some { active := some 2, cursors := [(9, 2), (7, 0)] } := by decide
example : cursorFast noFallback thread5 thread5 1 4 3 =
    some { active := some 2, cursors := [(9, 2)] } := by decide
/-- windows 1 → 2 → 4 → 8: complete -/
example : cursorLoop current' thread5 1 8 4 =
    some (some ({ active := some 2, cursors := [(9, 2), (7, 0)] }, true)) := by decide

/-- a suffix-only cache of `thread5` (frames 2..4), now and repaired -/
example : selectionFast current' thread5 (thread5.drop 2) 2 1 4 3 = some [3] := by decide
example : selectionFast repaired thread5 (thread5.drop 2) 2 1 4 3 = some [3, 1] := by decide
example : cursorFast current' thread5 (thread5.drop 2) 1 4 3 =
    some { active := some 2, cursors := [(9, 2)] } := by decide
example : cursorFast repaired thread5 (thread5.drop 2) 1 4 3 =
    some { active := some 2, cursors := [(9, 2), (7, 0)] } := by decide

/-! ### 5. a seek index that is wrong where the loader does not look (`Rip.Model.SeekIndex`) -/

namespace Seek
open Rip.SeekIndex

/-- six one-byte message frames, seq 0..5 -/
def six : List Line := (List.range 6).map (fun i => ⟨i, true, true, 0⟩)
/-- stride 2: entries for 0, 2, 4 — the middle one carries the offset of frame 4 -/
def skewed : List Entry := [⟨0, 0⟩, ⟨2, 4⟩, ⟨4, 4⟩]
def good : List Entry := [⟨0, 0⟩, ⟨2, 2⟩, ⟨4, 4⟩]

/-- the loader accepts the skewed index (monotonic, last entry right) … -/
theorem skewed_index_loads : ensure 2 six (some skewed) = some skewed := by decide

/-- … and before the repair the window for "the newest message at or below seq 3" came back EMPTY
instead of [3]; with the check at use the read is refused (and the caller falls back to the log) -/
theorem skewed_index_wrong_before_repair :
    window false 2 100 six (some skewed) 3 1 = some [] ∧
    windowLinear 100 six 3 1 = [3] ∧
    window true 2 100 six (some skewed) 3 1 = none := by decide

/-- non-vacuity: a right index is used and answers (it is not refused), also when it had to be rebuilt -/
theorem good_index_answers :
    window true 2 100 six (some good) 3 1 = some [3] ∧
    window true 2 100 six none 3 1 = some [3] ∧
    window true 2 100 six (some []) 5 2 = some [4, 5] ∧
    rebuild 2 six = some good := by decide

end Seek

end Rip.Cex.C04
