import Rip.Model.Join
namespace Rip.Cex.C06
open Rip.Join

/-- publish-before-record loses a frame at the join: the subscriber subscribes after the send and
takes its snapshot before the push -/
theorem lost_frame :
    let s := run pubThenLockedRec 1 [.producer, .subscriber, .subscriber, .producer, .producer, .producer]
    complete 1 s = true ∧ output s = [] := by decide

/-- the same schedule with the lock taken before the send delivers the frame -/
theorem same_schedule_safe :
    let s := run lockedPubRec 1 [.producer, .subscriber, .subscriber, .producer, .producer, .producer, .subscriber]
    complete 1 s = true ∧ output s = [0] := by decide

end Rip.Cex.C06
