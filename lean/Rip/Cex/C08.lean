import Rip.Model.Context
/-!
C08 counterexample: with the code as it was (`strictCut = false`) a checkpoint frame appended AFTER the
cut point of an earlier run changes what that run's context compiles to; with the repair
(`strictCut = true`) it does not. Also non-vacuity checks of the model on small concrete threads.
-/
namespace Rip.Cex.C08
open Rip.Context

/-- session created, then two user messages (ids 101 and 102) -/
def evs : List F := [⟨0, 100, .other⟩, ⟨1, 101, .message 7⟩, ⟨2, 102, .message 8⟩]

/-- appended later: a cumulative checkpoint summarising up to seq 1 (the first message) -/
def later : List F := [⟨3, 103, .checkpoint 9 1 true 55⟩]

/-- the run triggered by the first message -/
def anchor : Nat := 101

instance (l : List F) : Decidable (Valid l) := by unfold Valid; exact inferInstance

theorem evs_later_valid : Valid (evs ++ later) := by decide

/-- the anchor's message and a later message are both in `evs` (this is `HasNext evs anchor`) -/
theorem evs_hasNext :
    (messages evs).dropWhile (fun f => f.id != anchor) = [⟨1, 101, .message 7⟩, ⟨2, 102, .message 8⟩] := by
  decide

/-- the cut of that run is fixed at seq 1 whether or not the later frame is there -/
theorem cut_fixed : cutpoint evs anchor = some 1 ∧ cutpoint (evs ++ later) anchor = some 1 := by decide

/-- `later_frames_irrelevant` is FALSE for `strictCut = false`: all its hypotheses hold and the result differs -/
theorem late_checkpoint_changes_result :
    ∃ (evs later : List F) (anchor : Nat),
      Valid (evs ++ later) ∧
      (∃ a n post, (messages evs).dropWhile (fun f => f.id != anchor) = a :: n :: post) ∧
      compile false (evs ++ later) anchor (fun _ => 0) ≠ compile false evs anchor (fun _ => 0) :=
  ⟨evs, later, anchor, by decide, ⟨_, _, _, evs_hasNext⟩, by decide⟩

/-- what the two compilations are: the late checkpoint replaces the run's own message by a summary -/
example : compile false evs anchor (fun _ => 0) =
    some { fromSeq := 1, strategy := .recent, cause := .noCheckpoint, reset := false, selected := [],
           items := [.user 7 1 101] } := by decide

example : compile false (evs ++ later) anchor (fun _ => 0) =
    some { fromSeq := 1, strategy := .summaries, cause := .checkpoint, reset := false, selected := [9],
           items := [.summaryRef 55 1] } := by decide

/-- the same inputs give equal results with the repair -/
example : compile true (evs ++ later) anchor (fun _ => 0) = compile true evs anchor (fun _ => 0) := by decide

example : compile true (evs ++ later) anchor (fun _ => 0) =
    some { fromSeq := 1, strategy := .recent, cause := .noCheckpoint, reset := false, selected := [],
           items := [.user 7 1 101] } := by decide

/-- the side condition of `later_frames_irrelevant_partial` is exactly what fails here: the late checkpoint's
to_seq (1) is not after the cut (1) -/
example : ¬ (∀ f ∈ later, ∀ cp t cum a, f.kind = .checkpoint cp t cum a → 1 < t) := by
  intro h
  exact absurd (h _ (List.mem_singleton.2 rfl) 9 1 true 55 rfl) (by decide)

/-- a late NON-cumulative checkpoint also changes the result of the unrepaired code (the logged decision) -/
example :
    compile false (evs ++ [⟨3, 103, .checkpoint 9 1 false 55⟩]) anchor (fun _ => 0) ≠
      compile false evs anchor (fun _ => 0) := by decide

/-! ### non-vacuity -/

/-- a longer thread: 4 messages with replies, two cumulative checkpoints (to_seq 2 and 5), tail message -/
def thread : List F :=
  [ ⟨0, 100, .other⟩,
    ⟨1, 101, .message 11⟩, ⟨2, 102, .runEnded 101 1⟩,
    ⟨3, 103, .message 12⟩, ⟨4, 104, .other⟩, ⟨5, 105, .runEnded 103 2⟩,
    ⟨6, 106, .checkpoint 201 2 true 301⟩,
    ⟨7, 107, .message 13⟩, ⟨8, 108, .runEnded 107 3⟩,
    ⟨9, 109, .checkpoint 202 5 true 302⟩,
    ⟨10, 110, .message 14⟩ ]

def reply (s : Nat) : Nat := 1000 + s

example : Valid thread := by decide

/-- compiled at the head with the hierarchical strategy: two summary refs (to_seq 2 ≤ 5 / 2), then the
messages after the latest summary with their replies -/
example : compile true thread 110 reply =
    some { fromSeq := 10, strategy := .hierarchical, cause := .checkpointHierarchy, reset := false,
           selected := [201, 202],
           items := [.summaryRef 301 2, .summaryRef 302 5, .user 13 7 107, .assistant 1003, .user 14 10 110] } := by
  decide

/-- a mid-thread anchor: the cut is fixed at the frame before the next message (6), the checkpoint frames
6 (to_seq 2) is used, the one at 9 is not; the reply at seq 8 is after the cut and is not included -/
example : cutpoint thread 103 = some 6 := by decide

example : compile true thread 103 reply =
    some { fromSeq := 6, strategy := .summaries, cause := .checkpoint, reset := false, selected := [201],
           items := [.summaryRef 301 2, .user 12 3 103, .assistant 1002] } := by decide

/-- the unrepaired code differs on this anchor: the checkpoint frame at seq 9 (after the cut 6) has
to_seq 5 ≤ 6 and is used, dropping the run's own message from its context -/
example : compile false thread 103 reply =
    some { fromSeq := 6, strategy := .hierarchical, cause := .checkpointHierarchy, reset := false,
           selected := [201, 202], items := [.summaryRef 301 2, .summaryRef 302 5] } := by decide

/-- likewise on the first message: its cut is 2, and the checkpoint frame at seq 6 has to_seq 2 -/
example : compile false thread 101 reply ≠ compile true thread 101 reply := by decide

/-- the two semantics agree where no checkpoint frame after the cut summarises up to the cut or before -/
example : compile false thread 107 reply = compile true thread 107 reply := by decide
example : compile false thread 110 reply = compile true thread 110 reply := by decide

/-- an unknown anchor compiles to nothing -/
example : compile true thread 999 reply = none := by decide

end Rip.Cex.C08
