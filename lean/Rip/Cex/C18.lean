import Rip.Model.AuthLTS
namespace Rip.Cex.C18
open Rip.AuthLTS

/-- Two contenders find the lock of a dead authority. Both re-read it; the first cleans up and
acquires; the second then renames the first one's live lock away and acquires too. -/
def twoAuthoritiesSched : List Act :=
  [.step 0, .step 1,            -- both: create_new fails
   .step 0, .step 1,            -- both: lock record names pid 0, which is dead
   .step 0, .step 1,            -- both: re-read says pid 0 (cleanup may proceed)
   .step 0, .step 0,            -- A: rename lock away, meta
   .step 0, .step 0,            -- A: create_new, write record  => A is the authority
   .step 1, .step 1,            -- B: rename (A's live lock!), meta
   .step 1, .step 1]            -- B: create_new, write record  => B is the authority too

theorem two_authorities :
    holders (run false (initStale 2 false) twoAuthoritiesSched) = 2 := by decide

/-- the same schedule is harmless when re-read + rename is one step -/
theorem two_authorities_needs_the_gap :
    holders (run true (initStale 2 false) twoAuthoritiesSched) = 1 := by decide

/-- `Drop` removes whatever lock file is at the path: a holder whose lock was stolen removes the
thief's lock on release, after which a third process can acquire next to the thief. -/
def dropStealsSched : List Act :=
  twoAuthoritiesSched ++ [.release 0, .step 0, .step 0,    -- A drops: removes meta, removes B's lock
                          .step 2, .step 2]                 -- C: create_new, write record

theorem drop_removes_foreign_lock :
    holders (run false (initStale 3 false) dropStealsSched) = 2 ∧
    (run false (initStale 3 false) dropStealsSched).pcs[0]? = some .done := by decide

end Rip.Cex.C18
