import Rip.Model.StoreLTS
namespace Rip.Cex.C01
open Rip.StoreLTS

/-- A client that learns a new thread id (from the broadcast of the creation frame or from the
index) before the creating branch/handoff call has written the lineage frame: its message takes
seq 1, then the lineage frame is written with the hard-coded seq 1. -/
def branchRaceProgs : List (List Op) := [[.create 7], [.append 7]]

def branchRaceSched : List Act :=
  [.step 0, .step 0, .step 0,              -- A: (no lock) creation frame @0; map[7] := 1
   .step 1, .step 1, .step 1, .step 1,     -- B: lock, message @1, bump, unlock
   .step 0, .step 0]                       -- A: lineage frame @1 (hard-coded); map[7] := 2

/-- the code before the repair: duplicate seq 1, the store no longer replays -/
theorem branch_race :
    (run false (fun _ => false) branchRaceProgs branchRaceSched).log = [(7, 0), (7, 1), (7, 1)] ∧
    validLog (run false (fun _ => false) branchRaceProgs branchRaceSched).log = false := by decide

/-- the same schedule on the repaired protocol: B waits for the lock and takes seq 2 -/
theorem branch_race_repaired :
    validLog (run true (fun _ => false) branchRaceProgs
      (branchRaceSched ++ [.step 0, .step 0, .step 1, .step 1, .step 1, .step 1])).log = true ∧
    (run true (fun _ => false) branchRaceProgs
      (branchRaceSched ++ [.step 0, .step 0, .step 1, .step 1, .step 1, .step 1])).log = [(7, 0), (7, 1), (7, 2)] := by
  decide

end Rip.Cex.C01
