import Rip.Model.StoreLTS
namespace Rip.Cex.C01
open Rip.StoreLTS

/-- A client that learns a new thread id (from the broadcast of the creation frame or from the
index) before the creating branch/handoff call has written the lineage frame: its message takes
seq 1, then the lineage frame is written with the hard-coded seq 1. -/
def branchRaceProgs : List (List Op) := [[.create 7], [.append 7]]

def branchRaceSched : List Act :=
  [.step 0, .step 0,                       -- A: creation frame @0; map[7] := 1
   .step 1, .step 1, .step 1, .step 1,     -- B: lock, message @1, bump, unlock
   .step 0, .step 0]                       -- A: lineage frame @1 (hard-coded); map[7] := 2

theorem branch_race :
    (run branchRaceProgs branchRaceSched).log = [(7, 0), (7, 1), (7, 1)] ∧
    validLog (run branchRaceProgs branchRaceSched).log = false := by decide

/-- without the early address the same two writers are harmless -/
theorem no_race_when_addressed_later :
    validLog (run [[.create 7, .append 7], [.append 3]]
      [.step 0, .step 1, .step 0, .step 1, .step 0, .step 0, .step 1, .step 1, .step 0, .step 0, .step 0, .step 0]).log = true := by
  decide

end Rip.Cex.C01
