import Rip.Driver.C20
import Rip.Driver.C01
import Rip.Driver.C03
import Rip.Driver.C06
import Rip.Driver.C09
import Rip.Driver.C10
import Rip.Driver.C12
import Rip.Driver.C15
import Rip.Driver.C13
import Rip.Driver.C14
import Rip.Driver.C17
import Rip.Driver.C18
import Rip.Driver.C16
import Rip.Driver.C07
import Rip.Driver.C05
import Rip.Driver.C04
import Rip.Driver.C08
import Rip.Driver.C19

/-- One case per line: `<property> <case tokens…>` → one observation line. -/
def dispatch (line : String) : String :=
  let line := line.trimAscii.toString
  match line.splitOn " " with
  | [] => "bad-op"
  | p :: _ =>
    let rest := (line.drop (p.length + 1)).toString
    match p with
    | "c17w" => Rip.Driver.C17.handleW rest
    | "c17r" => Rip.Driver.C17.handleR rest
    | "c17c" => Rip.Driver.C17.handleC rest
    | "c17l" => Rip.Driver.C17.handleL rest
    | "c17t" => Rip.Driver.C17.handleT rest
    | "c18" => Rip.Driver.C18.handle rest
    | "c20" => Rip.Driver.C20.handle rest
    | "c01" => Rip.Driver.C01.handle rest
    | "c03" => Rip.Driver.C03.handle rest
    | "c06" => Rip.Driver.C06.handle rest
    | "c09" => Rip.Driver.C09.handle rest
    | "c10" => Rip.Driver.C10.handle rest
    | "c12" => Rip.Driver.C12.handle rest
    | "c13" => Rip.Driver.C13.handle rest
    | "c14" => Rip.Driver.C14.handle rest
    | "c15" => Rip.Driver.C15.handle rest
    | "c15d" => Rip.Driver.C15.handleDec rest
    | "c19" => Rip.Driver.C19.handle rest
    | "c08" => Rip.Driver.C08.handle rest
    | "c04" => Rip.Driver.C04.handle rest
    | "c04s" => Rip.Driver.C04.Seek.handle rest
    | "c05" => Rip.Driver.C05.handle rest
    | "c07" => Rip.Driver.C07.handle rest
    | "c16c" => Rip.Driver.C16.handleC rest
    | "c16a" => Rip.Driver.C16.handleA rest
    | "c16l" => Rip.Driver.C16.handleL rest
    | "c15u" => Rip.Driver.C15.handleUtf8 rest
    | _ => "bad-op"

partial def loop (h : IO.FS.Stream) (out : IO.FS.Stream) : IO Unit := do
  let line ← h.getLine
  if line.isEmpty then return ()
  out.putStrLn (dispatch line)
  out.flush
  loop h out

def main : IO Unit := do loop (← IO.getStdin) (← IO.getStdout)
